"""Sidecar contracts for evo/tools/plot.py (property C20): what reaches matplotlib.

A ghost Axes / Figure records every drawing call with its data arguments; trajectories have symbolic length.  The
contracts say which column of the trajectory's own coordinates goes to which axis, in pose order, and that the axis
labels name those same coordinates and the configured unit.  Rendering itself (matplotlib) is outside the model; the
bounded stand-in inspects the real artists."""
import types

import z3

from pyvc import sym, session, npstub
from pyvc.contract import FnContract, Clause, Raises, register
from contracts import trajmodel as tm

PL = "evo.tools.plot."
AX = {"x": 0, "y": 1, "z": 2}
MODES = ["xy", "xz", "yx", "yz", "zx", "zy", "xyz"]


class GAxes:
    def __init__(self, name="ax"):
        self.calls = []
        self.name = name
        self.xaxis = self.yaxis = self.zaxis = types.SimpleNamespace(set_major_formatter=lambda f: None)

    def plot(self, *a, **kw):
        self.calls.append(("plot", a, kw))

    def scatter(self, *a, **kw):
        self.calls.append(("scatter", a, kw))

    def set_xlabel(self, s, *a, **kw):
        self.calls.append(("xlabel", (s, ), kw))

    def set_ylabel(self, s, *a, **kw):
        self.calls.append(("ylabel", (s, ), kw))

    def set_zlabel(self, s, *a, **kw):
        self.calls.append(("zlabel", (s, ), kw))

    def __getattr__(self, a):
        if a.startswith("__"):
            raise AttributeError(a)
        return lambda *x, **k: None


class GAxes3D(GAxes):
    pass


class GFigure:
    def __init__(self):
        self.axes = []

    def add_subplot(self, *a, **kw):
        ax = GAxes3D() if kw.get("projection") == "3d" else GAxes()
        ax.projection = kw.get("projection")
        self.axes.append(ax)
        return ax

    def __getattr__(self, a):
        if a.startswith("__"):
            raise AttributeError(a)
        return lambda *x, **k: None


def _plot_module():
    m = session.loader().load("evo.tools.plot")
    m.set_aspect_equal = lambda ax: None          # rendering detail (axis limits): not part of the data contract
    m.Axes3D = GAxes3D
    return m


def _col(c, arr, n, j, data):
    """data (what reached matplotlib) is column j of arr, element by element, in order"""
    d = sym.as_seq(data) if not isinstance(data, sym.SArr) else data
    ln = d.shape[0] if isinstance(d, sym.SArr) else d.length()
    g = (lambda k: d.row(k)) if isinstance(d, sym.SArr) else d.get
    return c.And(ln == n, c.forall(n, lambda k: g(k) == arr.row(k)[j]))


@register
class plot_mode_to_idx(FnContract):
    name = PL + "plot_mode_to_idx"
    props = ["C20"]

    def cases(self):
        return [{"mode": m} for m in MODES]

    def args(self, c, mode="xy"):
        return dict(plot_mode=getattr(_plot_module().PlotMode, mode))

    def result(self, c, a):
        nm = a.plot_mode.name
        return (AX[nm[0]], AX[nm[1]], AX[nm[2]] if len(nm) == 3 else None)

    def post(self, c, a, res):
        nm = a.plot_mode.name
        yield Clause("indices_are_the_axes_named_by_the_mode", tuple(res) == (AX[nm[0]], AX[nm[1]], AX[nm[2]] if len(nm) == 3 else None),
                     role="prop")


@register
class prepare_axis(FnContract):
    name = PL + "prepare_axis"
    props = ["C20"]

    def cases(self):
        return [{"mode": m, "unit": u} for m in MODES for u in ("meters", "millimeters", "kilometers")]

    def args(self, c, mode="xy", unit="meters"):
        m = _plot_module()
        U = session.loader().load("evo.core.units").Unit
        return dict(fig=GFigure(), plot_mode=getattr(m.PlotMode, mode), subplot_arg=111, length_unit=getattr(U, unit))

    def post(self, c, a, res):
        nm = a.plot_mode.name
        calls = {k: ar[0] for (k, ar, kw) in res.calls if k.endswith("label")} if isinstance(res, GAxes) else {}
        u = a.length_unit.value
        for axis, letter in zip(("xlabel", "ylabel", "zlabel"), nm):
            lab = calls.get(axis)
            yield Clause("%s_names_the_plotted_coordinate_and_the_unit" % axis, isinstance(lab, str) and ("$%s$" % letter) in lab
                         and ("(%s)" % u) in lab, role="prop")
        yield Clause("three_dimensional_axes_only_for_xyz", isinstance(res, GAxes) and ((res.projection == "3d") == (nm == "xyz")),
                     role="prop")


@register
class traj(FnContract):
    name = PL + "traj"
    props = ["C20"]

    def cases(self):
        return [{"mode": m, "stamps": s} for m in MODES for s in (True, False)]

    def args(self, c, mode="xy", stamps=True):
        m = _plot_module()
        t = tm.mk_traj(c, session.loader(), "t", "all", stamps=stamps)
        return dict(ax=GAxes(), plot_mode=getattr(m.PlotMode, mode), traj=t, style="-", color="black", label="", alpha=1.0,
                    plot_start_end_markers=False)

    def post(self, c, a, res):
        nm = a.plot_mode.name
        t = a.traj
        n, xyz = t._n, t._positions_xyz
        lines = [ar for (k, ar, kw) in a.ax.calls if k == "plot"]
        yield Clause("one_line_for_the_trajectory", len(lines) == 1, role="prop")
        if len(lines) != 1:
            return
        data = [d for d in lines[0] if not isinstance(d, str)]
        yield Clause("as_many_data_axes_as_the_mode_names", len(data) == len(nm), role="prop")
        for i, letter in enumerate(nm):
            if i < len(data):
                yield Clause("axis_%d_shows_the_%s_coordinates_in_pose_order" % (i, letter), _col(c, xyz, n, AX[letter], data[i]),
                             role="prop")


@register
class traj_xyz(FnContract):
    name = PL + "traj_xyz"
    props = ["C20"]

    def cases(self):
        # the last configuration (no timestamps, but a start time given) was added after seed C20-c: the pose index is
        # not shifted by the start time
        return [{"stamps": True, "start": False}, {"stamps": True, "start": True}, {"stamps": False, "start": False},
                {"stamps": False, "start": True}]

    def args(self, c, stamps=True, start=False):
        _plot_module()
        U = session.loader().load("evo.core.units").Unit
        t = tm.mk_traj(c, session.loader(), "t", "all", stamps=stamps)
        st = c.real("start_timestamp") if start else None
        if start:
            c.assume(st != 0)
        return dict(axarr=[GAxes("x"), GAxes("y"), GAxes("z")], traj=t, style="-", color="black", label="", alpha=1.0,
                    start_timestamp=st, length_unit=U.meters)

    def post(self, c, a, res):
        t = a.traj
        n, xyz = t._n, t._positions_xyz
        for i, letter in enumerate("xyz"):
            ax = a.axarr[i]
            lines = [ar for (k, ar, kw) in ax.calls if k == "plot"]
            ok = len(lines) == 1 and len(lines[0]) >= 2
            yield Clause("subplot_%s_has_one_line" % letter, ok, role="prop")
            if not ok:
                continue
            xs, ys = lines[0][0], lines[0][1]
            yield Clause("subplot_%s_shows_the_%s_coordinate_in_pose_order" % (letter, letter), _col(c, xyz, n, i, ys), role="prop")
            if "timestamps" in t.__dict__:
                ts = t.timestamps
                off = a.start_timestamp if a.start_timestamp is not None else 0
                xd = xs if isinstance(xs, sym.SArr) else None
                yield Clause("subplot_%s_against_the_timestamps_shifted_by_the_start_time" % letter, xd is not None and c.And(
                    xd.shape[0] == n, c.forall(n, lambda k: xd.row(k) == ts.row(k) - off)), role="prop")
            else:
                xd = sym.as_seq(xs)
                yield Clause("subplot_%s_against_the_pose_index" % letter, c.And(xd.length() == n, c.forall(
                    n, lambda k: xd.get(k) == k)), role="prop")
            labs = [ar[0] for (k, ar, kw) in ax.calls if k == "ylabel"]
            yield Clause("subplot_%s_label_names_the_coordinate_and_unit" % letter, len(labs) == 1 and ("$%s$" % letter) in labs[0]
                         and "(m)" in labs[0], role="prop")
        xl = [ar[0] for (k, ar, kw) in a.axarr[2].calls if k == "xlabel"]
        yield Clause("x_axis_label_says_time_or_index", len(xl) == 1 and (("$t$ (s)" in xl[0]) if "timestamps" in t.__dict__
                                                                          else xl[0] == "index"), role="prop")


@register
class traj_rpy(FnContract):
    """roll / pitch / yaw plots.  The Euler angles themselves are the trajectory class's business
    (get_orientations_euler is replaced by an opaque n x 3 ghost array): what is verified is that angle i of pose k, converted
    to degrees, is drawn in subplot i at position k against the (shifted) timestamp or the pose index."""
    name = PL + "traj_rpy"
    props = ["C20"]

    def cases(self):
        return [{"stamps": True, "start": False}, {"stamps": True, "start": True}, {"stamps": False, "start": False},
                {"stamps": False, "start": True}]

    def args(self, c, stamps=True, start=False):
        _plot_module()
        t = tm.mk_traj(c, session.loader(), "t", "all", stamps=stamps)
        t.euler_ghost = c.array("euler", t._n, (3, ))
        type(t).get_orientations_euler = lambda self, axes="sxyz": self.__dict__.get("euler_ghost")
        st = c.real("start_timestamp") if start else None
        if start:
            c.assume(st != 0)
        return dict(axarr=[GAxes("roll"), GAxes("pitch"), GAxes("yaw")], traj=t, style="-", color="black", label="", alpha=1.0,
                    start_timestamp=st)

    def post(self, c, a, res):
        t = a.traj
        n, eul = t._n, t.euler_ghost
        for i, nm in enumerate(("roll", "pitch", "yaw")):
            ax = a.axarr[i]
            lines = [ar for (k, ar, kw) in ax.calls if k == "plot"]
            ok = len(lines) == 1 and len(lines[0]) >= 2
            yield Clause("subplot_%s_has_one_line" % nm, ok, role="prop")
            if not ok:
                continue
            xs, ys = lines[0][0], lines[0][1]
            yd = ys if isinstance(ys, sym.SArr) else None
            yield Clause("subplot_%s_shows_angle_%d_of_every_pose_in_degrees_in_pose_order" % (nm, i), yd is not None and c.And(
                yd.shape[0] == n, c.forall(n, lambda k: yd.row(k) == npstub.rad2deg(eul.row(k)[i]))), role="prop",
                note="rad2deg: trusted numpy conversion (uninterpreted, same term on both sides)")
            if "timestamps" in t.__dict__:
                ts = t.timestamps
                off = a.start_timestamp if a.start_timestamp is not None else 0
                xd = xs if isinstance(xs, sym.SArr) else None
                yield Clause("subplot_%s_against_the_timestamps_shifted_by_the_start_time" % nm, xd is not None and c.And(
                    xd.shape[0] == n, c.forall(n, lambda k: xd.row(k) == ts.row(k) - off)), role="prop")
            else:
                xd = sym.as_seq(xs)
                yield Clause("subplot_%s_against_the_pose_index" % nm, c.And(xd.length() == n, c.forall(
                    n, lambda k: xd.get(k) == k)), role="prop")
            labs = [ar[0] for (k, ar, kw) in ax.calls if k == "ylabel"]
            yield Clause("subplot_%s_label_names_the_angle_and_degrees" % nm, len(labs) == 1 and nm in labs[0]
                         and "deg" in labs[0], role="prop")
        xl = [ar[0] for (k, ar, kw) in a.axarr[2].calls if k == "xlabel"]
        yield Clause("x_axis_label_says_time_or_index", len(xl) == 1 and (("$t$ (s)" in xl[0]) if "timestamps" in t.__dict__
                                                                          else xl[0] == "index"), role="prop")


@register
class add_start_end_markers(FnContract):
    name = PL + "add_start_end_markers"
    props = ["C20"]

    def cases(self):
        return [{"mode": m} for m in MODES]

    def args(self, c, mode="xy"):
        m = _plot_module()
        t = tm.mk_traj(c, session.loader(), "t", "all", stamps=False)
        return dict(ax=GAxes(), plot_mode=getattr(m.PlotMode, mode), traj=t, start_symbol="o", start_color="black", end_symbol="x",
                    end_color="black", alpha=1.0, traj_name=None)

    def post(self, c, a, res):
        nm = a.plot_mode.name
        t = a.traj
        n, xyz = t._n, t._positions_xyz
        sc = [ar for (k, ar, kw) in a.ax.calls if k == "scatter"]
        yield Clause("two_markers", len(sc) == 2, role="prop")
        if len(sc) != 2:
            return
        for which, ar, row in (("start", sc[0], xyz.row(0)), ("end", sc[1], xyz.row(n - 1))):
            ok = len(ar) == len(nm)
            yield Clause("%s_marker_has_one_coordinate_per_plotted_axis" % which, ok, role="prop")
            if ok:
                yield Clause("%s_marker_at_the_%s_pose's_own_coordinates" % (which, "first" if which == "start" else "last"),
                             c.And(*[ar[i] == row[AX[letter]] for i, letter in enumerate(nm)]), role="prop")


@register
class speeds(FnContract):
    name = PL + "speeds"
    props = ["C20"]

    def cases(self):
        return [{"start": False}, {"start": True}]

    def args(self, c, start=False):
        _plot_module()
        t = tm.mk_traj(c, session.loader(), "t", "all", stamps=True)
        c.assume(t._n >= 2)
        t.speeds_ghost = c.array("speeds", t._n - 1)
        # the speed values themselves are C08's business (calc_speed): here an opaque array of n-1 values
        type(t).speeds = property(lambda self: self.__dict__.get("speeds_ghost"))
        st = c.real("start_timestamp") if start else None
        if start:
            c.assume(st != 0)
        return dict(ax=GAxes(), traj=t, style="-", color="black", label="", alpha=1.0, start_timestamp=st)

    def post(self, c, a, res):
        t = a.traj
        n = t._n
        lines = [ar for (k, ar, kw) in a.ax.calls if k == "plot"]
        ok = len(lines) == 1 and len(lines[0]) >= 2
        yield Clause("one_line", ok, role="prop")
        if not ok:
            return
        xs, ys = lines[0][0], lines[0][1]
        off = a.start_timestamp if a.start_timestamp is not None else 0
        yield Clause("speed_values_passed_on_in_order", ys is t.speeds_ghost, role="prop")
        yield Clause("each_speed_shown_at_the_timestamp_of_the_newer_pose_shifted_by_the_start_time", isinstance(xs, sym.SArr) and c.And(
            xs.shape[0] == n - 1, c.forall(n - 1, lambda k: xs.row(k) == t.timestamps.row(k + 1) - off)), role="prop")
        xl = [ar[0] for (k, ar, kw) in a.ax.calls if k == "xlabel"]
        yl = [ar[0] for (k, ar, kw) in a.ax.calls if k == "ylabel"]
        yield Clause("labels_say_time_and_speed", xl == ["$t$ (s)"] and len(yl) == 1 and "m/s" in yl[0], role="prop")
