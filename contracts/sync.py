"""Sidecar contracts for evo/core/sync.py (properties C05, C16)."""
import types

import z3

from pyvc import sym
from pyvc.contract import FnContract, Clause, Raises, LoopSpec, register
from pyvc.sym import SB, _term

M = "evo.core.sync."


def qforall(vars_, guard, body, pats=None):
    vs = [v.t for v in vars_]
    kw = {"patterns": pats} if pats else {}
    return SB(z3.ForAll(vs, z3.Implies(_term(guard), _term(body)), **kw))


def increasing(c, arr, n):
    """strictly increasing array (the quantifier of C05: 'all pairs of strictly increasing timestamp vectors')"""
    return c.forall2(n, lambda a, b: arr.row(a) < arr.row(b))


def dist(c, s1, s2, off):
    return lambda i, j: c.abs(s2.row(j) + off - s1.row(i))


def nearest_fn(c, s1, s2, off, n2):
    """ghost spec function nn(i) = index of the first nearest counterpart of stamp i (exists since n2 >= 1);
    introduced by its defining axioms (a conservative definition, listed under assumptions)"""
    ctx = sym.cur()
    key = ("nn", id(s1._cell[0]), id(s2._cell[0]), str(off))
    cache = ctx.ghost.setdefault("nn", {})
    if key in cache:
        return cache[key][0]
    f = ctx.fresh_fun("nn", [z3.IntSort()], z3.IntSort())
    d = dist(c, s1, s2, off)
    i, j = z3.Int("i!nn"), z3.Int("j!nn")
    n2t = _term(n2)
    ctx.quiet += 1
    try:
        dn = _term(d(sym.SI(i), sym.SI(f(i))))
        dj = _term(d(sym.SI(i), sym.SI(j)))
    finally:
        ctx.quiet -= 1
    ctx.assume(SB(z3.ForAll([i], z3.And(0 <= f(i), f(i) < n2t), patterns=[f(i)])))
    ctx.assume(SB(sym.forall_t([i, j], z3.Implies(z3.And(0 <= j, j < n2t), dn <= dj))))
    ctx.assume(SB(sym.forall_t([i, j], z3.Implies(z3.And(0 <= j, j < f(i)), dn < dj))))
    nn = lambda x: sym.wrap(f(_term(x)))
    cache[key] = (nn, s1._cell[0], s2._cell[0])
    return nn


def mti_clauses(c, s1, s2, off, max_diff, L1, L2, upto, n2):
    """the association clauses for the pairs (L1[k], L2[k]) over the first `upto` stamps of s1.
    Shared by the loop invariant (upto = loop index) and the postcondition (upto = len(s1))."""
    d = dist(c, s1, s2, off)
    L1, L2 = sym.as_seq(L1), sym.as_seq(L2)
    m = c.len(L1)
    g1, g2 = L1.get, L2.get
    nn = nearest_fn(c, s1, s2, off, n2)
    srt = c.And(increasing(c, s1, c.len(s1)), increasing(c, s2, n2))
    yield "same_len", c.len(L1) == c.len(L2), "prop"
    yield "in_range", c.forall(m, lambda k: c.And(0 <= g1(k), g1(k) < upto, 0 <= g2(k), g2(k) < n2)), "prop"
    yield "increasing_1", c.forall2(m, lambda a, b: g1(a) < g1(b)), "prop"
    yield "within_max_diff", c.forall(m, lambda k: d(g1(k), g2(k)) <= max_diff), "prop"
    yield "paired_with_nearest", c.forall(m, lambda k: g2(k) == nn(g1(k))), "prop"
    yield "increasing_2_if_sorted", c.Implies(srt, c.forall2(m, lambda a, b: g2(a) < g2(b))), "prop"
    # completeness: if the nearest counterpart of stamp i lies within max_diff, that counterpart is used -- by i
    # itself, or (paired_with_nearest) by another stamp that also has it as its nearest counterpart
    yield "complete", c.forall(upto, lambda i: c.Implies(d(i, nn(i)) <= max_diff,
                                                         c.exists(m, lambda k: g2(k) == nn(i), "k")), "i"), "prop"


@register
class matching_time_indices(FnContract):
    name = M + "matching_time_indices"
    props = ["C05"]

    def args(self, c):
        n1, n2 = c.int("n1"), c.int("n2")
        c.assume(n1 >= 0)
        c.assume(n2 >= 0)
        return dict(stamps_1=c.array("s1", n1), stamps_2=c.array("s2", n2), max_diff=c.real("max_diff"),
                    offset_2=c.real("offset_2"))

    def pre(self, c, a):
        yield ("stamps_2_nonempty", c.len(a.stamps_2) >= 1)

    def snapshot(self, c, a):
        return types.SimpleNamespace(s2_get=a.stamps_2._cell[0], s1_get=a.stamps_1._cell[0],
                                     s2=a.stamps_2.copy(), s1=a.stamps_1.copy())

    def result(self, c, a):
        m = c.int("n_matches")
        c.assume(m >= 0)
        L1, L2 = c.seq("m1", m, (), "int"), c.seq("m2", m, (), "int")
        L1.elem_kind = L2.elem_kind = "int"
        sym.cur().ghost["mti_result"] = (L1, L2, a)
        return (L1, L2)

    def post(self, c, a, res, old=None):
        L1, L2 = res
        s2 = old.s2 if old is not None else a.stamps_2
        s1 = old.s1 if old is not None else a.stamps_1
        for label, cond, role in mti_clauses(c, s1, s2, a.offset_2, a.max_diff, L1, L2, c.len(s1), c.len(s2)):
            yield Clause(label, cond, role=role)
        if old is not None:
            # frame: the caller's arrays are unchanged (the offset is applied to a copy)
            n2, n1 = c.len(s2), c.len(s1)
            yield Clause("frame_stamps_2_unchanged",
                         True if a.stamps_2._cell[0] is old.s2_get else
                         c.forall(n2, lambda k: a.stamps_2.row(k) == s2.row(k)), role="prop", props=["C05", "C16"])
            yield Clause("frame_stamps_1_unchanged",
                         True if a.stamps_1._cell[0] is old.s1_get else
                         c.forall(n1, lambda k: a.stamps_1.row(k) == s1.row(k)), role="prop", props=["C05", "C16"])

    def _inv(c, i, v):
        # stamps_2 is the shifted copy inside the loop: the clauses are stated over it with offset 0
        basic = ["same_len", "in_range", "increasing_1", "paired_with_nearest"]
        uses = {"same_len": basic, "in_range": basic, "increasing_1": basic, "within_max_diff": basic,
                "paired_with_nearest": basic, "increasing_2_if_sorted": basic, "complete": basic}
        for label, cond, role in mti_clauses(c, v.stamps_1, v.stamps_2, 0, v.max_diff, v.matching_indices_1,
                                             v.matching_indices_2, i, c.len(v.stamps_2)):
            yield label, cond, uses[label]

    loops = {0: LoopSpec(_inv, types={"matching_indices_1": "list[int]", "matching_indices_2": "list[int]"})}


from contracts import trajmodel as tm


def _sides(c, a):
    """(short, long, offset applied to the long side's stamps, snd_longer) as the property defines them"""
    n1, n2 = c.len(a.traj_1.timestamps), c.len(a.traj_2.timestamps)
    return n1, n2, (n2 > n1)


@register
class associate_trajectories(FnContract):
    name = M + "associate_trajectories"
    props = ["C05"]

    def cases(self):
        return [{"mode": "poses"}, {"mode": "xyzquat"}]

    def args(self, c, mode="poses"):
        from pyvc import session
        t1 = tm.mk_traj(c, session.loader(), "t1", mode)
        t2 = tm.mk_traj(c, session.loader(), "t2", mode)
        md = c.real("max_diff")
        return dict(traj_1=t1, traj_2=t2, max_diff=md, offset_2=c.real("offset_2"), first_name="first",
                    snd_name="second")

    def snapshot(self, c, a):
        return types.SimpleNamespace(t1=tm.snapshot(a.traj_1), t2=tm.snapshot(a.traj_2))

    def _no_match(c, a):
        n1, n2, snd_longer = _sides(c, a)
        s1, s2 = a.traj_1.timestamps, a.traj_2.timestamps

        def none(short, long_, off):
            nn = nearest_fn(c, short, long_, off, c.len(long_))
            d = dist(c, short, long_, off)
            return c.forall(c.len(short), lambda i: d(i, nn(i)) > a.max_diff, "i")
        return c.And(c.Implies(snd_longer, none(s1, s2, a.offset_2)),
                     c.Implies(c.Not(snd_longer), none(s2, s1, -a.offset_2)))

    raises = (Raises("SyncException", "no_matching_timestamps", _no_match, role="prop"), )

    def hints(self, c, a, res):
        Ls, Ll, callee = sym.cur().ghost.get("mti_result", (None, None, None))
        if Ls is None:
            return
        short, long_, off = callee.stamps_1, callee.stamps_2, callee.offset_2
        nn = nearest_fn(c, short, long_, off, c.len(long_))
        d = dist(c, short, long_, off)
        i0 = Ls.get(0)
        yield "first_pair_is_a_match", c.And(Ll.get(0) == nn(i0), d(i0, nn(i0)) <= a.max_diff, 0 <= i0,
                                            i0 < c.len(short))

    def post(self, c, a, res, old=None):
        r1, r2 = res
        n1, n2, snd_longer = _sides(c, a)
        Ls, Ll, callee = sym.cur().ghost.get("mti_result", (None, None, None))
        if Ls is None:
            yield Clause("pairs_exist", False, role="prop", note="no association result to witness the pairs")
            return
        K = c.len(Ls)
        yield Clause("at_least_one_pair", K >= 1, role="prop")
        v1, v2 = tm.views(r1), tm.views(r2)
        o1, o2 = (old.t1, old.t2) if old is not None else (tm.snapshot(a.traj_1), tm.snapshot(a.traj_2))
        # index lists into traj_1 / traj_2
        for case, cond in ((True, snd_longer), (False, c.Not(snd_longer))):
            ia, ib = (Ls, Ll) if case else (Ll, Ls)
            tag = "snd_longer" if case else "fst_longer_or_equal"
            conds = []
            for (vr, oo, idx) in ((v1, o1, ia), (v2, o2, ib)):
                if set(vr) != set(oo):
                    conds.append(False)
                    continue
                for f, (n, get, obj) in vr.items():
                    n0, cell0, obj0 = oo[f]
                    conds.append(n == K)
                    conds.append(c.forall(K, lambda k, get=get, cell0=cell0, idx=idx: c.eq(get(k), cell0(idx.get(k)))))
            yield Clause("copies_of_input_poses_and_stamps[%s]" % tag, c.Implies(cond, c.And(*conds)), role="prop")
            t1s, t2s = sym.SSeq(o1["timestamps"][0], o1["timestamps"][1]), sym.SSeq(o2["timestamps"][0], o2["timestamps"][1])
            yield Clause("within_max_diff[%s]" % tag, c.Implies(cond, c.forall(
                K, lambda k: c.abs(t1s.get(ia.get(k)) - (t2s.get(ib.get(k)) + a.offset_2)) <= a.max_diff)), role="prop")
            yield Clause("time_order[%s]" % tag, c.Implies(cond, c.forall2(K, lambda x, y: Ls.get(x) < Ls.get(y))),
                         role="prop")
            srt = c.And(increasing(c, a.traj_1.timestamps, n1), increasing(c, a.traj_2.timestamps, n2))
            yield Clause("no_pose_used_twice[%s]" % tag,
                         c.Implies(c.And(cond, srt), c.And(c.forall2(K, lambda x, y: Ls.get(x) < Ls.get(y)),
                                                           c.forall2(K, lambda x, y: Ll.get(x) < Ll.get(y)))),
                         role="prop")
        if old is not None:
            yield Clause("inputs_unchanged", c.And(tm.unchanged(c, a.traj_1, old.t1), tm.unchanged(c, a.traj_2, old.t2)),
                         role="prop", props=["C05", "C16"])
            fresh_ = True
            for r in (r1, r2):
                for t in (a.traj_1, a.traj_2):
                    if r is t or tm.shares_storage(r, t):
                        fresh_ = False
                    for f, v in r.__dict__.items():
                        if f in t.__dict__ and v is t.__dict__[f] and isinstance(v, (sym.SArr, sym.SSeq)):
                            fresh_ = False
            yield Clause("results_are_fresh_objects", fresh_, role="prop", props=["C05", "C16"])
