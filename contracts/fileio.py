"""Sidecar contracts for the trajectory text formats (properties C06, C07): slot wiring of the TUM / KITTI / EuRoC
readers and writers against the *published* conventions, refusal of malformed token matrices, and the format
parameter that makes the text round trip exact.

What is modelled: a data file is a matrix of tokens (csv_read_matrix, assumed contract: the lines that do not start
with the comment string, split at the delimiter); numpy turns it into numbers (trusted: `np.array(rows).astype(float)`
raises ValueError iff the rows are ragged or a token is not a float literal, else applies float() per token).  What
is not modelled: bytes, encodings, float formatting -- those are the bounded stand-in's business."""
import io
import os as _os
import types

import z3

from pyvc import sym, session, npstub
from pyvc.sym import SB, SI
from pyvc.contract import FnContract, Clause, Raises, register
from contracts import trajmodel as tm
from contracts import overwrite as ow

FI = "evo.tools.file_interface."


class TokMat:
    """token matrix of a data file: n rows (symbolic), width of row 0 concrete, possibly ragged / non-numeric"""

    def __init__(self, c, n, width, name="file"):
        self.n, self.width = n, width
        self.ragged = c.bool(name + ".rows_differ_in_width")
        self.non_numeric = c.bool(name + ".has_a_non_numeric_token")
        self.numbers = c.array(name + ".number", n, (width, ))      # float(token) for every token
        self.name = name

    def __bool__(self):
        return bool(self.n > 0)

    def __len__(self):
        raise sym.OutOfReach("len() of the token matrix reached CPython")

    def __pyvc_len__(self):
        return self.n

    def __getitem__(self, k):
        if k == 0:
            return _Row(self.width)
        raise sym.OutOfReach("token matrix row %r" % (k, ))

    def __pyvc_array__(self, dtype=None):
        return _TokArr(self)


class _Row:
    def __init__(self, w):
        self.w = w

    def __len__(self):
        return self.w


class _TokArr:
    def __init__(self, m):
        self.m = m

    def astype(self, t):
        npstub._use("numpy.array(rows).astype(float): ValueError iff ragged or non-numeric, else float() per token")
        m = self.m
        if bool(sym.sor(m.ragged, m.non_numeric)):
            raise ValueError("could not convert string to float")
        return m.numbers


@register
class csv_read_matrix(FnContract):
    """assumed (not verified here): the token matrix of the file; bounded stand-in and pinned tests exercise it"""
    name = FI + "csv_read_matrix"
    props = ["C07", "C06"]

    def args(self, c):
        raise sym.OutOfReach("csv_read_matrix works on text; it is exercised by the bounded stand-in")

    def result(self, c, a):
        g = sym.cur().ghost
        return g["tokmat"]


def _file_case(c, width):
    n = c.int("n_rows")
    c.assume(n >= 0)
    m = TokMat(c, n, width)
    sym.cur().ghost["tokmat"] = m
    return m


class _Reader(FnContract):
    props = ["C07", "C06"]
    widths = (7, 8, 9)
    ok_width = staticmethod(lambda w: w == 8)
    exc_label = "malformed_file_refused"

    def cases(self):
        return [{"width": w} for w in self.widths]

    def args(self, c, width=8):
        ow.world()            # ghost file system present (the readers log only)
        self._m = _file_case(c, width)
        return dict(file_path="/data/traj.txt")

    def _malformed(self, c, a):
        m = sym.cur().ghost["tokmat"]
        return c.Or(m.n == 0, not self.ok_width(m.width), m.ragged, m.non_numeric)

    def __init__(self):
        self.raises = (Raises("FileInterfaceException", self.exc_label, lambda c, a: self._malformed(c, a), role="prop",
                              pre_state=True), )


@register
class read_tum_trajectory_file(_Reader):
    name = FI + "read_tum_trajectory_file"

    def post(self, c, a, res, old=None):
        m = sym.cur().ghost["tokmat"]
        M = m.numbers
        v = tm.views(res)
        n = m.n
        ok = {"timestamps", "_positions_xyz", "_orientations_quat_wxyz"} <= set(v)
        yield Clause("trajectory_with_stamps_positions_quaternions", ok, role="prop")
        if not ok:
            return
        yield Clause("one_pose_per_row_in_file_order", c.And(v["timestamps"][0] == n, v["_positions_xyz"][0] == n,
                                                             v["_orientations_quat_wxyz"][0] == n), role="prop")
        # published convention: timestamp tx ty tz qx qy qz qw
        yield Clause("timestamp_is_column_0", c.forall(n, lambda k: v["timestamps"][1](k) == M.row(k)[0]), role="prop")
        yield Clause("position_is_columns_1_2_3", c.forall(n, lambda k: c.eq(v["_positions_xyz"][1](k), M.row(k)[1:4])), role="prop")
        yield Clause("quaternion_wxyz_is_columns_7_4_5_6", c.forall(n, lambda k: c.And(
            v["_orientations_quat_wxyz"][1](k)[0] == M.row(k)[7], v["_orientations_quat_wxyz"][1](k)[1] == M.row(k)[4],
            v["_orientations_quat_wxyz"][1](k)[2] == M.row(k)[5], v["_orientations_quat_wxyz"][1](k)[3] == M.row(k)[6])), role="prop")


@register
class read_euroc_csv_trajectory(_Reader):
    name = FI + "read_euroc_csv_trajectory"
    widths = (7, 8, 17)
    ok_width = staticmethod(lambda w: w >= 8)

    def post(self, c, a, res, old=None):
        m = sym.cur().ghost["tokmat"]
        M = m.numbers
        v = tm.views(res)
        n = m.n
        ok = {"timestamps", "_positions_xyz", "_orientations_quat_wxyz"} <= set(v)
        yield Clause("trajectory_with_stamps_positions_quaternions", ok, role="prop")
        if not ok:
            return
        yield Clause("one_pose_per_row_in_file_order", c.And(v["timestamps"][0] == n, v["_positions_xyz"][0] == n,
                                                             v["_orientations_quat_wxyz"][0] == n), role="prop")
        # published convention: timestamp[ns], p_x, p_y, p_z, q_w, q_x, q_y, q_z, ...
        yield Clause("timestamp_is_column_0_nanoseconds_to_seconds", c.forall(
            n, lambda k: v["timestamps"][1](k) * 1000000000 == M.row(k)[0]), role="prop")
        yield Clause("position_is_columns_1_2_3", c.forall(n, lambda k: c.eq(v["_positions_xyz"][1](k), M.row(k)[1:4])), role="prop")
        yield Clause("quaternion_wxyz_is_columns_4_5_6_7", c.forall(n, lambda k: c.eq(v["_orientations_quat_wxyz"][1](k),
                                                                                      M.row(k)[4:8])), role="prop")


@register
class read_kitti_poses_file(_Reader):
    name = FI + "read_kitti_poses_file"
    widths = (11, 12, 13)
    ok_width = staticmethod(lambda w: w == 12)

    def post(self, c, a, res, old=None):
        m = sym.cur().ghost["tokmat"]
        M = m.numbers
        v = tm.views(res)
        n = m.n
        ok = "_poses_se3" in v
        yield Clause("path_of_pose_matrices", ok, role="prop")
        if not ok:
            return
        yield Clause("one_pose_per_row_in_file_order", v["_poses_se3"][0] == n, role="prop")

        def pose_ok(k):
            P, r = v["_poses_se3"][1](k), M.row(k)
            conds = [P[i, j] == r[4 * i + j] for i in range(3) for j in range(4)]
            conds += [P[3, 0] == 0, P[3, 1] == 0, P[3, 2] == 0, P[3, 3] == 1]
            return c.And(*conds)
        yield Clause("row_holds_the_12_row-major_entries_of_the_3x4_matrix", c.forall(n, pose_ok), role="prop")


# ---- writers: what reaches numpy.savetxt --------------------------------------------------------------------------
SAVED = []


def _savetxt(target, mat, *a, **kw):
    npstub._use("numpy.savetxt(p, M, delimiter, fmt): line i = the entries of row i formatted with fmt, joined by delimiter")
    ow.world().write(target)
    sym.cur().ghost["savetxt"] = (mat, kw, a)


npstub.np.savetxt = _savetxt


def significant_digits(fmt):
    import re
    m = re.fullmatch(r"%\.(\d+)e", fmt)
    if m:
        return int(m.group(1)) + 1
    m = re.fullmatch(r"%\.(\d+)g", fmt)
    if m:
        return int(m.group(1))
    if fmt in ("%r", "%s"):
        return 17
    return 0          # fixed-point and other formats do not guarantee significant digits


def _format_clauses(c):
    mat, kw, a = sym.cur().ghost.get("savetxt", (None, {}, ()))
    fmt = kw.get("fmt", a[0] if a else "%.18e")
    fmts = [fmt] if isinstance(fmt, str) else (list(fmt) if isinstance(fmt, (list, tuple)) else [None])
    yield Clause("every_value_written_with_at_least_17_significant_digits", all(isinstance(f_, str) and significant_digits(f_) >= 17
                                                                                for f_ in fmts),
                 role="prop", props=["C06"], note="IEEE-754: 17 significant decimal digits identify a double (trusted round-trip axiom)")
    yield Clause("space_separated", kw.get("delimiter", " ") == " ", role="prop", props=["C07"])


class write_tum_rows(FnContract):
    pass


def tum_writer_clauses(c, a):
    """rows handed to savetxt follow `timestamp tx ty tz qx qy qz qw`; values are the trajectory's own"""
    mat, kw, _ = sym.cur().ghost.get("savetxt", (None, {}, ()))
    t = a.traj
    ok = isinstance(mat, sym.SArr) and mat.ndim == 2 and mat.shape[1] == 8
    yield Clause("eight_columns", ok, role="prop", props=["C07", "C06"])
    if ok:
        n = t._n
        ts, xyz, q = t.timestamps, t._positions_xyz, t._orientations_quat_wxyz
        yield Clause("one_row_per_pose_in_order", mat.shape[0] == n, role="prop", props=["C07", "C06"])
        yield Clause("row_is_timestamp_tx_ty_tz_qx_qy_qz_qw", c.forall(n, lambda k: c.And(
            mat.row(k)[0] == ts.row(k), mat.row(k)[1] == xyz.row(k)[0], mat.row(k)[2] == xyz.row(k)[1],
            mat.row(k)[3] == xyz.row(k)[2], mat.row(k)[4] == q.row(k)[1], mat.row(k)[5] == q.row(k)[2],
            mat.row(k)[6] == q.row(k)[3], mat.row(k)[7] == q.row(k)[0])), role="prop", props=["C07", "C06"])
    for cl in _format_clauses(c):
        yield cl


def kitti_writer_clauses(c, a):
    mat, kw, _ = sym.cur().ghost.get("savetxt", (None, {}, ()))
    t = a.traj
    rows = sym.as_seq(mat) if mat is not None else None
    ok = rows is not None
    yield Clause("rows_present", ok, role="prop", props=["C07", "C06"])
    if ok:
        n = t._n
        P = t._poses_se3
        yield Clause("one_row_per_pose_in_order", rows.length() == n, role="prop", props=["C07", "C06"])

        def row_ok(k):
            r, p = rows.get(k), P.get(k)
            return c.And(len(r) == 12, *[r[4 * i + j] == p[i, j] for i in range(3) for j in range(4)])
        yield Clause("row_is_the_12_row-major_entries_of_the_first_three_matrix_rows", c.forall(n, row_ok), role="prop",
                     props=["C07", "C06"])
    for cl in _format_clauses(c):
        yield cl


# extend the writer contracts of C17 with the convention / exactness clauses
_old_tum_post = ow.write_tum_trajectory_file.post
_old_kitti_post = ow.write_kitti_poses_file.post


def _tum_post(self, c, a, res, old=None):
    for cl in _old_tum_post(self, c, a, res, old):
        yield cl
    if not old.n and ow.world().writes():
        for cl in tum_writer_clauses(c, a):
            yield cl


def _kitti_post(self, c, a, res, old=None):
    for cl in _old_kitti_post(self, c, a, res, old):
        yield cl
    if not old.n and ow.world().writes():
        for cl in kitti_writer_clauses(c, a):
            yield cl


ow.write_tum_trajectory_file.post = _tum_post
ow.write_kitti_poses_file.post = _kitti_post
