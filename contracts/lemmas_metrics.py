"""Lemmas over the error definitions of C01 / C02 (code-independent: stated over the spec functions; the code is tied
to these definitions by the postconditions of APE.process_data / RPE.process_data / rpe_base)."""
import numpy as np
import z3

from pyvc import spec, npstub, sym
from pyvc.lemma import lemma
from contracts.metrics import reduce_relation, frob_minus_identity
from contracts.lemmas_lie import assume_SE3

MAT_RELATIONS = ["full_transformation", "rotation_part", "rotation_angle_rad", "rotation_angle_deg", "translation_part"]


def rel(a, b):
    return spec.mul4(spec.inv_se3(a), b)


def affine(l, name):
    """4x4 matrix with arbitrary upper 3x4 block and bottom row (0,0,0,1)"""
    m = l.c.matrix(name, 3, 4)
    return spec.mk([[m[i, j] for j in range(4)] for i in range(3)] + [[0, 0, 0, 1]])


def radicand(E, n):
    s = 0
    for i in range(n):
        for j in range(n):
            d = E[i, j] - (1 if i == j else 0)
            s = s + d * d
    return s


@lemma("ape_zero_when_trajectories_coincide", ["C01"])
def _(l):
    p = l.c.matrix("P", 4, 4)
    assume_SE3(l, p)
    E = rel(p, p)
    l.prove("rel(P,P)==I", l.c.eq(E, spec.eye(4)), role="aux", keep=True)
    I4 = spec.eye(4)
    for r in MAT_RELATIONS:
        l.prove("zero[%s]" % r, reduce_relation(l.c, r, I4) == 0)
    v = l.c.matrix("v", 3)
    l.prove("zero[point_distance]", npstub._norm_c(sym.carr([v[i] - v[i] for i in range(3)])) == 0)


@lemma("relative_pose_invariant_under_common_left_motion", ["C01", "C02", "C04"])
def _(l):
    # holds for every P, Q with bottom row (0,0,0,1): only A has to be a rigid motion
    a, p, q = l.c.matrix("A", 4, 4), affine(l, "P"), affine(l, "Q")
    assume_SE3(l, a)
    l.prove("rel(A*P, A*Q)==rel(P,Q)", l.c.eq(rel(spec.mul4(a, p), spec.mul4(a, q)), rel(p, q)))


@lemma("ape_unchanged_under_common_rigid_motion", ["C01"])
def _(l):
    """matrix relations: E is unchanged (previous lemma) hence every reduction of E; position distance: the difference
    vector is rotated, its norm is unchanged"""
    a = l.c.matrix("A", 4, 4)
    assume_SE3(l, a)
    pe, pr = l.c.matrix("pe", 3), l.c.matrix("pr", 3)
    R = a[:3, :3]
    t = a[:3, 3]
    moved = lambda v: sym.carr([R[i, 0] * v[0] + R[i, 1] * v[1] + R[i, 2] * v[2] + t[i] for i in range(3)])
    me, mr = moved(pe), moved(pr)
    d0 = sym.carr([pe[i] - pr[i] for i in range(3)])
    d1 = sym.carr([me[i] - mr[i] for i in range(3)])
    sq = lambda v: v[0] * v[0] + v[1] * v[1] + v[2] * v[2]
    l.prove("|R d|^2==|d|^2", sq(d1) == sq(d0), role="aux", keep=True)
    n0, n1 = npstub._norm_c(d0), npstub._norm_c(d1)
    npstub.norm3_square(sym._term(n0))
    npstub.norm3_square(sym._term(n1))
    l.prove("distance_of_positions_unchanged", n1 == n0)


@lemma("ape_unchanged_when_reference_and_estimate_are_swapped", ["C01"])
def _(l):
    e, r = l.c.matrix("E", 4, 4), l.c.matrix("R", 4, 4)
    assume_SE3(l, e)
    assume_SE3(l, r)
    E1, E2 = rel(e, r), rel(r, e)
    l.prove("frob(E1-I)^2==frob(E2-I)^2[4]", radicand(E1, 4) == radicand(E2, 4), role="aux", keep=True)
    l.prove("frob(E1-I)^2==frob(E2-I)^2[3]", radicand(E1, 3) == radicand(E2, 3), role="aux", keep=True)
    l.prove("trace_equal", E1[0, 0] + E1[1, 1] + E1[2, 2] == E2[0, 0] + E2[1, 1] + E2[2, 2], role="aux", keep=True)
    # the norms are sqrt of these radicands (same normal form as the code's numpy.linalg.norm)
    r4a, r4b = sym.wrap(z3.simplify(sym._term(radicand(E1, 4)), som=True)), sym.wrap(z3.simplify(sym._term(radicand(E2, 4)), som=True))
    l.prove("normal_forms_equal[4]", r4a == r4b, role="aux", keep=True)
    l.prove("swap[full_transformation]", frob_minus_identity(E1, 4) == frob_minus_identity(E2, 4))
    r3a, r3b = sym.wrap(z3.simplify(sym._term(radicand(E1, 3)), som=True)), sym.wrap(z3.simplify(sym._term(radicand(E2, 3)), som=True))
    l.prove("normal_forms_equal[3]", r3a == r3b, role="aux", keep=True)
    l.prove("swap[rotation_part]", frob_minus_identity(E1, 3) == frob_minus_identity(E2, 3))
    l.prove("swap[rotation_angle]", spec.angle(E1) == spec.angle(E2))
    pe, pr = l.c.matrix("pe", 3), l.c.matrix("pr", 3)
    l.prove("swap[position_distance]", npstub._norm_c(sym.carr([pe[i] - pr[i] for i in range(3)])) ==
            npstub._norm_c(sym.carr([pr[i] - pe[i] for i in range(3)])))


@lemma("rpe_independent_of_separate_rigid_motions", ["C02"])
def _(l):
    a, b = l.c.matrix("A", 4, 4), l.c.matrix("B", 4, 4)
    assume_SE3(l, a)
    assume_SE3(l, b)
    qi, qj, pi_, pj = (affine(l, n) for n in ("Qi", "Qj", "Pi", "Pj"))
    q1, q2 = rel(spec.mul4(a, qi), spec.mul4(a, qj)), rel(qi, qj)
    p1, p2 = rel(spec.mul4(b, pi_), spec.mul4(b, pj)), rel(pi_, pj)
    l.prove("reference_motion_unchanged", l.c.eq(q1, q2), role="aux", keep=True)
    l.prove("estimate_motion_unchanged", l.c.eq(p1, p2), role="aux", keep=True)
    X1, X2, Y1, Y2 = (l.c.matrix(n, 4, 4) for n in ("X1", "X2", "Y1", "Y2"))
    l.assume(l.c.eq(X1, X2))
    l.assume(l.c.eq(Y1, Y2))
    l.prove("error_pose_is_a_function_of_the_relative_motions", l.c.eq(rel(X1, Y1), rel(X2, Y2)))


@lemma("rpe_zero_for_equal_relative_motions", ["C02"])
def _(l):
    d = l.c.matrix("D", 4, 4)
    assume_SE3(l, d)
    l.prove("rel(D,D)==I", l.c.eq(rel(d, d), spec.eye(4)), keep=True, role="aux")
    for r in MAT_RELATIONS:
        l.prove("zero[%s]" % r, reduce_relation(l.c, r, spec.eye(4)) == 0)
