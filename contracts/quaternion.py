"""Sidecar contracts for the quaternion -> rotation-matrix convention (C07, C08): evo/core/transformations.py
quaternion_matrix and evo/core/trajectory.py xyz_quat_wxyz_to_se3_poses."""
import z3

from pyvc import sym, session, spec, npstub
from pyvc.contract import FnContract, Clause, register

TR = "evo.core.transformations."
T = "evo.core.trajectory."
EPS4 = None


def _eps():
    from fractions import Fraction
    return Fraction(4, 2**52)


@register
class quaternion_matrix(FnContract):
    name = TR + "quaternion_matrix"
    props = ["C07", "C08"]

    def args(self, c):
        return dict(quaternion=c.matrix("q", 4))

    def result(self, c, a):
        return c.matrix("qm", 4, 4)

    def post(self, c, a, res):
        q = a.quaternion
        n = q[0] * q[0] + q[1] * q[1] + q[2] * q[2] + q[3] * q[3]
        big = n >= _eps()
        # Hamilton convention with w first: R = qmat(q / |q|), i.e. n * R_ij = n * delta_ij + (qmat(q) - I)_ij
        Q = spec.qmat(q)
        conds = []
        for i in range(3):
            for j in range(3):
                d = 1 if i == j else 0
                conds.append(n * res[i, j] == n * d + (Q[i, j] - d))
        yield Clause("rotation_block_is_the_Hamilton_matrix_of_the_normalised_quaternion_w_x_y_z", c.Implies(big, c.And(*conds)),
                     role="prop")
        yield Clause("homogeneous_frame", c.And(res[3, 3] == 1, res[3, 0] == 0, res[3, 1] == 0, res[3, 2] == 0, res[0, 3] == 0,
                                               res[1, 3] == 0, res[2, 3] == 0), role="prop")
        yield Clause("identity_for_a_vanishing_quaternion", c.Implies(c.Not(big), c.eq(res, spec.eye(4))), role="aux")


@register
class xyz_quat_wxyz_to_se3_poses(FnContract):
    name = T + "xyz_quat_wxyz_to_se3_poses"
    props = ["C07", "C08"]

    def args(self, c):
        n = c.int("n")
        c.assume(n >= 0)
        return dict(xyz=c.array("xyz", n, (3, )), quat=c.array("quat", n, (4, )))

    def post(self, c, a, res):
        n = a.xyz.shape[0]
        P = sym.as_seq(res)
        yield Clause("one_pose_per_row_in_order", P.length() == n, role="prop")

        def ok(k):
            p, q, t = P.get(k), a.quat.row(k), a.xyz.row(k)
            nn = q[0] * q[0] + q[1] * q[1] + q[2] * q[2] + q[3] * q[3]
            Q = spec.qmat(q)
            conds = [p[i, 3] == t[i] for i in range(3)] + [p[3, 0] == 0, p[3, 1] == 0, p[3, 2] == 0, p[3, 3] == 1]
            rot = []
            for i in range(3):
                for j in range(3):
                    d = 1 if i == j else 0
                    rot.append(nn * p[i, j] == nn * d + (Q[i, j] - d))
            return c.And(c.And(*conds), c.Implies(nn >= _eps(), c.And(*rot)))
        yield Clause("pose_k_is_the_rotation_of_quaternion_k_(w_first)_and_position_k", c.forall(n, ok), role="prop")


# ---- load_transform_json (C07): x, y, z, qx, qy, qz, qw (+ scale) -> Sim(3) matrix ---------------------------------
from contracts import filters as _flt      # noqa: E402
from pyvc.contract import Raises            # noqa: E402
import json as _json                        # noqa: E402

if not getattr(quaternion_matrix, "_remembered", False):
    quaternion_matrix.result = _flt._remember(quaternion_matrix.name)(quaternion_matrix.result)
    quaternion_matrix._remembered = True


class GhostJsonFile:
    """an open JSON file whose parsed content is `doc` (values may be symbolic)"""

    def __init__(self, doc):
        self.doc = doc

    def read(self, *a):
        return self


class JsonModule:
    @staticmethod
    def load(f, *a, **kw):
        if isinstance(f, GhostJsonFile):
            return dict(f.doc)
        return _json.load(f, *a, **kw)

    @staticmethod
    def loads(s, *a, **kw):
        if isinstance(s, GhostJsonFile):
            return dict(s.doc)
        return _json.loads(s, *a, **kw)

    def __getattr__(self, a):
        return getattr(_json, a)


JSON = JsonModule()


@register
class load_transform_json(FnContract):
    name = "evo.tools.file_interface.load_transform_json"
    props = ["C07"]

    def cases(self):
        return [{"scale": True, "missing": None}, {"scale": False, "missing": None}, {"scale": True, "missing": "qw"},
                {"scale": False, "missing": "x"}]

    def args(self, c, scale=True, missing=None):
        doc = {k: c.real("json_" + k) for k in ("x", "y", "z", "qx", "qy", "qz", "qw")}
        if scale:
            doc["scale"] = c.real("json_scale")
        if missing:
            del doc[missing]
        self._doc = doc
        return dict(json_path=GhostJsonFile(doc))

    raises = (Raises("FileInterfaceException", "missing_key_refused", lambda c, a: not all(
        k in a.json_path.doc for k in ("x", "y", "z", "qx", "qy", "qz", "qw")), role="prop", pre_state=True), )

    def post(self, c, a, res, old=None):
        doc = a.json_path.doc
        g = sym.cur().ghost.get("result:" + quaternion_matrix.name)
        ok = g is not None
        yield Clause("rotation_from_the_quaternion", ok, role="prop")
        if not ok:
            return
        QM, qa = g
        q = qa.quaternion
        yield Clause("quaternion_taken_as_qw_qx_qy_qz", c.And(q[0] == doc["qw"], q[1] == doc["qx"], q[2] == doc["qy"], q[3] == doc["qz"]),
                     role="prop")
        s = doc.get("scale", 1)
        yield Clause("rotation_block_is_scale_times_the_quaternion's_rotation_(scale_1_when_absent)", c.And(*[
            res[i, j] == s * QM[i, j] for i in range(3) for j in range(3)]), role="prop")
        yield Clause("translation_is_x_y_z", c.And(res[0, 3] == doc["x"], res[1, 3] == doc["y"], res[2, 3] == doc["z"]), role="prop")
        yield Clause("homogeneous_bottom_row", c.And(res[3, 0] == 0, res[3, 1] == 0, res[3, 2] == 0, res[3, 3] == 1), role="prop")
