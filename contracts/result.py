"""Sidecar contract for evo/core/result.py: merge_results (properties C13, C16)."""
import types

import numpy as np
import z3

from pyvc import sym, session
from pyvc.contract import FnContract, Clause, Raises, register

M = "evo.core.result."


def mk_result(c, name, stat_keys, arr_keys, sizes=None):
    R = session.loader().load("evo.core.result").Result
    r = R()
    r.info = {"title": "T_" + name, "est_name": name}
    for k in stat_keys:
        r.stats[k] = c.real("%s_stat_%s" % (name, k))
    for k in arr_keys:
        n = sizes[k] if sizes and k in sizes else c.int("%s_len_%s" % (name, k))
        if sym.is_sym(n):
            c.assume(n >= 0)
        r.np_arrays[k] = c.array("%s_arr_%s" % (name, k), n)
    return r


@register
class merge_results(FnContract):
    name = M + "merge_results"
    props = ["C13"]

    def cases(self):
        out = [{"n": 1, "order": "same", "keys": "equal"}]
        for n in (2, 3):
            for order in ("same", "permuted"):
                out.append({"n": n, "order": order, "keys": "equal"})
        out.append({"n": 2, "order": "same", "keys": "stats_differ"})
        out.append({"n": 2, "order": "same", "keys": "arrays_differ"})
        out.append({"n": 2, "order": "same", "keys": "stats_superset_later"})
        out.append({"n": 3, "order": "same", "keys": "arrays_superset_later"})
        out.append({"n": 0, "order": "same", "keys": "equal"})
        return out

    def args(self, c, n=2, order="same", keys="equal"):
        rs = []
        for i in range(n):
            sk, ak = ["rmse", "mean"], ["error_array", "timestamps"]
            if order == "permuted" and i % 2 == 1:
                sk, ak = sk[::-1], ak[::-1]
            if keys == "stats_differ" and i == 1:
                sk = ["rmse", "max"]
            if keys == "arrays_differ" and i == 1:
                ak = ["error_array"]
            if keys == "stats_superset_later" and i == 1:
                sk = ["rmse", "mean", "max"]          # a later result has one more statistic than the first
            if keys == "arrays_superset_later" and i == 2:
                ak = ["error_array", "timestamps", "distances"]
            rs.append(mk_result(c, "r%d" % i, sk, ak))
        return dict(results=rs)

    def snapshot(self, c, a):
        return types.SimpleNamespace(
            stats=[dict(r.stats) for r in a.results], arrs=[{k: (v, v._cell[0], v.shape[0]) for k, v in r.np_arrays.items()}
                                                            for r in a.results],
            info=[dict(r.info) for r in a.results], objs=[(r.stats, r.np_arrays, r.info) for r in a.results])

    raises = (Raises("ValueError", "nothing_to_merge", lambda c, a: len(a.results) == 0, role="prop", pre_state=True),
              Raises("ResultException", "non_matching_keys", lambda c, a: len(a.results) >= 2 and any(
                  set(x.stats) != set(y.stats) or set(x.np_arrays) != set(y.np_arrays)
                  for x, y in zip(a.results, a.results[1:])), role="prop", pre_state=True))

    def post(self, c, a, res, old=None):
        rs = a.results
        N = len(rs)
        if N == 1:
            yield Clause("single_result_returned_unchanged", res is rs[0], role="prop")
            return
        yield Clause("statistics_are_arithmetic_means", c.And(*[c.eq(res.stats[k], sum((o[k] for o in old.stats), 0) / N)
                                                                for k in old.stats[0]]) and set(res.stats) == set(old.stats[0]),
                     role="prop")
        all_equal = c.And(*[old.arrs[i][k][2] == old.arrs[0][k][2] for i in range(1, N) for k in old.arrs[0]])
        avg, app = [], []
        for k in old.arrs[0]:
            arr = res.np_arrays[k]
            n0 = old.arrs[0][k][2]
            avg.append(c.And(c.len(arr) == n0, c.forall(n0, lambda q, k=k, arr=arr: c.eq(
                arr.row(q), sum((old.arrs[i][k][1](q) for i in range(N)), 0) / N))))
            total = sum((old.arrs[i][k][2] for i in range(N)), 0)

            def concat(q, k=k):
                offs, off = [], 0
                for i in range(N):
                    offs.append(off)
                    off = off + old.arrs[i][k][2]
                r = old.arrs[N - 1][k][1](q - offs[N - 1])
                for i in range(N - 2, -1, -1):
                    r = sym.ite_any(q < offs[i] + old.arrs[i][k][2], old.arrs[i][k][1](q - offs[i]), r)
                return r
            app.append(c.And(c.len(arr) == total, c.forall(total, lambda q, arr=arr, concat=concat: c.eq(arr.row(q), concat(q)))))
        yield Clause("arrays_element-wise_mean_when_all_lengths_agree", c.Implies(all_equal, c.And(*avg)), role="prop")
        yield Clause("arrays_concatenated_in_input_order_otherwise", c.Implies(c.Not(all_equal), c.And(*app)), role="prop")
        yield Clause("info_of_the_first_result_kept", res.info == old.info[0], role="prop")
        unchanged = []
        for i, r in enumerate(rs):
            unchanged.append(r.stats is old.objs[i][0] and r.np_arrays is old.objs[i][1] and r.info is old.objs[i][2])
            unchanged.append(dict(r.info) == old.info[i] and set(r.stats) == set(old.stats[i]))
            unchanged += [r.stats[k] is old.stats[i][k] for k in old.stats[i]]
            unchanged += [r.np_arrays[k] is old.arrs[i][k][0] and r.np_arrays[k]._cell[0] is old.arrs[i][k][1]
                          for k in old.arrs[i]]
        yield Clause("no_input_result_is_modified", all(unchanged), role="prop", props=["C13", "C16"])
        yield Clause("merged_result_is_a_new_object", res is not rs[0] and res.np_arrays is not rs[0].np_arrays and
                     res.stats is not rs[0].stats, role="prop", props=["C13", "C16"])
