"""Sidecar contract for evo/main_traj.py run(): property C15 (evo_traj applies its options in the documented order).

The effect of each processing step is the business of that step's own contract (C05, C08, C04, C11, C14).  What C15
adds is the *wiring*: which steps are applied to which trajectory, in which order, with which arguments, and what is
exported.  run() is executed symbolically with the trajectory operations replaced by recording stand-ins (every
operation appends (object, operation, arguments) to an event log and has no other effect); the loaded transformation
is a symbolic matrix, and the inverse passed on must be the result of the inverse function selected by the membership
test (se3_inverse / sim3_inverse are verified to be the true inverses in C09)."""
import argparse
import types

import z3

from pyvc import sym, session
from pyvc.contract import FnContract, Clause, register
from contracts import overwrite as ow

M = "evo.main_traj."


class Obj:
    """a trajectory as far as run() is concerned"""

    def __init__(self, name, log, stamped=True):
        self.name, self.log, self.stamped = name, log, stamped
        self.meta = {}
        self.timestamps = _Stamps(self)
        self.num_poses = 10

    def _ev(self, op, *a, **kw):
        self.log.append((self.name, op, a, tuple(sorted(kw.items()))))

    def downsample(self, n):
        self._ev("downsample", n)

    def motion_filter(self, d, a, deg=False):
        self._ev("motion_filter", d, a, deg)

    def align(self, ref, correct_scale=False, correct_only_scale=False, n=-1):
        self._ev("align", ref.name, correct_scale, correct_only_scale, n)

    def align_origin(self, ref):
        self._ev("align_origin", ref.name)

    def transform(self, t, right_mul=False, propagate=False):
        self._ev("transform", t, bool(right_mul), bool(propagate))

    def project(self, plane):
        self._ev("project", plane.value)

    def get_infos(self):
        return {}

    def __str__(self):
        return self.name


class _Stamps:
    def __init__(self, o):
        self.o = o

    def __iadd__(self, x):
        self.o._ev("t_offset", x)
        return self


class _Spy:
    """recording stand-ins for the module-level functions run() calls"""

    def __init__(self, log, ref, trajs, T):
        self.log, self.ref, self.trajs, self.T = log, ref, trajs, T

    def load_trajectories(self, args):
        return dict(self.trajs), self.ref

    def associate(self, ref, traj, max_diff=0.01, offset_2=0.0, first_name="", snd_name=""):
        self.log.append((traj.name, "associate", (ref.name, max_diff), ()))
        r2, t2 = Obj(ref.name + "~" + traj.name, self.log), Obj(traj.name + "'", self.log)
        return r2, t2

    def merge(self, ts):
        ts = list(ts)
        self.log.append(("merged", "merge", tuple(t.name for t in ts), ()))
        return Obj("merged", self.log)

    def load_transform(self, path):
        self.log.append(("*", "load_transform", (path, ), ()))
        return self.T

    def write(self, kind):
        def w(dest, traj, confirm_overwrite=False):
            self.log.append((traj.name, "export_" + kind, (dest, ), ()))
        return w


def base_args(**kw):
    d = dict(subcommand="tum", traj_files=["a.tum", "b.tum"], ref="ref.tum", verbose=False, silent=True, debug=False, logfile=None,
             downsample=None, motion_filter=None, merge=False, t_offset=0.0, n_to_align=-1, sync=False, align=False,
             correct_scale=False, align_origin=False, t_max_diff=0.01, transform_left=None, transform_right=None,
             invert_transform=False, propagate_transform=False, project_to_plane=None, full_check=False, plot=False,
             save_plot=None, serialize_plot=None, save_as_tum=True, save_as_kitti=False, save_as_bag=False, save_as_bag2=False,
             save_table=None, no_warnings=True, show_full_names=False, plot_mode="xyz", ros_map_yaml=None, map_tile=None,
             config=None)
    d.update(kw)
    return argparse.Namespace(**d)


CASES = {
    "nothing": {},
    "downsample_filter": dict(downsample=50, motion_filter=[0.1, 5.0]),
    "offset_sync": dict(t_offset=0.5, sync=True),
    "align_full": dict(downsample=20, motion_filter=[0.2, 3.0], t_offset=-0.25, align=True, correct_scale=True, n_to_align=7,
                       transform_left="T.npy", project_to_plane="xy", save_as_kitti=True),
    "scale_only": dict(correct_scale=True),
    "origin": dict(align_origin=True, transform_right="T.json", propagate_transform=True),
    "align_and_origin": dict(align=True, align_origin=True, project_to_plane="xz"),
    "transform_left_inverted_se3": dict(transform_left="T.txt", invert_transform=True, _T="se3"),
    "transform_left_inverted_sim3": dict(transform_left="T.txt", invert_transform=True, _T="sim3"),
    "transform_right_inverted_sim3": dict(transform_right="T.txt", invert_transform=True, propagate_transform=True, _T="sim3"),
    "merge": dict(merge=True, downsample=30, ref=None, save_as_tum=True),
    "merge_then_align": dict(merge=True, t_offset=1.5, align=True, project_to_plane="yz"),
    "no_ref_projection": dict(ref=None, project_to_plane="xy", transform_left="T.npy"),
}


from contracts import filters as _flt    # noqa: E402
from contracts import lie_algebra as _la  # noqa: E402
for _cls in (_la.se3_inverse, _la.sim3_inverse, _la.is_se3):
    if not getattr(_cls, "_remembered", False):
        _cls.result = _flt._remember(_cls.name)(_cls.result)
        _cls._remembered = True


@register
class run(FnContract):
    name = M + "run"
    props = ["C15"]

    def cases(self):
        return [{"case": k} for k in CASES]

    def args(self, c, case="nothing"):
        from contracts import lie_algebra as la
        L = session.loader()
        mt = L.load("evo.main_traj")
        kw = dict(CASES[case])
        kind = kw.pop("_T", "se3")
        ow.world()
        log = []
        sym.cur().ghost["c15_log"] = log
        ref = Obj("ref", log) if kw.get("ref", "ref.tum") else None
        trajs = {"a.tum": Obj("a", log), "b.tum": Obj("b", log)}
        from contracts.trajectory import se3_T
        T = se3_T(c) if kind == "se3" else c.matrix("T", 4, 4)
        if kind != "se3":
            from pyvc import npstub as _nps
            c.assume(_nps.det(T[:3, :3]) != 0)      # load_transform only returns valid Sim(3) matrices (C07)
        spy = _Spy(log, ref, trajs, T)
        sym.cur().ghost["c15_T"] = T
        # recording stand-ins (module attributes of the symbolically loaded modules of this loader)
        mt.load_trajectories = spy.load_trajectories
        mt.print_traj_info = lambda *a, **k: None
        fi = L.load("evo.tools.file_interface")
        fi.load_transform = spy.load_transform
        fi.write_tum_trajectory_file = spy.write("tum")
        fi.write_kitti_poses_file = spy.write("kitti")
        sy = L.load("evo.core.sync")
        sy.associate_trajectories = spy.associate
        tr = L.load("evo.core.trajectory")
        tr.merge = spy.merge
        self._kw, self._kind = kw, kind
        return dict(args=base_args(**kw))

    def post(self, c, a, res, old=None):
        g = sym.cur().ghost
        log, T = g["c15_log"], g["c15_T"]
        A = a.args
        merged = bool(A.merge)
        names = ["merged"] if merged else ["a", "b"]
        has_ref = A.ref is not None
        synced = any((A.sync, A.align, A.correct_scale, A.align_origin))

        def ops_of(name_prefixes):
            return [(n, op, ar, kw) for (n, op, ar, kw) in log if n in name_prefixes]

        def expected_for(nm, is_ref=False):
            """the documented order for one trajectory"""
            ev = []
            if not (merged and not is_ref):
                pass
            if A.downsample:
                ev.append(("downsample", (A.downsample, )))
            if A.motion_filter:
                ev.append(("motion_filter", (A.motion_filter[0], A.motion_filter[1], True)))
            return ev
        # 1. down-sampling and motion filtering reach every loaded trajectory and the reference, before anything else
        for nm in ["a", "b"] + (["ref"] if has_ref else []):
            got = [(op, ar) for (n, op, ar, kw) in log if n == nm][:len(expected_for(nm))]
            yield Clause("downsampled_then_motion_filtered_first[%s]" % nm, got == expected_for(nm), role="prop")
        # 2. the reference itself is only down-sampled, filtered and projected
        if has_ref:
            ref_ops = [op for (n, op, ar, kw) in log if n == "ref"]
            exp = [e[0] for e in expected_for("ref", True)] + (["project"] if A.project_to_plane else []) + (
                ["export_tum"] if A.save_as_tum else []) + (["export_kitti"] if A.save_as_kitti else [])
            yield Clause("reference_only_downsampled_filtered_projected_exported", ref_ops == exp, role="prop")
        # 3. per (possibly merged / associated) trajectory: merge -> t_offset -> associate -> align -> align_origin ->
        #    transform -> project -> export
        for nm in names:
            chain = [(n, op, ar) for (n, op, ar, kw) in log if n in (nm, nm + "'") and op not in ("downsample", "motion_filter")]
            exp = []
            if merged:
                exp.append((nm, "merge", ("a", "b")))
            if A.t_offset:
                exp.append((nm, "t_offset", (A.t_offset, )))
            cur_nm = nm
            if synced:
                exp.append((nm, "associate", ("ref", A.t_max_diff)))
                cur_nm = nm + "'"
                if A.align or A.correct_scale:
                    exp.append((cur_nm, "align", ("ref~" + nm, bool(A.correct_scale), bool(A.correct_scale and not A.align),
                                                 A.n_to_align)))
                if A.align_origin:
                    exp.append((cur_nm, "align_origin", ("ref~" + nm, )))
            tf = [e for e in chain if e[1] == "transform"]
            chain_wo_tf = [e for e in chain if e[1] != "transform"]
            pos_tf = [i for i, e in enumerate(chain) if e[1] == "transform"]
            if A.project_to_plane:
                exp.append((cur_nm, "project", (A.project_to_plane, )))
            stem = "merged_trajectory" if merged else nm
            if A.save_as_tum:
                exp.append((cur_nm, "export_tum", (stem + ".tum", )))
            if A.save_as_kitti:
                exp.append((cur_nm, "export_kitti", (stem + ".kitti", )))
            yield Clause("documented_order_of_the_processing_steps[%s]" % nm, chain_wo_tf == exp, role="prop",
                         note="got %s" % [e[1] for e in chain])
            want_tf = bool(A.transform_left or A.transform_right)
            yield Clause("transformation_applied_exactly_when_requested[%s]" % nm, len(tf) == (1 if want_tf else 0), role="prop")
            if want_tf and len(tf) == 1:
                after = [e[1] for e in chain[pos_tf[0] + 1:]]
                before = [e[1] for e in chain[:pos_tf[0]]]
                yield Clause("transformation_after_alignment_before_projection[%s]" % nm,
                             not ({"align", "align_origin", "associate", "t_offset", "merge"} & set(after)) and
                             not ({"project", "export_tum", "export_kitti"} & set(before)), role="prop")
                mat, rm, prop = tf[0][2]
                yield Clause("left_or_right_multiplication_as_requested[%s]" % nm, rm == bool(A.transform_right) and
                             prop == bool(A.propagate_transform), role="prop")
                if A.invert_transform:
                    r_se3 = g.get("result:evo.core.lie_algebra.se3_inverse")
                    r_sim3 = g.get("result:evo.core.lie_algebra.sim3_inverse")
                    mem = g.get("result:evo.core.lie_algebra.is_se3")
                    chosen_se3 = r_se3 is not None and mat is r_se3[0] and r_se3[1].p is T
                    chosen_sim3 = r_sim3 is not None and mat is r_sim3[0] and r_sim3[1].a is T
                    accepted = True if self._kind == "se3" else (mem[0] if (mem is not None and mem[1].p is T) else False)
                    yield Clause("inverted_transformation_is_the_inverse_of_the_loaded_matrix[%s]" % nm,
                                 c.Or(chosen_sim3, c.And(chosen_se3, accepted)),
                                 role="prop", note="sim3_inverse(T) is the inverse on Sim(3) and SE(3); se3_inverse(T) only on SE(3) "
                                                   "(C09): it may be used only when T is a rigid-body matrix")
                else:
                    yield Clause("loaded_transformation_passed_on_unchanged[%s]" % nm, mat is T, role="prop")
