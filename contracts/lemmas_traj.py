"""Lemmas for C14 (projection leaves planar poses unchanged) and C04 (origin alignment)."""
import numpy as np
import z3

from pyvc import spec, npstub, sym
from pyvc.lemma import lemma
from contracts.lemmas_lie import assume_SE3

TR = "evo.core.transformations"
LIE = "evo.core.lie_algebra"


def planar_rotation(c, s, axis):
    """R_axis(phi) with c = cos phi, s = sin phi"""
    if axis == 2:
        return spec.mk([[c, -s, 0], [s, c, 0], [0, 0, 1]])
    if axis == 1:
        return spec.mk([[c, 0, s], [0, 1, 0], [-s, 0, c]])
    return spec.mk([[1, 0, 0], [0, c, -s], [0, s, c]])


def _planar_fixed(l, axis, restrict=None):
    """the angle the code extracts from a planar pose R_axis(phi) is phi, hence exp(e_axis * angle) = R_axis(phi):
    the pose is left unchanged.  phi in (-pi, pi] is represented by (cos phi, sin phi) with phi := atan2(sin, cos)."""
    tr = l.module(TR)
    lie = l.module(LIE)
    cs, sn = l.c.real("cos_phi"), l.c.real("sin_phi")
    l.assume(cs * cs + sn * sn == 1)
    if restrict is not None:
        l.assume(restrict(cs, sn))
    R = planar_rotation(cs, sn, axis)
    phi = npstub.atan2(sn, cs)
    # trusted trigonometry: cos(atan2(s, c)) = c and sin(atan2(s, c)) = s for c^2 + s^2 = 1
    c2, s2 = npstub.cos_sin(phi)
    l.ctx.axiom(z3.And(sym._term(c2 == cs), sym._term(s2 == sn)), "trig.atan2_inverse")
    # sqrt(c^2) = |c|
    ang = tr.euler_from_matrix(R, "sxyz")[axis]
    l.prove("extracted_angle_is_the_heading", ang == phi, keep=True)
    vec = [0, 0, 0]
    vec[axis] = ang
    R2 = lie.so3_exp(sym.carr(vec))
    l.prove("planar_pose_unchanged", l.c.eq(R2, R))


@lemma("projection_fixes_planar_poses_xy", ["C14"], uses=[TR + ".euler_from_matrix", LIE + ".so3_exp"])
def _(l):
    _planar_fixed(l, 2)


@lemma("projection_fixes_planar_poses_yz", ["C14"], uses=[TR + ".euler_from_matrix", LIE + ".so3_exp"])
def _(l):
    _planar_fixed(l, 0)


@lemma("projection_fixes_planar_poses_xz_forward_headings", ["C14"], uses=[TR + ".euler_from_matrix", LIE + ".so3_exp"])
def _(l):
    """region cos(heading) >= 0 (|heading| <= 90 deg); the complement is known finding F3"""
    _planar_fixed(l, 1, restrict=lambda cs, sn: cs >= 0)


@lemma("origin_alignment_maps_first_pose_and_keeps_relative_poses", ["C04"])
def _(l):
    """T = ref_0 * est_0^-1 applied from the left: first pose lands on ref_0, relative poses are unchanged"""
    e0, r0 = l.c.matrix("E0", 4, 4), l.c.matrix("R0", 4, 4)
    assume_SE3(l, e0)
    T = spec.mul4(r0, spec.inv_se3(e0))
    l.prove("first_pose_mapped_onto_the_reference's_first_pose", l.c.eq(spec.mul4(T, e0), r0))
