"""Sidecar contracts for evo/core/lie_algebra.py (properties C09, C01, C02, C04, C08)."""
from fractions import Fraction

import numpy as np

from pyvc import spec, npstub, sym
from pyvc.contract import FnContract, Clause, Raises, register

M = "evo.core.lie_algebra."
ATOL = Fraction(1, 10**6)
RTOL = Fraction(1, 10**5)


def close(c, x, y):
    """numpy.allclose element contract with evo's atol=1e-6 (and numpy's default rtol=1e-5)"""
    return c.abs(x - y) <= ATOL + RTOL * c.abs(y)


def so3_accept(c, r):
    """the acceptance predicate of is_so3 as stated by the property: determinant and orthogonality within 1e-6
    (numpy.allclose semantics)"""
    conds = [close(c, npstub.det(r), 1)]
    rtr = np.dot(np.asarray(r).T, np.asarray(r))
    for i in range(3):
        for j in range(3):
            conds.append(close(c, rtr[i, j], 1 if i == j else 0))
    return c.And(*conds)


def bottom_ok(c, p):
    return c.And(p[3, 0] == 0, p[3, 1] == 0, p[3, 2] == 0, p[3, 3] == 1)


@register
class hat(FnContract):
    name = M + "hat"
    props = ["C09"]

    def args(self, c):
        return dict(v=c.matrix("v", 3))

    def result(self, c, a):
        return c.matrix("hat", 3, 3)

    def post(self, c, a, res):
        v = a.v
        yield Clause("skew_of_v", c.eq(res, spec.mk([[0, -v[2], v[1]], [v[2], 0, -v[0]], [-v[1], v[0], 0]])),
                     role="aux")


@register
class vee(FnContract):
    name = M + "vee"
    props = ["C09"]

    def args(self, c):
        return dict(m=c.matrix("m", 3, 3))

    def result(self, c, a):
        return c.matrix("vee", 3)

    def post(self, c, a, res):
        m = a.m
        yield Clause("vector_of_skew", c.eq(res, spec.mk([-m[1, 2], m[0, 2], -m[0, 1]])), role="aux")


@register
class se3(FnContract):
    name = M + "se3"
    props = ["C09"]
    inline = True


@register
class sim3(FnContract):
    name = M + "sim3"
    props = ["C09"]
    inline = True


@register
class so3_from_se3(FnContract):
    name = M + "so3_from_se3"
    props = ["C09"]
    inline = True


@register
class se3_inverse(FnContract):
    name = M + "se3_inverse"
    props = ["C09", "C01", "C02", "C04", "C15"]

    def args(self, c):
        return dict(p=c.matrix("p", 4, 4))

    def result(self, c, a):
        return c.matrix("se3inv", 4, 4)

    def post(self, c, a, res):
        yield Clause("formula", c.eq(res, spec.inv_se3(a.p)), role="aux",
                     note="[R t;0 1] -> [R^T -R^T t;0 1]; the group inverse on SE(3) by lemma G2")
        se3 = c.And(*spec.is_SE3_exact(a.p, c.eq))
        yield Clause("P*inv(P)==I_on_SE3", c.Implies(se3, c.eq(spec.mul4(a.p, res), spec.eye(4))), role="prop")
        yield Clause("inv(P)*P==I_on_SE3", c.Implies(se3, c.eq(spec.mul4(res, a.p), spec.eye(4))), role="prop")


@register
class relative_se3(FnContract):
    name = M + "relative_se3"
    props = ["C09", "C01", "C02"]

    def args(self, c):
        return dict(p1=c.matrix("p1", 4, 4), p2=c.matrix("p2", 4, 4))

    def result(self, c, a):
        return c.matrix("rel", 4, 4)

    def post(self, c, a, res):
        yield Clause("is_inverse_times", c.eq(res, spec.mul4(spec.inv_se3(a.p1), a.p2)), role="aux",
                     note="rel(A,B) = A^-1 * B with A^-1 = [R^T -R^T t; 0 1]")
        se3 = c.And(*spec.is_SE3_exact(a.p1, c.eq))
        yield Clause("A*rel(A,B)==B_on_SE3", c.Implies(se3, c.eq(spec.mul4(a.p1, res), a.p2)), role="prop",
                     note="rel(A,B) = A^-1 * B")
        both = c.And(*(spec.is_SE3_exact(a.p1, c.eq) + spec.is_SE3_exact(a.p2, c.eq)))
        rot = res[:3, :3]
        yield Clause("rotation_block_is_a_rotation_for_SE3_inputs",
                     c.Implies(both, c.And(*[cond for _, cond in self._accept_steps(c, rot)])), role="aux")
        yield Clause("rotation_block_accepted_for_SE3_inputs", c.Implies(both, so3_accept(c, rot)), role="aux")
        yield Clause("result_in_SE3_for_SE3_inputs", c.Implies(both, c.And(*spec.is_SE3_exact(res, c.eq))), role="aux",
                     note="SE(3) is closed under A^-1 * B")
        yield Clause("bottom_row_for_SE3_inputs", c.Implies(both, c.And(c.eq(res[3, 0], 0), c.eq(res[3, 1], 0),
                                                                        c.eq(res[3, 2], 0), c.eq(res[3, 3], 1))), role="aux")

    def _accept_steps(self, c, rot):
        rtr = np.dot(np.asarray(rot).T, np.asarray(rot))
        for i in range(3):
            for j in range(3):
                yield "RtR_%d%d" % (i, j), c.eq(rtr[i, j], 1 if i == j else 0)
        yield "det", c.eq(npstub.det(rot), 1)

    def hints(self, c, a, res):
        both = c.And(*(spec.is_SE3_exact(a.p1, c.eq) + spec.is_SE3_exact(a.p2, c.eq)))
        for lab, cond in self._accept_steps(c, res[:3, :3]):
            yield lab, c.Implies(both, cond)
        for i, cond in enumerate(spec.is_SE3_exact(res, c.eq)):
            yield "result_in_SE3_%d" % i, c.Implies(both, cond)


@register
class relative_so3(FnContract):
    name = M + "relative_so3"
    props = ["C09", "C10", "C11"]

    def args(self, c):
        return dict(r1=c.matrix("r1", 3, 3), r2=c.matrix("r2", 3, 3))

    def result(self, c, a):
        return c.matrix("relso3", 3, 3)

    def _accept_steps(self, c, res):
        rtr = np.dot(np.asarray(res).T, np.asarray(res))
        for i in range(3):
            for j in range(3):
                yield "RtR_%d%d" % (i, j), c.eq(rtr[i, j], 1 if i == j else 0)
        yield "det", c.eq(npstub.det(res), 1)

    def hints(self, c, a, res):
        so3 = c.And(*(spec.is_SO3_exact(a.r1, c.eq) + spec.is_SO3_exact(a.r2, c.eq)))
        for lab, cond in self._accept_steps(c, res):
            yield lab, c.Implies(so3, cond)

    def post(self, c, a, res):
        yield Clause("is_transpose_times", c.eq(res, spec.mul3(np.asarray(a.r1).T, a.r2)), role="prop")
        so3 = c.And(*(spec.is_SO3_exact(a.r1, c.eq) + spec.is_SO3_exact(a.r2, c.eq)))
        yield Clause("rotation_for_rotations", c.Implies(so3, c.And(*[cond for _, cond in self._accept_steps(c, res)])),
                     role="aux", note="R1, R2 in SO(3) => R1^T R2 in SO(3)")
        yield Clause("accepted_for_rotations", c.Implies(so3, so3_accept(c, res)), role="aux",
                     note="... hence accepted by is_so3 / so3_log_angle")


@register
class sim3_scale(FnContract):
    name = M + "sim3_scale"
    props = ["C09"]

    def args(self, c):
        return dict(a=c.matrix("a", 4, 4))

    def result(self, c, a):
        return c.real("scale")

    def post(self, c, a, res):
        yield Clause("cube_root_of_det", res == sym.scbrt(npstub.det(a.a[:3, :3])), role="aux",
                     note="cbrt = trusted meaning of numpy.power(x, 1/3)")


@register
class sim3_inverse(FnContract):
    name = M + "sim3_inverse"
    props = ["C09", "C15"]

    def args(self, c):
        return dict(a=c.matrix("a", 4, 4))

    def pre(self, c, a):
        yield ("det_nonzero", npstub.det(a.a[:3, :3]) != 0)

    def result(self, c, a):
        return c.matrix("sim3inv", 4, 4)

    def post(self, c, a, res):
        # with s = cbrt(det(a[:3,:3])):  result = [ (1/s) (a_rot/s)^T , -(a_rot/s)^T (t/s) ; 0 1 ]
        s = sym.scbrt(npstub.det(a.a[:3, :3]))
        A = a.a
        rt = [[A[j, i] / s for j in range(3)] for i in range(3)]
        t = [-(rt[i][0] * (A[0, 3] / s) + rt[i][1] * (A[1, 3] / s) + rt[i][2] * (A[2, 3] / s)) for i in range(3)]
        exp = spec.mk([[rt[0][0] / s, rt[0][1] / s, rt[0][2] / s, t[0]],
                       [rt[1][0] / s, rt[1][1] / s, rt[1][2] / s, t[1]],
                       [rt[2][0] / s, rt[2][1] / s, rt[2][2] / s, t[2]], [0, 0, 0, 1]])
        yield Clause("formula", c.eq(res, exp), role="aux")


@register
class is_so3(FnContract):
    name = M + "is_so3"
    props = ["C09", "C08", "C14"]

    def args(self, c):
        return dict(r=c.matrix("r", 3, 3))

    def result(self, c, a):
        return c.bool("is_so3")

    def post(self, c, a, res):
        yield Clause("accepts_iff_within_tolerance", res == so3_accept(c, a.r), role="aux")


@register
class is_se3(FnContract):
    name = M + "is_se3"
    props = ["C09", "C08", "C14"]

    def args(self, c):
        return dict(p=c.matrix("p", 4, 4))

    def result(self, c, a):
        return c.bool("is_se3")

    def post(self, c, a, res):
        yield Clause("rotation_block_and_exact_bottom_row",
                     res == c.And(so3_accept(c, a.p[:3, :3]), bottom_ok(c, a.p)), role="aux")


@register
class is_sim3(FnContract):
    name = M + "is_sim3"
    props = ["C09", "C07"]

    def cases(self):
        return [{"s_given": False}, {"s_given": True}]

    def args(self, c, s_given=False):
        return dict(p=c.matrix("p", 4, 4), s=(c.real("s") if s_given else None))

    def pre(self, c, a):
        if a.s is None:
            yield ("det_positive", npstub.det(a.p[:3, :3]) > 0)   # non-positive: NaN path, bounded only
        else:
            yield ("scale_nonzero", a.s != 0)

    def result(self, c, a):
        return c.bool("is_sim3")

    def post(self, c, a, res):
        s = a.s if a.s is not None else sym.scbrt(npstub.det(a.p[:3, :3]))
        unscaled = spec.mk([[a.p[i, j] * (1 / s) for j in range(3)] for i in range(3)])
        yield Clause("unscaled_block_and_exact_bottom_row",
                     res == c.And(so3_accept(c, unscaled), bottom_ok(c, a.p)), role="aux")


@register
class so3_log_angle(FnContract):
    """scipy-backed; the body is verified against the trusted contract |as_rotvec(R)| = angle(R)"""
    name = M + "so3_log_angle"
    props = ["C09", "C01", "C02", "C10", "C11"]
    callers_must_not_raise = True
    raises = (Raises("LieAlgebraException", "not_so3", lambda c, a: c.Not(so3_accept(c, a.r)), role="prop"), )

    def cases(self):
        return [{"degrees": False}, {"degrees": True}]

    def args(self, c, degrees=False):
        return dict(r=c.matrix("r", 3, 3), degrees=degrees)

    def result(self, c, a):
        return c.real("angle")

    def post(self, c, a, res):
        ang = spec.angle(a.r)
        pi = sym.pi_axiom()
        if a.degrees:
            yield Clause("angle_deg", c.eq(res, npstub.rad2deg(ang)), role="prop",
                         note="rad2deg(x) = x*180/pi (trusted numpy contract)")
        else:
            yield Clause("angle_rad", res == ang, role="prop")
            yield Clause("range", c.And(res >= 0, res <= pi), role="prop")


@register
class so3_exp(FnContract):
    name = M + "so3_exp"
    props = ["C09", "C14"]
    inline = True
