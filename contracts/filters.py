"""Sidecar contracts for evo/core/filters.py and metrics.id_pairs_from_delta (properties C10, C11, C02)."""
import types

import numpy as np
import z3

from pyvc import sym, spec, npstub
from pyvc.contract import FnContract, Clause, Raises, LoopSpec, register, defined_by
from pyvc.sym import SB, SI, _term
from contracts.lie_algebra import so3_accept

M = "evo.core.filters."


# ---- spec functions over a pose list ---------------------------------------------------

def poses_input(c, name="P", min_len=0):
    """pose list of symbolic length; every element an exact SE(3) matrix"""
    n = c.int(name + "_n")
    c.assume(n >= min_len)
    P = c.seq(name, n, (4, 4))
    k = SI(z3.Int(name + "!se3"))
    with c.quiet():
        body = c.And(*spec.is_SE3_exact(P.get(k)))
    c.assume(SB(sym.forall_t([k.t], z3.Implies(z3.And(0 <= k.t, k.t < _term(n)), _term(body)))))
    return P, n


def path_fn(c, P):
    """spec: D(k) = path length travelled from pose 0 to pose k (positions of the pose list); path(i,j) = D(j)-D(i)"""
    return npstub.path_D(lambda j: [P.get(j)[i, 3] for i in range(3)])


def ang_fn(c, P):
    """ghost spec function ang(i, j) = rotation angle between poses i and j = angle(R_i^T R_j), introduced by its
    definition (unfolded only for the index pairs that occur)"""
    ctx = sym.cur()
    key = ("ang", id(P._get))
    cache = ctx.ghost.setdefault("angfn", {})
    if key in cache:
        return cache[key][0]
    A = ctx.fresh_fun("ang", [z3.IntSort(), z3.IntSort()], z3.RealSort())
    i, j = z3.Int("i!ang"), z3.Int("j!ang")
    ctx.quiet += 1
    try:
        a, b = P.get(SI(i)), P.get(SI(j))
        tr = 0
        for r in range(3):
            for q in range(3):
                tr = tr + a[q, r] * b[q, r]
        body = npstub.angle_of_trace(tr)
    finally:
        ctx.quiet -= 1
    bt = _term(body)
    # the definition A(i,j) == angle(R_i^T R_j) is unfolded only at the index pairs named outside quantifiers
    # (a quantified definition makes the solver unfold it for every pair it meets)
    done = set()

    def fn(x, y):
        tx, ty = z3.simplify(_term(x)), z3.simplify(_term(y))
        cx = sym.cur()
        if not cx.quiet and not cx.generic:
            h = (tx.hash(), ty.hash())
            if h not in done:
                done.add(h)
                # the definition unfolded at this pair of index terms (and the angle axioms for that ground term)
                inst = z3.substitute(bt, (i, tx), (j, ty))
                cx.axiom(A(tx, ty) == inst, "ang.def")
                a2, b2 = P.get(sym.wrap(tx)), P.get(sym.wrap(ty))
                tr2 = 0
                for r in range(3):
                    for q in range(3):
                        tr2 = tr2 + a2[q, r] * b2[q, r]
                npstub.angle_of_trace(tr2)
        return sym.wrap(A(tx, ty))
    cache[key] = (fn, P._get)
    return fn


def ang(c, P, i, j):
    return ang_fn(c, P)(i, j)


# ---- index ----------------------------------------------------------------------------------

@register
class filter_pairs_by_index(FnContract):
    name = M + "filter_pairs_by_index"
    props = ["C10", "C02"]

    def cases(self):
        return [{"all_pairs": False}, {"all_pairs": True}]

    def args(self, c, all_pairs=False):
        n = c.int("N")
        c.assume(n >= 0)
        delta = c.int("delta")
        return dict(poses=c.seq("P", n, (4, 4)), delta=delta, all_pairs=all_pairs)

    def pre(self, c, a):
        yield ("delta_positive", a.delta >= 1)

    def result(self, c, a):
        m = c.int("n_pairs")
        c.assume(m >= 0)
        return sym.SSeq(m, (lambda q, f=c.seq("pair_i", m, (), "int"), g=c.seq("pair_j", m, (), "int"): (f.get(q), g.get(q))))

    def post(self, c, a, res):
        res = sym.as_seq(res)
        N, delta, m = c.len(a.poses), a.delta, c.len(res)
        I = lambda k: res.get(k)[0]
        J = lambda k: res.get(k)[1]
        yield Clause("valid_indices", c.forall(m, lambda k: c.And(0 <= I(k), I(k) < J(k), J(k) < N)), role="prop")
        yield Clause("index_distance_is_delta", c.forall(m, lambda k: J(k) - I(k) == delta), role="prop")
        if a.all_pairs:
            yield Clause("ordered_by_start", c.forall2(m, lambda x, y: I(x) < I(y)), role="aux")
            yield Clause("all_such_pairs", c.forall(N, lambda i: c.Implies(i + delta < N,
                                                                          c.exists(m, lambda k: I(k) == i)), "i"),
                         role="prop")
        else:
            yield Clause("chain_from_zero", c.forall(m, lambda k: I(k) == k * delta), role="prop")
            yield Clause("chain_until_the_end", (m + 1) * delta >= N - c.ite(N >= 1, 0, 0), role="prop",
                         note="the next pair would end beyond the last pose")


# ---- path -----------------------------------------------------------------------------------

def path_consecutive_inv(c, P, D, delta, ids, upto, current_path):
    """ids built so far over poses [0, upto): chain of first-reaching indices"""
    ids = sym.as_seq(ids)
    m = c.len(ids)
    g = ids.get
    start = lambda k: c.ite(k == 0, 0, g(k - 1))          # where the accumulation for ids[k] began
    yield "ids_in_range", c.forall(m, lambda k: c.And(0 <= g(k), g(k) < upto))
    yield "ids_increasing", c.forall2(m, lambda x, y: g(x) < g(y))
    yield "reaches_delta", c.forall(m, lambda k: D(g(k)) - D(start(k)) >= delta)
    yield "first_to_reach", c.forall(m, lambda k: c.forall_where(start(k), g(k), lambda j: D(j) - D(start(k)) < delta,
                                                               None, "j"))
    last = c.ite(m == 0, 0, g(m - 1))
    if current_path is not None:
        yield "accumulator", c.And(current_path == D(c.ite(upto >= 1, upto - 1, 0)) - D(last), upto >= 0)
    yield "rest_below_delta", c.forall_where(last, upto, lambda j: D(j) - D(last) < delta, None, "j")


@register
class filter_pairs_by_path(FnContract):
    name = M + "filter_pairs_by_path"
    props = ["C10", "C02"]

    def cases(self):
        return [{"all_pairs": False}, {"all_pairs": True}]

    def args(self, c, all_pairs=False):
        P, n = poses_input(c, "P", 1)
        delta, tol = c.real("delta"), c.real("tol")
        c.assume(delta > 0)
        c.assume(tol >= 0)
        return dict(poses=P, delta=delta, tol=tol, all_pairs=all_pairs)

    def pre(self, c, a):
        yield ("nonempty", c.len(a.poses) >= 1)
        yield ("delta_positive", a.delta > 0)

    def result(self, c, a):
        m = c.int("n_pairs")
        c.assume(m >= 0)
        return sym.SSeq(m, (lambda q, f=c.seq("pair_i", m, (), "int"), g=c.seq("pair_j", m, (), "int"): (f.get(q), g.get(q))))

    def post(self, c, a, res):
        res = sym.as_seq(res)
        P, N, delta, tol, m = a.poses, c.len(a.poses), a.delta, a.tol, c.len(res)
        D = path_fn(c, P)
        I = lambda k: res.get(k)[0]
        J = lambda k: res.get(k)[1]
        yield Clause("valid_indices", c.forall(m, lambda k: c.And(0 <= I(k), I(k) < J(k), J(k) < N)), role="prop")
        if not a.all_pairs:
            yield Clause("chain", c.forall_where(1, m, lambda k: I(k) == J(k - 1), None), role="prop",
                         note="each pair starts where the previous ended")
            yield Clause("end_is_first_pose_reaching_delta", c.forall(m, lambda k: c.And(
                D(J(k)) - D(I(k)) >= delta,
                c.forall_where(I(k) + 1, J(k), lambda j: D(j) - D(I(k)) < delta, None, "j"))), role="prop")
            yield Clause("starts_at_first_pose_reaching_delta_from_the_beginning", c.Implies(m >= 1, c.And(
                D(I(0)) - D(0) >= delta, c.forall_where(0, I(0), lambda j: D(j) - D(0) < delta, None, "j"))), role="prop")
            yield Clause("rest_does_not_reach_delta", c.Implies(m >= 1, c.forall_where(
                J(m - 1), N, lambda j: D(j) - D(J(m - 1)) < delta, None, "j")), role="prop")
        else:
            dev = lambda i, j: c.abs(D(j) - D(i) - delta)
            yield Clause("within_tolerance", c.forall(m, lambda k: dev(I(k), J(k)) <= tol), role="prop")
            yield Clause("closest_candidate", c.forall(m, lambda k: c.forall_where(
                I(k) + 1, N, lambda j: dev(I(k), J(k)) <= dev(I(k), j), None, "j")), role="prop")
            yield Clause("every_start_once_in_order", c.forall2(m, lambda x, y: I(x) < I(y)), role="prop")
            yield Clause("complete", c.forall(N, lambda i: c.Implies(
                c.exists(N, lambda j: c.And(j > i, dev(i, j) <= tol), "j"), c.exists(m, lambda k: I(k) == i)), "i"),
                role="prop")

    def _inv_consecutive(c, i, v):
        P = v.poses
        D = path_fn(c, P)
        for lab, cond in path_consecutive_inv(c, P, D, v.delta, v.ids, i, v.current_path):
            yield lab, cond
        yield "previous_pose", c.Implies(i >= 1, c.eq(v.previous_pose, P.get(i - 1)))
        yield "previous_pose_0", c.Implies(i == 0, c.eq(v.previous_pose, P.get(0)))

    def _inv_all(c, i, v):
        pairs = sym.as_seq(v.id_pairs)
        m = c.len(pairs)
        Dk = v.distances
        N = c.len(Dk)
        I = lambda k: pairs.get(k)[0]
        J = lambda k: pairs.get(k)[1]
        dev = lambda x, y: c.abs(Dk.row(y) - Dk.row(x) - v.delta)
        yield "valid", c.forall(m, lambda k: c.And(0 <= I(k), I(k) < i, I(k) < J(k), J(k) < N))
        yield "within_tolerance", c.forall(m, lambda k: dev(I(k), J(k)) <= v.tol)
        yield "closest", c.forall(m, lambda k: c.forall_where(I(k) + 1, N, lambda j: dev(I(k), J(k)) <= dev(I(k), j),
                                                            None, "j"))
        yield "ordered", c.forall2(m, lambda x, y: I(x) < I(y))
        yield "complete", c.forall(i, lambda s: c.Implies(
            c.exists(N, lambda j: c.And(j > s, dev(s, j) <= v.tol), "j"), c.exists(m, lambda k: I(k) == s)), "s")

    loops = {0: LoopSpec(_inv_all, types={"id_pairs": "list[int,int]"}),
             1: LoopSpec(_inv_consecutive, types={"ids": "list[int]"})}


# ---- motion filter -----------------------------------------------------------------------------

def reached(c, P, D, dthr, athr, a, b):
    return c.Or(D(b) - D(a) >= dthr, ang(c, P, a, b) >= athr)


@register
class filter_by_motion(FnContract):
    name = M + "filter_by_motion"
    props = ["C11", "C08"]

    def cases(self):
        return [{"degrees": False}, {"degrees": True}]

    def args(self, c, degrees=False):
        P, n = poses_input(c, "P", 0)
        return dict(poses=P, distance_threshold=c.real("dthr"), angle_threshold=c.real("athr"), degrees=degrees)

    raises = (Raises("FilterException", "too_few_poses_or_negative_threshold",
                     lambda c, a: c.Or(c.len(a.poses) < 2, a.distance_threshold < 0, a.angle_threshold < 0),
                     role="prop"), )

    def result(self, c, a):
        m = c.int("n_kept")
        c.assume(m >= 1)
        r = c.seq("kept", m, (), "int")
        r.elem_kind = "int"
        return r

    def _athr(self, c, a):
        return npstub.deg2rad(a.angle_threshold) if a.degrees else a.angle_threshold

    def post(self, c, a, res):
        ids = sym.as_seq(res)
        P, N, m = a.poses, c.len(a.poses), c.len(ids)
        D = path_fn(c, P)
        g = ids.get
        athr = self._athr(c, a)
        yield Clause("keeps_first_pose", c.And(m >= 1, g(0) == 0), role="prop")
        yield Clause("indices_valid_and_increasing", c.And(c.forall(m, lambda k: c.And(0 <= g(k), g(k) < N)),
                                                           c.forall2(m, lambda x, y: g(x) < g(y))), role="prop")
        yield Clause("kept_iff_threshold_reached_since_last_kept[kept]", c.forall_adjacent(
            m, lambda x, y: reached(c, P, D, a.distance_threshold, athr, g(x), g(y))), role="prop")
        yield Clause("kept_iff_threshold_reached_since_last_kept[dropped_between]", c.forall_adjacent_between(
            m, lambda x, y: g(x) + 1, lambda x, y: g(y),
            lambda x, y, j: c.Not(reached(c, P, D, a.distance_threshold, athr, g(x), j))), role="prop")
        yield Clause("kept_iff_threshold_reached_since_last_kept[dropped_after_last]", c.forall_where(
            g(m - 1) + 1, N, lambda j: c.Not(reached(c, P, D, a.distance_threshold, athr, g(m - 1), j)), None, "j"),
            role="prop")

    def _inv(c, i, v):
        # i completed iterations of `for i in range(1, len(poses))`: poses 1..i have been decided
        P = v.poses
        D = path_fn(c, P)
        ids = sym.as_seq(v.filtered_ids)
        m = c.len(ids)
        g = ids.get
        upto = i + 1
        yield "first", c.And(m >= 1, g(0) == 0)
        yield "range", c.And(c.forall(m, lambda k: c.And(0 <= g(k), g(k) < upto)), 0 <= g(m - 1), g(m - 1) < upto)
        yield "increasing", c.forall2(m, lambda x, y: g(x) < g(y))
        yield "last_kept", c.And(v.previous_angle_id == g(m - 1), v.previous_distance == D(g(m - 1)))
        # proof hints: name the angle of the current pose against the last two kept poses (unfolds the definition)
        yield "hint_angle_terms", c.And(ang(c, P, g(m - 1), upto - 1) >= 0,
                                        c.Implies(m >= 2, ang(c, P, g(c.ite(m >= 2, m - 2, 0)), upto - 1) >= 0))
        yield "distances_are_path", c.forall(c.len(v.distances), lambda k: v.distances.row(k) == D(k))
        base = ["first", "range", "increasing", "last_kept", "distances_are_path", "hint_angle_terms"]
        yield "kept", c.forall_adjacent(m, lambda x, y: reached(c, P, D, v.distance_threshold, v.angle_threshold,
                                                                g(x), g(y))), base
        yield "dropped_between", c.forall_adjacent_between(
            m, lambda x, y: g(x) + 1, lambda x, y: g(y),
            lambda x, y, j: c.Not(reached(c, P, D, v.distance_threshold, v.angle_threshold, g(x), j))), \
            base + ["dropped_after_last"]
        yield "dropped_after_last", c.forall_where(
            g(m - 1) + 1, upto, lambda j: c.Not(reached(c, P, D, v.distance_threshold, v.angle_threshold, g(m - 1), j)),
            None, "j"), base

    loops = {0: LoopSpec(_inv, types={
        "filtered_ids": "list[int]",
        "previous_angle_id": defined_by(lambda c, old, ns: sym.as_seq(ns.filtered_ids).get(c.len(ns.filtered_ids) - 1)),
        "previous_distance": defined_by(lambda c, old, ns: path_fn(c, ns.poses)(
            sym.as_seq(ns.filtered_ids).get(c.len(ns.filtered_ids) - 1)))})}


# ---- angle (consecutive mode; the vectorised all-pairs mode is out of the verifier's reach: bounded only) -------

def rot_acc_fn(c, P):
    """spec: accumulated rotation A(k) = sum_{t<k} ang(t, t+1) along the pose list"""
    def body(t):
        a, b = P.get(t), P.get(t + 1)
        tr = 0
        for r in range(3):
            for q in range(3):
                tr = tr + a[q, r] * b[q, r]
        return npstub.angle_of_trace(tr)
    return npstub.prefix_sum(body, nonneg=True)


@register
class filter_pairs_by_angle(FnContract):
    name = M + "filter_pairs_by_angle"
    props = ["C10", "C02"]

    def cases(self):
        return [{"degrees": False, "all_pairs": False}, {"degrees": True, "all_pairs": False},
                {"degrees": False, "all_pairs": True}]

    def args(self, c, degrees=False, all_pairs=False):
        P, n = poses_input(c, "P", 1)
        delta, tol = c.real("delta"), c.real("tol")
        return dict(poses=P, delta=delta, tol=tol, degrees=degrees, all_pairs=all_pairs)

    def pre(self, c, a):
        yield ("nonempty", c.len(a.poses) >= 1)

    def _bound(self, c, a):
        return 180 if a.degrees else sym.pi_axiom()

    raises = (Raises("FilterException", "delta_outside_0_pi",
                     lambda c, a: c.Or(a.delta < 0, a.delta > (180 if a.degrees else sym.pi_axiom())), role="prop"), )

    def result(self, c, a):
        m = c.int("n_pairs")
        c.assume(m >= 0)
        return sym.SSeq(m, (lambda q, f=c.seq("pair_i", m, (), "int"), g=c.seq("pair_j", m, (), "int"): (f.get(q), g.get(q))))

    def post(self, c, a, res):
        res = sym.as_seq(res)
        P, N, m = a.poses, c.len(a.poses), c.len(res)
        I = lambda k: res.get(k)[0]
        J = lambda k: res.get(k)[1]
        yield Clause("valid_indices", c.forall(m, lambda k: c.And(0 <= I(k), I(k) < J(k), J(k) < N)), role="prop")
        if a.all_pairs:
            return
        A = rot_acc_fn(c, P)
        delta = npstub.deg2rad(a.delta) if a.degrees else a.delta
        yield Clause("chain_from_first_pose", c.And(c.Implies(m >= 1, I(0) == 0),
                                                    c.forall_adjacent(m, lambda x, y: I(y) == J(x))), role="prop")
        yield Clause("end_is_first_pose_reaching_delta", c.forall(m, lambda k: c.And(
            A(J(k)) - A(I(k)) >= delta,
            c.forall_where(I(k) + 1, J(k), lambda j: A(j) - A(I(k)) < delta, None, "j"))), role="prop")
        last = c.ite(m >= 1, J(c.ite(m >= 1, m - 1, 0)), 0)
        yield Clause("rest_does_not_reach_delta", c.forall_where(last + 1, N, lambda j: A(j) - A(last) < delta,
                                                                 None, "j"), role="prop")

    def _inv(c, i, v):
        P = v.poses
        A = rot_acc_fn(c, P)
        pairs = sym.as_seq(v.id_pairs)
        m = c.len(pairs)
        I = lambda k: pairs.get(k)[0]
        J = lambda k: pairs.get(k)[1]
        start = v.current_start_index
        yield "valid", c.forall(m, lambda k: c.And(0 <= I(k), I(k) < J(k), J(k) <= i))
        yield "start", c.And(start == c.ite(m >= 1, J(c.ite(m >= 1, m - 1, 0)), 0), 0 <= start, start <= i)
        yield "chain", c.And(c.Implies(m >= 1, I(0) == 0), c.forall_adjacent(m, lambda x, y: I(y) == J(x)))
        # third element: the invariant clauses the preservation proof of this clause depends on (the others are left
        # out of its hypotheses: fewer quantified hypotheses, stable solver times)
        yield "accumulator", v.accumulated_delta == A(i) - A(start), ["start"]
        yield "reaches", c.forall(m, lambda k: c.And(
            A(J(k)) - A(I(k)) >= v.delta,
            c.forall_where(I(k) + 1, J(k), lambda j: A(j) - A(I(k)) < v.delta, None, "j"))), ["start", "accumulator", "rest_below",
                                                                                           "valid"]
        yield "rest_below", c.forall_where(start + 1, i + 1, lambda j: A(j) - A(start) < v.delta, None, "j"), ["start",
                                                                                                              "accumulator"]

    loops = {0: LoopSpec(lambda c, i, v: (_ for _ in ()).throw(sym.OutOfReach(
                 "vectorised all-pairs angle search (scipy Rotation stacks) is outside the supported subset"))),
             1: LoopSpec(_inv, types={
                 "id_pairs": "list[int,int]",
                 "current_start_index": defined_by(lambda c, old, ns: c.ite(
                     c.len(ns.id_pairs) >= 1,
                     sym.as_seq(ns.id_pairs).get(c.ite(c.len(ns.id_pairs) >= 1, c.len(ns.id_pairs) - 1, 0))[1], 0))})}


# ---- metrics.id_pairs_from_delta: unit dispatch ------------------------------------------------------------

def _remember(name):
    """decorator for result(): the callee's result is kept as a ghost, to be named by the caller's contract"""
    def deco(fn):
        def wrapped(self, c, a):
            r = fn(self, c, a)
            sym.cur().ghost["result:" + name] = (r, a)
            return r
        return wrapped
    return deco


for _cls in (filter_pairs_by_index, filter_pairs_by_path, filter_pairs_by_angle):
    _cls.result = _remember(_cls.name)(_cls.result)

UNITS = ["none", "millimeters", "centimeters", "meters", "kilometers", "seconds", "degrees", "radians", "frames",
         "percent"]


@register
class id_pairs_from_delta(FnContract):
    name = "evo.core.metrics.id_pairs_from_delta"
    props = ["C10", "C02"]

    def cases(self):
        out = []
        for u in UNITS:
            for ap in (False, True):
                if u in ("degrees", "radians") and ap:
                    continue   # all-pairs angle search: callee out of reach (bounded only)
                out.append({"unit": u, "all_pairs": ap})
        return out

    def args(self, c, unit="frames", all_pairs=False):
        from pyvc import session
        U = session.loader().load("evo.core.units").Unit
        P, n = poses_input(c, "P", 1)
        delta = c.int("delta") if unit == "frames" else c.real("delta")
        rel_tol = c.real("rel_tol")
        c.assume(rel_tol >= 0)
        return dict(poses=P, delta=delta, delta_unit=getattr(U, unit), rel_tol=rel_tol, all_pairs=all_pairs)

    def pre(self, c, a):
        yield ("nonempty", c.len(a.poses) >= 1)
        yield ("delta_positive", a.delta >= 1 if a.delta_unit.name == "frames" else a.delta > 0)

    def _callee(self, a):
        u = a.delta_unit.name
        if u == "frames":
            return filter_pairs_by_index.name
        if u == "meters":
            return filter_pairs_by_path.name
        if u in ("degrees", "radians"):
            return filter_pairs_by_angle.name
        return None

    def _empty(c, a):
        g = sym.cur().ghost
        con = REG_BY_UNIT(a)
        if con is None or ("result:" + con) not in g:
            return False
        return c.len(g["result:" + con][0]) == 0

    raises = (Raises("FilterException", "unsupported_unit",
                     lambda c, a: a.delta_unit.name not in ("frames", "meters", "degrees", "radians"), role="prop"),
              Raises("FilterException", "delta_angle_outside_range",
                     lambda c, a: (a.delta_unit.name in ("degrees", "radians")) and
                     c.Or(a.delta < 0, a.delta > (180 if a.delta_unit.name == "degrees" else sym.pi_axiom())),
                     role="prop"),
              Raises("FilterException", "no_pair_exists", _empty, role="prop",
                     call_when=lambda c, a: c.bool("no_pair_for_this_delta")))

    def result(self, c, a):
        m = c.int("n_pairs")
        c.assume(m >= 1)
        return sym.SSeq(m, (lambda q, f=c.seq("pair_i", m, (), "int"), g=c.seq("pair_j", m, (), "int"): (f.get(q), g.get(q))))

    def post(self, c, a, res):
        import types
        u = a.delta_unit.name
        yield Clause("not_empty", c.len(res) >= 1, role="prop")
        if u == "frames":
            ca = types.SimpleNamespace(poses=a.poses, delta=a.delta, all_pairs=a.all_pairs)
            sub = filter_pairs_by_index()
        elif u == "meters":
            ca = types.SimpleNamespace(poses=a.poses, delta=a.delta, tol=a.delta * a.rel_tol, all_pairs=a.all_pairs)
            sub = filter_pairs_by_path()
        else:
            ca = types.SimpleNamespace(poses=a.poses, delta=a.delta, tol=a.delta * a.rel_tol,
                                       degrees=(u == "degrees"), all_pairs=a.all_pairs)
            sub = filter_pairs_by_angle()
        for cl in sub.post(c, ca, res):
            yield Clause("%s[%s]" % (cl.label, u), cl.cond, role=cl.role)


id_pairs_from_delta.result = _remember(id_pairs_from_delta.name)(id_pairs_from_delta.result)


def REG_BY_UNIT(a):
    u = a.delta_unit.name
    return {"frames": filter_pairs_by_index.name, "meters": filter_pairs_by_path.name,
            "degrees": filter_pairs_by_angle.name, "radians": filter_pairs_by_angle.name}.get(u)
