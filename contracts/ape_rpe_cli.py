"""Sidecar contracts for evo.main_ape.ape and evo.main_rpe.rpe (properties C01, C02, C04): the order and wiring of the
processing steps and the alignment matrix that is recorded in the result.

Like contracts/traj_cli.py: the trajectory operations and the metric classes are recording stand-ins (their effect is
verified by their own contracts); what is proved here is which operation reaches which trajectory in which order with
which arguments, which trajectories the metric is computed on, and that the recorded matrix is composed from exactly
the transformations that were applied."""
import types

import numpy as _np
import z3

from pyvc import sym, session, spec
from pyvc.contract import FnContract, Clause, register
from contracts import overwrite as ow


class TObj:
    def __init__(self, name, log, c, stamped=True):
        self.name, self.log = name, log
        self.c = c
        self.meta = {}
        n = c.int(name + "_n")
        c.assume(n >= 1)                       # trajectories have at least one pose
        if stamped:
            self.timestamps = c.array(name + "_stamps", n)
        self.distances = c.array(name + "_distances", n)
        self.align_result = None
        self.origin_result = None

    def _ev(self, op, *a):
        self.log.append((self.name, op, a))

    def align(self, ref, correct_scale=False, correct_only_scale=False, n=-1):
        self._ev("align", ref.name, correct_scale, correct_only_scale, n)
        c = self.c
        self.align_result = (c.matrix(self.name + "_r", 3, 3), c.matrix(self.name + "_t", 3), c.real(self.name + "_s"))
        return self.align_result

    def align_origin(self, ref):
        self._ev("align_origin", ref.name)
        self.origin_result = self.c.matrix(self.name + "_to_ref_origin", 4, 4)
        return self.origin_result

    def project(self, plane):
        self._ev("project", plane.name)

    def reduce_to_ids(self, ids):
        self._ev("reduce_to_ids", ids)


def _metric_class(log, kind):
    class M:
        def __init__(self, *a, **kw):
            self.args, self.kw = a, kw
            self.delta_ids = [3, 5, 9]
            log.append(("metric", "create_" + kind, a + tuple(sorted(kw.items()))))

        def process_data(self, data):
            log.append(("metric", "process_data", tuple(getattr(d, "name", d) for d in data)))

        def change_unit(self, u):
            log.append(("metric", "change_unit", (u, )))

        def get_result(self, ref_name="reference", est_name="estimate"):
            R = session.loader().load("evo.core.result").Result
            r = R()
            r.add_info({"title": "T", "ref_name": ref_name, "est_name": est_name})
            log.append(("metric", "get_result", (ref_name, est_name)))
            return r

        def __str__(self):
            return kind + " title"
    return M


CASES = {
    "plain": {},
    "align": dict(align=True),
    "align_scale_n": dict(align=True, correct_scale=True, n_to_align=7),
    "scale_only": dict(correct_scale=True),
    "origin": dict(align_origin=True),
    "align_then_origin": dict(align=True, align_origin=True),
    "scale_only_then_origin_projected": dict(correct_scale=True, align_origin=True, project="XY"),
    "projected_unit": dict(project="XZ", unit=True),
}


class _Pipeline(FnContract):
    kind = "APE"
    modname = "evo.main_ape"

    def cases(self):
        return [{"case": k} for k in CASES]

    def args(self, c, case="plain"):
        L = session.loader()
        m = L.load(self.modname)
        met = L.load("evo.core.metrics")
        tr = L.load("evo.core.trajectory")
        ow.world()
        log = []
        sym.cur().ghost["pipe_log"] = log
        kw = dict(CASES[case])
        ref, est = TObj("ref", log, c), TObj("est", log, c)
        setattr(met, self.kind, _metric_class(log, self.kind))
        m.PoseTrajectory3D = TObj          # isinstance(traj_est, PoseTrajectory3D): the stamped branch
        a = dict(traj_ref=ref, traj_est=est, pose_relation=met.PoseRelation.translation_part,
                 align=kw.get("align", False), correct_scale=kw.get("correct_scale", False), n_to_align=kw.get("n_to_align", -1),
                 align_origin=kw.get("align_origin", False), ref_name="reference", est_name="estimate",
                 change_unit=met.Unit.millimeters if kw.get("unit") else None,
                 project_to_plane=getattr(tr.Plane, kw["project"]) if kw.get("project") else None)
        if self.kind == "RPE":
            a.update(delta=1, delta_unit=met.Unit.frames, rel_delta_tol=0.1, all_pairs=False, pairs_from_reference=False,
                     support_loop=False)
        return a

    def post(self, c, a, res, old=None):
        log = sym.cur().ghost["pipe_log"]
        ref, est = a.traj_ref, a.traj_est
        only_scale = bool(a.correct_scale and not a.align)
        ops = [(n, op) for (n, op, ar) in log if op not in ("create_" + self.kind, "get_result")]
        exp = []
        if a.align or a.correct_scale:
            exp.append(("est", "align"))
        if a.align_origin:
            exp.append(("est", "align_origin"))
        if a.project_to_plane:
            exp += [("ref", "project"), ("est", "project")]
        exp.append(("metric", "process_data"))
        if a.change_unit:
            exp.append(("metric", "change_unit"))
        if self.kind == "RPE":
            exp += [("ref", "reduce_to_ids"), ("est", "reduce_to_ids")]
        yield Clause("alignment_then_origin_alignment_then_projection_of_both_then_the_metric", ops == exp, role="prop",
                     note="got %s" % ops)
        al = [ar for (n, op, ar) in log if op == "align"]
        if a.align or a.correct_scale:
            yield Clause("estimate_aligned_to_the_reference_with_the_requested_mode_and_n", al == [
                ("ref", a.correct_scale, only_scale, a.n_to_align)], role="prop", props=list(self.props) + ["C04"])
        pd = [ar for (n, op, ar) in log if op == "process_data"]
        # APE values do not depend on which of the two is called the reference (swap-symmetry lemma of C01), so the
        # order is a property clause only for RPE (pair selection and E depend on it)
        yield Clause("metric_computed_on_the_processed_reference_and_estimate", len(pd) == 1 and sorted(pd[0]) == ["est", "ref"],
                     role="prop")
        yield Clause("metric_receives_reference_first", pd == [("ref", "est")], role="prop" if self.kind == "RPE" else "aux")
        # the recorded alignment matrix = composition of what was applied (C04)
        rec = res.np_arrays.get("alignment_transformation_sim3") if hasattr(res, "np_arrays") else None
        if not (a.align or a.correct_scale or a.align_origin):
            yield Clause("no_alignment_matrix_recorded_without_alignment", rec is None, role="prop", props=["C04"])
        else:
            I4 = spec.eye(4)
            if (a.align or a.correct_scale) and est.align_result is None:
                yield Clause("recorded_matrix_is_the_composition_of_the_applied_transformations", False, role="prop", props=["C04"],
                             note="the requested alignment was never applied")
                return
            if a.align_origin and est.origin_result is None:
                yield Clause("recorded_matrix_is_the_composition_of_the_applied_transformations", False, role="prop", props=["C04"],
                             note="the requested origin alignment was never applied")
                return
            if a.align or a.correct_scale:
                r_, t_, s_ = est.align_result
                if only_scale:
                    first = spec.mk([[s_, 0, 0, 0], [0, s_, 0, 0], [0, 0, s_, 0], [0, 0, 0, 1]])
                else:
                    first = spec.mk([[s_ * r_[i, j] for j in range(3)] + [t_[i]] for i in range(3)] + [[0, 0, 0, 1]])
            else:
                first = None
            if a.align_origin:
                expm = est.origin_result if first is None else spec.mul4(est.origin_result, first)
            else:
                expm = first
            yield Clause("recorded_matrix_is_the_composition_of_the_applied_transformations", rec is not None and c.eq(rec, expm),
                         role="prop", props=["C04"], note="scale-only: s*I; similarity: [s r | t]; origin alignment multiplied from the left")
        if hasattr(res, "np_arrays"):
            # companion arrays (C12): one entry per value, referring to the pose the value belongs to
            ts, dr, de = res.np_arrays.get("timestamps"), res.np_arrays.get("distances_from_start"), res.np_arrays.get("distances")
            if self.kind == "APE":
                yield Clause("companion_arrays_are_the_processed_trajectories'_own_arrays", ts is est.timestamps and dr is ref.distances
                             and de is est.distances, role="prop", props=["C12"])
            else:
                def tail_of(arr, base):
                    return isinstance(arr, sym.SArr) and c.And(arr.shape[0] == base.shape[0] - 1, c.forall(
                        arr.shape[0], lambda k: arr.row(k) == base.row(k + 1)))
                yield Clause("companion_arrays_skip_the_first_pose_of_the_reduced_trajectories_(one_entry_per_pair_end)",
                             c.And(tail_of(ts, est.timestamps), tail_of(dr, ref.distances), tail_of(de, est.distances)),
                             role="prop", props=["C12"])
        if hasattr(res, "trajectories"):
            yield Clause("stored_trajectories_are_the_processed_ones", res.trajectories.get("reference") is ref and
                         res.trajectories.get("estimate") is est, role="prop")
        if self.kind == "RPE":
            red = [ar for (n, op, ar) in log if op == "reduce_to_ids"]
            yield Clause("stored_trajectories_reduced_to_pose_0_and_the_end_poses_of_the_pairs", red == [([0, 3, 5, 9], ), ([0, 3, 5, 9], )],
                         role="prop")


@register
class ape(_Pipeline):
    name = "evo.main_ape.ape"
    props = ["C01"]
    kind = "APE"
    modname = "evo.main_ape"


@register
class rpe(_Pipeline):
    name = "evo.main_rpe.rpe"
    props = ["C02"]
    kind = "RPE"
    modname = "evo.main_rpe"
