"""Sidecar contract for evo/core/geometry.py: umeyama_alignment (properties C03, C04)."""
import types

import numpy as np
import z3

from pyvc import sym, spec, npstub
from pyvc.contract import FnContract, Clause, Raises, LoopSpec, register
from pyvc.sym import SB, SI, _term

M = "evo.core.geometry."


def mean3(P, n):
    """spec: centroid of n points given as rows P(k) -> 3-vector"""
    return sym.carr([sym.sdiv(npstub.prefix_sum(lambda k, i=i: P(k)[i])(n), n) for i in range(3)])


def cov_sum(X, Y, mx, my, n, upto):
    """spec: sum_{k<upto} (y_k - my)(x_k - mx)^T   (3x3)"""
    return sym.carr([[npstub.prefix_sum(lambda k, i=i, j=j: (Y(k)[i] - my[i]) * (X(k)[j] - mx[j]))(upto)
                      for j in range(3)] for i in range(3)])


def var_sum(X, mx, n):
    return npstub.prefix_sum(lambda k: sum(((X(k)[i] - mx[i]) * (X(k)[i] - mx[i]) for i in range(3)), 0), nonneg=True)(n)


@register
class umeyama_alignment(FnContract):
    name = M + "umeyama_alignment"
    props = ["C03", "C04"]

    def cases(self):
        return [{"with_scale": False}, {"with_scale": True}]

    def args(self, c, with_scale=False):
        nx, ny = c.int("nx"), c.int("ny")
        c.assume(nx >= 1)
        c.assume(ny >= 1)
        x = c.array("X", nx, (3, ))
        y = c.array("Y", ny, (3, ))
        if with_scale:
            # sigma_x^2 > 0 where the scale formula divides by it.  Mathematically implied by the rank test
            # (sigma_x = 0 => all x_k equal => covariance 0 => singular values 0 => refused); not derivable here
            # without induction over the sum, hence assumed (listed in the evidence).
            c.assume(var_sum(x.row, mean3(x.row, nx), nx) > 0)
        return dict(x=x.T, y=y.T, with_scale=with_scale)

    def pre(self, c, a):
        yield ("three_dimensional_points", a.x.shape[0] == 3)
        yield ("at_least_one_point", a.x.shape[1] >= 1)

    def _svd(self):
        return sym.cur().ghost.get("svd")

    @staticmethod
    def _rank_deficient(c, a):
        g = sym.cur().ghost.get("svd")
        if g is None:
            return False
        _, _, d, _ = g
        from fractions import Fraction
        eps = Fraction(1, 2**52)     # numpy.finfo(float64).eps
        cnt = sum((c.ite(d[i] > eps, 1, 0) for i in range(3)), 0)
        return cnt < 2

    raises = (Raises("GeometryException", "different_shapes", lambda c, a: a.x.shape[1] != a.y.shape[1], role="prop",
                     pre_state=True),
              Raises("GeometryException", "degenerate_covariance_rank", lambda c, a: umeyama_alignment._rank_deficient(c, a),
                     role="prop", call_when=lambda c, a: c.bool("degenerate_point_set")))

    def hints(self, c, a, res):
        g = self._svd()
        if g is None:
            return
        cov, u, d, v = g
        r = res[0]
        du, dv = npstub.det(u), npstub.det(v)
        yield "det(u)^2==1", c.eq(du * du, 1)
        yield "det(v)^2==1", c.eq(dv * dv, 1)
        neg = sym.known(du * dv < 0)
        s33 = -1 if neg is True else 1
        yield "det(r)==det(u)*det(s)*det(v)", c.eq(npstub.det(r), s33 * du * dv)

    def result(self, c, a):
        r = c.matrix("um_r", 3, 3)
        t = c.matrix("um_t", 3)
        s = c.real("um_c") if a.with_scale else 1
        sym.cur().ghost["umeyama_result"] = (r, t, s, a)
        return (r, t, s)

    def post(self, c, a, res):
        r, t, s = res
        yield Clause("rotation_is_orthonormal", c.eq(np.dot(np.asarray(r).T, np.asarray(r)), spec.eye(3)), role="prop")
        yield Clause("rotation_is_proper_det_+1", c.eq(npstub.det(r), 1), role="prop")
        if not a.with_scale:
            yield Clause("scale_is_exactly_1_without_scale_estimation", s is 1 or (not sym.is_sym(s) and s == 1),
                         role="prop")
        else:
            yield Clause("scale_is_positive", s > 0, role="prop")
        n = a.x.shape[1]
        X, Y = a.x.base.row, a.y.base.row
        mx, my = mean3(X, n), mean3(Y, a.y.shape[1])    # (the point sets have equal size on every returning path)
        rm = [r[i, 0] * mx[0] + r[i, 1] * mx[1] + r[i, 2] * mx[2] for i in range(3)]
        yield Clause("translation_maps_centroid_onto_centroid", c.eq(t, sym.carr([my[i] - s * rm[i] for i in range(3)])),
                     role="prop", note="t = mean_y - c * r * mean_x (Umeyama eq. 41)")
        g = self._svd()
        if g is not None:
            cov, u, d, v = g
            # the formulas of the paper (eq. 38-43): links the code to the cited optimality theorem
            S = cov_sum(X, Y, mx, my, n, n)
            yield Clause("covariance_is_eq_38", c.eq(cov, sym.carr([[S[i, j] / n for j in range(3)] for i in range(3)])),
                         role="aux")
            neg = npstub.det(u) * npstub.det(v) < 0
            sm = sym.carr([[1, 0, 0], [0, 1, 0], [0, 0, c.ite(neg, -1, 1)]])
            yield Clause("rotation_is_U_S_V_eq_40_43", c.eq(r, np.dot(np.dot(np.asarray(u), np.asarray(sm)), np.asarray(v))),
                         role="aux")
            # eq. 42 (c = tr(D S) / sigma_x^2) is not stated here: relating numpy.linalg.norm(...)**2 to the sum of
            # squares needs sqrt(t)^2 = t under t >= 0 for a symbolic sum, which the solvers leave undecided;
            # the scale formula is covered by the bounded stand-in (comparison with an independent solver)

    def _inv(c, i, v):
        n = v.n
        X, Y = v.x.base.row, v.y.base.row
        S = cov_sum(X, Y, v.mean_x, v.mean_y, n, i)
        yield "outer_sum_is_the_partial_covariance_sum", c.eq(v.outer_sum, S)

    loops = {0: LoopSpec(_inv)}
