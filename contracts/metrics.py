"""Sidecar contracts for evo/core/metrics.py (properties C01, C02, C12)."""
import types

import numpy as np
import z3

from pyvc import sym, spec, npstub, session
from pyvc.contract import FnContract, Clause, Raises, LoopSpec, register
from pyvc.sym import SB, SI, _term
from contracts import trajmodel as tm
from contracts.lie_algebra import so3_accept

M = "evo.core.metrics."
RELATIONS = ["full_transformation", "translation_part", "rotation_part", "rotation_angle_rad", "rotation_angle_deg",
             "point_distance", "point_distance_error_ratio"]


def L():
    return session.loader()


def mod():
    return L().load("evo.core.metrics")


def assume_se3(c, P, n, name):
    k = SI(z3.Int(name + "!se3"))
    with c.quiet():
        body = c.And(*spec.is_SE3_exact(P.get(k)))
    c.assume(SB(sym.forall_t([k.t], z3.Implies(z3.And(0 <= k.t, k.t < _term(n)), _term(body)))))


def frob_minus_identity(E, n):
    """Frobenius distance from the identity, ||E - I||_F  (n = 3: rotation block, n = 4: whole pose)"""
    d = sym.carr([[E[i, j] - (1 if i == j else 0) for j in range(n)] for i in range(n)])
    return npstub._norm_c(d)


def reduce_relation(c, rel, E):
    """the definition of the error value of one relative pose E, per pose relation (property C01/C02)"""
    if rel == "full_transformation":
        return frob_minus_identity(E, 4)
    if rel == "rotation_part":
        return frob_minus_identity(E, 3)
    if rel == "rotation_angle_rad":
        return spec.angle(E)
    if rel == "rotation_angle_deg":
        return npstub.rad2deg(spec.angle(E))
    if rel == "translation_part":
        return npstub._norm_c(sym.carr([E[0, 3], E[1, 3], E[2, 3]]))
    raise ValueError(rel)


def positions_of(t, n):
    """spec: position k of a trajectory (from the stored positions, else from the matrices)"""
    if "_positions_xyz" in t.__dict__:
        return lambda k: t._positions_xyz.row(k)
    P = t._poses_se3
    return lambda k: sym.carr([P.get(k)[i, 3] for i in range(3)])


# ---- APE ---------------------------------------------------------------------------------------------------

@register
class APE_process_data(FnContract):
    name = M + "APE.process_data"
    props = ["C01"]

    def cases(self):
        out = []
        for r in RELATIONS:
            modes = ("poses", "xyzquat") if r in ("translation_part", "point_distance") else ("poses", )
            for m in modes:
                out.append({"relation": r, "mode": m})
        return out

    def args(self, c, relation="translation_part", mode="poses"):
        ref = tm.mk_traj(c, L(), "ref", mode, stamps=False)
        est = tm.mk_traj(c, L(), "est", mode, stamps=False)
        if mode == "poses":
            assume_se3(c, ref._poses_se3, ref._n, "ref")
            assume_se3(c, est._poses_se3, est._n, "est")
        m = mod()
        ape = m.APE(getattr(m.PoseRelation, relation))
        return dict(self=ape, data=(ref, est))

    def snapshot(self, c, a):
        return types.SimpleNamespace(ref=tm.snapshot(a.data[0]), est=tm.snapshot(a.data[1]), error=a.self.error,
                                     E=a.self.E)

    raises = (Raises("MetricsException", "different_number_of_poses",
                     lambda c, a: a.data[0]._n != a.data[1]._n, role="prop", pre_state=True),
              Raises("MetricsException", "unsupported_pose_relation",
                     lambda c, a: a.self.pose_relation.name == "point_distance_error_ratio", role="prop", pre_state=True))

    def post_raise(self, c, a, e, old):
        # refused rather than truncated: no error values are produced (for the length refusal nothing is touched)
        if str(e).startswith("trajectories must have same number"):
            yield Clause("nothing_computed_when_refused", (a.self.error is old.error) and (a.self.E is old.E), role="prop")

    def post(self, c, a, res, old=None):
        ref, est = a.data
        n = est._n
        rel = a.self.pose_relation.name
        err = a.self.error
        yield Clause("one_value_per_pose", c.len(err) == n, role="prop")
        if rel in ("translation_part", "point_distance"):
            pe, pr = positions_of(est, n), positions_of(ref, n)
            yield Clause("value_is_distance_of_positions", c.forall(n, lambda k: c.eq(
                err.row(k), npstub._norm_c(sym.carr([pe(k)[i] - pr(k)[i] for i in range(3)])))), role="prop")
        else:
            E = sym.as_seq(a.self.E)
            Pe, Pr = est._poses_se3, ref._poses_se3
            yield Clause("one_relative_pose_per_pose", c.len(E) == n, role="prop")
            yield Clause("E_is_est_inverse_times_ref", c.forall(n, lambda k: c.eq(
                E.get(k), spec.mul4(spec.inv_se3(Pe.get(k)), Pr.get(k)))), role="aux",
                note="E_k = est_k^-1 * ref_k (swap-symmetric: not a property clause by itself)")
            yield Clause("value_is_the_definition_applied_to_E", c.forall(n, lambda k: c.eq(
                err.row(k), reduce_relation(c, rel, E.get(k)))), role="prop")
        yield Clause("trajectories_untouched", c.And(tm.unchanged_data(c, ref, old.ref), tm.unchanged_data(c, est, old.est)),
                     role="prop", props=["C01", "C16"])


# ---- RPE -----------------------------------------------------------------------------------------------------

@register
class RPE_rpe_base(FnContract):
    name = M + "RPE.rpe_base"
    props = ["C02"]

    def args(self, c):
        return dict(Q_i=c.matrix("Qi", 4, 4), Q_i_delta=c.matrix("Qj", 4, 4), P_i=c.matrix("Pi", 4, 4),
                    P_i_delta=c.matrix("Pj", 4, 4))

    def result(self, c, a):
        return c.matrix("Ei", 4, 4)

    def post(self, c, a, res):
        qrel = spec.mul4(spec.inv_se3(a.Q_i), a.Q_i_delta)
        prel = spec.mul4(spec.inv_se3(a.P_i), a.P_i_delta)
        yield Clause("E_is_(Qi^-1 Qj)^-1 (Pi^-1 Pj)", c.eq(res, spec.mul4(spec.inv_se3(qrel), prel)), role="prop")
        all4 = c.And(*(spec.is_SE3_exact(a.Q_i, c.eq) + spec.is_SE3_exact(a.Q_i_delta, c.eq) +
                       spec.is_SE3_exact(a.P_i, c.eq) + spec.is_SE3_exact(a.P_i_delta, c.eq)))
        yield Clause("rotation_block_accepted_for_SE3_inputs", c.Implies(all4, so3_accept(c, res[:3, :3])), role="aux")


@register
class RPE_process_data(FnContract):
    name = M + "RPE.process_data"
    props = ["C02"]

    def cases(self):
        out = []
        for r in RELATIONS:
            for pfr in (False, True):
                out.append({"relation": r, "pairs_from_reference": pfr})
        return out

    def args(self, c, relation="translation_part", pairs_from_reference=False):
        ref = tm.mk_traj(c, L(), "ref", "poses", stamps=False)
        est = tm.mk_traj(c, L(), "est", "poses", stamps=False)
        assume_se3(c, ref._poses_se3, ref._n, "ref")
        assume_se3(c, est._poses_se3, est._n, "est")
        m = mod()
        U = L().load("evo.core.units").Unit
        delta = c.real("delta")
        c.assume(delta > 0)
        rpe = m.RPE(getattr(m.PoseRelation, relation), delta=delta, delta_unit=U.meters, rel_delta_tol=c.real("rtol"),
                    all_pairs=False, pairs_from_reference=pairs_from_reference)
        c.assume(rpe.rel_delta_tol >= 0)
        return dict(self=rpe, data=(ref, est))

    def snapshot(self, c, a):
        return types.SimpleNamespace(ref=tm.snapshot(a.data[0]), est=tm.snapshot(a.data[1]), error=a.self.error)

    raises = (Raises("MetricsException", "different_number_of_poses",
                     lambda c, a: a.data[0]._n != a.data[1]._n, role="prop", pre_state=True),
              Raises("FilterException", "no_pair_for_delta",
                     lambda c, a: _no_pairs(c), role="prop"))

    def post(self, c, a, res, old=None):
        ref, est = a.data
        rel = a.self.pose_relation.name
        g = sym.cur().ghost.get("result:evo.core.metrics.id_pairs_from_delta")
        if g is None:
            yield Clause("pair_selection_happened", False, role="prop")
            return
        pairs, callee = g
        pairs = sym.as_seq(pairs)
        K = c.len(pairs)
        I = lambda k: pairs.get(k)[0]
        J = lambda k: pairs.get(k)[1]
        src = ref if a.self.pairs_from_reference else est
        yield Clause("pairs_selected_on_the_requested_trajectory", callee.poses is src._poses_se3, role="prop")
        err = a.self.error
        ids = sym.as_seq(a.self.delta_ids)
        Pe, Pr = est._poses_se3, ref._poses_se3
        if rel in ("point_distance", "point_distance_error_ratio"):
            pe, pr = positions_of(est, est._n), positions_of(ref, ref._n)
            dist = lambda pos, k: npstub._norm_c(sym.carr([pos(I(k))[i] - pos(J(k))[i] for i in range(3)]))
            if rel == "point_distance":
                yield Clause("one_value_per_pair", c.And(c.len(err) == K, c.len(ids) == K), role="prop", props=["C02", "C12"])
                yield Clause("end_indices_line_up", c.forall(K, lambda k: ids.get(k) == J(k)), role="prop", props=["C02", "C12"])
                yield Clause("value_is_difference_of_straight_line_distances", c.forall(K, lambda k: c.eq(
                    err.row(k), c.abs(dist(pr, k) - dist(pe, k)))), role="prop")
            else:
                nz = sym.cur().ghost.get("nonzero_result")
                if nz is None:
                    yield Clause("zero_reference_distances_skipped", False, role="prop")
                    return
                m = c.len(nz)
                sel = nz.row
                yield Clause("one_value_per_pair_with_nonzero_reference_distance",
                             c.And(c.len(err) == m, c.len(ids) == m), role="prop", props=["C02", "C12"])
                yield Clause("skipped_exactly_the_zero_reference_distances", c.And(
                    c.forall(m, lambda q: c.And(0 <= sel(q), sel(q) < K, c.Not(c.eq(dist(pr, sel(q)), 0)))),
                    c.forall2(m, lambda x, y: sel(x) < sel(y)),
                    c.forall(K, lambda k: c.Implies(c.Not(c.eq(dist(pr, k), 0)), c.exists(m, lambda q: sel(q) == k)), "kk")),
                    role="prop")
                yield Clause("end_indices_line_up", c.forall(m, lambda q: ids.get(q) == J(sel(q))), role="prop",
                             props=["C02", "C12"])
                yield Clause("value_is_percentage_of_reference_distance", c.forall(m, lambda q: c.eq(
                    err.row(q), c.abs(dist(pr, sel(q)) - dist(pe, sel(q))) / dist(pr, sel(q)) * 100)), role="prop")
        else:
            E = sym.as_seq(a.self.E)
            yield Clause("one_value_per_pair", c.And(c.len(err) == K, c.len(ids) == K, c.len(E) == K), role="prop")
            yield Clause("end_indices_line_up", c.forall(K, lambda k: ids.get(k) == J(k)), role="prop")

            def rpe_term(k):
                qrel = spec.mul4(spec.inv_se3(Pr.get(I(k))), Pr.get(J(k)))
                prel = spec.mul4(spec.inv_se3(Pe.get(I(k))), Pe.get(J(k)))
                return spec.mul4(spec.inv_se3(qrel), prel)
            yield Clause("E_is_the_relative_motion_error", c.forall(K, lambda k: c.eq(E.get(k), rpe_term(k))), role="prop")
            yield Clause("value_is_the_definition_applied_to_E", c.forall(K, lambda k: c.eq(
                err.row(k), reduce_relation(c, rel, E.get(k)))), role="prop")
        yield Clause("trajectories_untouched", c.And(tm.unchanged_data(c, ref, old.ref), tm.unchanged_data(c, est, old.est)),
                     role="prop", props=["C02", "C16"])


def _no_pairs(c):
    g = sym.cur().ghost.get("raised:evo.core.metrics.id_pairs_from_delta")
    return bool(g)


# ---- statistics, unit change, result (C12) ------------------------------------------------------------------------

STATS = ["rmse", "mean", "median", "std", "min", "max", "sse"]
UNITS = ["none", "millimeters", "centimeters", "meters", "kilometers", "seconds", "degrees", "radians", "frames",
         "percent"]
METER = {"millimeters": sym.frac_of_float(1e-3), "centimeters": sym.frac_of_float(1e-2), "meters": 1,
         "kilometers": 1000}
ANGLE = ("degrees", "radians")


def mk_metric(c, relation="translation_part", n=None, cls="APE"):
    m = mod()
    pe = getattr(m, cls)(getattr(m.PoseRelation, relation))
    if n is None:
        n = c.int("n_err")
        c.assume(n >= 1)
    pe.error = c.array("err", n)
    pe._n = n
    return pe


def stat_definition(c, name, err, n):
    """the statistic's definition from the property statement, evaluated on the error array"""
    g = err.row
    if name == "rmse":
        return sym.ssqrt(npstub.prefix_sum(lambda k: g(k) * g(k))(n) / n)
    if name == "sse":
        return npstub.prefix_sum(lambda k: g(k) * g(k))(n)
    if name == "mean":
        return npstub.prefix_sum(lambda k: g(k))(n) / n
    if name == "std":
        mean = npstub.prefix_sum(lambda k: g(k))(n) / n
        return sym.ssqrt(npstub.prefix_sum(lambda k: (g(k) - mean) * (g(k) - mean))(n) / n)
    raise ValueError(name)


@register
class get_statistic(FnContract):
    name = M + "PE.get_statistic"
    props = ["C12"]

    def cases(self):
        return [{"stat": s} for s in STATS]

    def args(self, c, stat="rmse"):
        pe = mk_metric(c)
        return dict(self=pe, statistics_type=getattr(mod().StatisticsType, stat))

    def pre(self, c, a):
        yield ("error_values_exist", c.len(a.self.error) >= 1)

    def result(self, c, a):
        return c.real("stat_" + a.statistics_type.name)

    def post(self, c, a, res, old=None):
        err, name = a.self.error, a.statistics_type.name
        n = c.len(err)
        if name in ("rmse", "sse", "mean", "std"):
            yield Clause("equals_its_definition[%s]" % name, c.eq(res, stat_definition(c, name, err, n)), role="prop")
        elif name in ("min", "max"):
            cmp = (lambda x, y: x <= y) if name == "min" else (lambda x, y: x >= y)
            yield Clause("equals_its_definition[%s]" % name, c.And(
                c.forall(n, lambda k: cmp(res, err.row(k))), c.exists(n, lambda k: c.eq(err.row(k), res))), role="prop")
        else:
            med = sym.cur().ghost.get("median_of", [])
            yield Clause("is_the_median_of_the_error_values", len(med) == 1 and med[0][1]._cell[0] is err._cell[0]
                         and (res is med[0][0] or c.eq(res, med[0][0])), role="prop",
                         note="numpy.median is trusted (order statistic); min <= median <= max comes with it")


@register
class change_unit(FnContract):
    name = M + "PE.change_unit"
    props = ["C12"]

    def cases(self):
        return [{"old": o, "new": n} for o in UNITS for n in UNITS]

    def args(self, c, old="meters", new="meters"):
        U = L().load("evo.core.units").Unit
        n = c.int("n_err")
        c.assume(n >= 0)
        pe = mk_metric(c, n=n)
        pe.unit = getattr(U, old)
        return dict(self=pe, new_unit=getattr(U, new))

    def snapshot(self, c, a):
        return types.SimpleNamespace(err=a.self.error.copy(), err_obj=a.self.error, cell=a.self.error._cell[0],
                                     unit=a.self.unit, n=a.self._n)

    @staticmethod
    def _kind(o, n):
        if o == n:
            return "same"
        if o in ("none", "frames", "percent", "seconds"):
            return "refuse"
        if (o in ANGLE) != (n in ANGLE) and ((o in METER or o in ANGLE) and (n in METER or n in ANGLE)):
            return "refuse"
        if o in METER and n in METER:
            return "length"
        if o == "radians" and n == "degrees":
            return "rad2deg"
        if o == "degrees" and n == "radians":
            return "deg2rad"
        return "refuse"

    raises = (Raises("MetricsException", "conversion_refused",
                     lambda c, a: {"same": False, "refuse": True}.get(
                         change_unit._kind(a.self.unit.name, a.new_unit.name), a.self._n == 0),
                     role="prop", pre_state=True), )

    def post_raise(self, c, a, e, old):
        yield Clause("refused_conversion_leaves_values_and_unit_untouched", c.And(
            a.self.unit is old.unit, a.self.error is old.err_obj,
            True if a.self.error._cell[0] is old.cell else c.forall(old.n, lambda k: c.eq(a.self.error.row(k), old.err.row(k)))),
            role="prop")

    def post(self, c, a, res, old=None):
        kind = self._kind(old.unit.name, a.new_unit.name)
        err = a.self.error
        if kind == "same":
            yield Clause("same_unit_is_a_no_op", c.And(a.self.unit is old.unit, err is old.err_obj, err._cell[0] is old.cell),
                         role="prop")
            return
        yield Clause("unit_updated", a.self.unit is a.new_unit, role="prop")
        yield Clause("one_value_per_value", c.len(err) == old.n, role="prop")
        if kind == "length":
            f = sym.sdiv(METER[old.unit.name], METER[a.new_unit.name])
            yield Clause("multiplied_by_the_exact_conversion_factor", c.forall(old.n, lambda k: c.eq(
                err.row(k), old.err.row(k) * f)), role="prop")
        elif kind == "rad2deg":
            yield Clause("multiplied_by_the_exact_conversion_factor", c.forall(old.n, lambda k: c.eq(
                err.row(k), npstub.rad2deg(old.err.row(k)))), role="prop", note="rad2deg(x) = x * 180/pi (trusted numpy)")
        elif kind == "deg2rad":
            yield Clause("multiplied_by_the_exact_conversion_factor", c.forall(old.n, lambda k: c.eq(
                err.row(k), npstub.deg2rad(old.err.row(k)))), role="prop", note="deg2rad(x) = x * pi/180 (trusted numpy)")


@register
class get_result(FnContract):
    name = M + "PE.get_result"
    props = ["C12"]

    def cases(self):
        out = [{"cls": "APE", "relation": r} for r in RELATIONS if r != "point_distance_error_ratio"]
        out += [{"cls": "RPE", "relation": r} for r in RELATIONS]
        return out

    def args(self, c, cls="APE", relation="translation_part"):
        pe = mk_metric(c, relation, cls=cls)
        return dict(self=pe, ref_name="reference", est_name="estimate")

    def snapshot(self, c, a):
        return types.SimpleNamespace(cell=a.self.error._cell[0], err=a.self.error)

    def post(self, c, a, res, old=None):
        pe = a.self
        n = c.len(pe.error)
        yield Clause("exactly_the_seven_statistics", isinstance(res.stats, dict) and sorted(res.stats) == sorted(STATS),
                     role="prop")
        for name in ("rmse", "sse", "mean", "std"):
            if name in res.stats:
                yield Clause("statistic_equals_its_definition[%s]" % name,
                             c.eq(res.stats[name], stat_definition(c, name, pe.error, n)), role="prop")
        for name, cmp in (("min", lambda x, y: x <= y), ("max", lambda x, y: x >= y)):
            if name in res.stats:
                r = res.stats[name]
                yield Clause("statistic_equals_its_definition[%s]" % name, c.And(
                    c.forall(n, lambda k: cmp(r, pe.error.row(k))), c.exists(n, lambda k: c.eq(pe.error.row(k), r))),
                    role="prop")
        yield Clause("error_array_is_the_metric's_values", res.np_arrays.get("error_array") is pe.error, role="prop")
        yield Clause("values_untouched", pe.error._cell[0] is old.cell, role="prop", props=["C12", "C16"])
        label, title = res.info.get("label", ""), res.info.get("title", "")
        cname = type(pe).__name__
        yield Clause("label_names_metric_and_unit", isinstance(label, str) and cname in label and pe.unit.value in label,
                     role="prop")
        yield Clause("title_names_metric_relation_and_unit", isinstance(title, str) and cname in title and
                     pe.pose_relation.value in title and pe.unit.value in title, role="prop")
