"""Symbolic PosePath3D / PoseTrajectory3D objects: instances of the *real* classes (loaded from /repo's AST)
whose fields hold symbolic arrays of symbolic length."""
from pyvc import sym

TRAJ = "evo.core.trajectory"


def mk_traj(c, L, name, mode="poses", stamps=True, n=None, cls=None):
    """mode: 'poses' (built from matrices), 'xyzquat' (built from positions + quaternions)"""
    mod = L.load(TRAJ)
    cls = cls or (mod.PoseTrajectory3D if stamps else mod.PosePath3D)
    t = object.__new__(cls)
    if n is None:
        n = c.int(name + "_n")
        c.assume(n >= 1)       # the constructors refuse empty pose data
    if mode in ("poses", "all"):
        t._poses_se3 = c.seq(name + "_P", n, (4, 4))
    if mode in ("xyzquat", "all"):
        t._positions_xyz = c.array(name + "_xyz", n, (3, ))
        t._orientations_quat_wxyz = c.array(name + "_q", n, (4, ))
    if stamps:
        t.timestamps = c.array(name + "_t", n)
    t.meta = {}
    t._projected = False
    t._n = n
    return t


def views(t):
    """the stored representations of a trajectory object as {field: (length, element function)}"""
    out = {}
    for f in ("_poses_se3", "_positions_xyz", "_orientations_quat_wxyz", "timestamps"):
        if f in t.__dict__:
            v = t.__dict__[f]
            s = sym.as_seq(v)
            out[f] = (s.length(), s.get, v)
    return out


def snapshot(t):
    """frozen copy of the stored representations (for frame conditions)"""
    snap = {}
    for f, (n, get, obj) in views(t).items():
        cell = obj._cell[0] if isinstance(obj, sym.SArr) else obj._get
        snap[f] = (n, cell, obj)
    return snap


def unchanged(c, t, snap):
    """every stored representation of t is the same object with the same content as in the snapshot"""
    conds = []
    now = views(t)
    if set(now) != set(snap):
        return False
    for f, (n0, cell0, obj0) in snap.items():
        n, get, obj = now[f]
        if obj is not obj0:
            return False
        cell = obj._cell[0] if isinstance(obj, sym.SArr) else obj._get
        if cell is cell0 and (n is n0 or (isinstance(n, int) and n == n0)):
            continue
        old = sym.SSeq(n0, cell0)
        conds.append(n == n0)
        conds.append(c.forall(n0, lambda k: c.eq(get(k), old.get(k))))
    return c.And(*conds) if conds else True


def unchanged_data(c, t, snap):
    """every representation stored before still is the same object with the same content (lazily computed caches
    may have been added: reading a trajectory materialises them)"""
    conds = []
    now = views(t)
    for f, (n0, cell0, obj0) in snap.items():
        if f not in now:
            return False
        n, get, obj = now[f]
        if obj is not obj0:
            return False
        cell = obj._cell[0] if isinstance(obj, sym.SArr) else obj._get
        if cell is cell0:
            continue
        old = sym.SSeq(n0, cell0)
        conds.append(n == n0)
        conds.append(c.forall(n0, lambda k, get=get, old=old: c.eq(get(k), old.get(k))))
    return c.And(*conds) if conds else True


def shares_storage(r, t):
    """ownership (C16): r holds a stored representation of t itself, or a pose list whose element matrices are
    t's own matrix objects (a slice / shallow copy of t's list) -- an in-place operation on one would then be
    visible through the other"""
    if r is t:
        return True
    for f, v in r.__dict__.items():
        w = t.__dict__.get(f)
        if w is None or not isinstance(v, (sym.SArr, sym.SSeq)):
            continue
        if v is w:
            return True
        if isinstance(v, sym.SSeq) and isinstance(w, sym.SSeq) and (v.owners & w.owners):
            return True
    return False
