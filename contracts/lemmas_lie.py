"""Lemmas over the contracts of evo/core/lie_algebra.py and over the spec functions (group laws)."""
from fractions import Fraction

import numpy as np
import z3

from pyvc import spec, npstub, sym
from pyvc.lemma import lemma
from contracts.lie_algebra import so3_accept

LIE = "evo.core.lie_algebra"


def se3_sym(c, name):
    p = c.matrix(name, 4, 4)
    return p


def assume_SE3(l, p):
    l.assume_all(spec.is_SE3_exact(p))


def assume_SO3(l, r):
    l.assume_all(spec.is_SO3_exact(r))


@lemma("hat_vee_inverse", ["C09"], uses=[LIE + ".hat", LIE + ".vee"])
def _(l):
    lie = l.module(LIE)
    v = l.c.matrix("v", 3)
    l.prove("vee(hat(v))==v", l.c.eq(lie.vee(lie.hat(v)), v))
    m = l.c.matrix("m", 3, 3)
    # m skew-symmetric
    for i in range(3):
        for j in range(3):
            l.assume(m[i, j] == -m[j, i])
    l.prove("hat(vee(m))==m_for_skew_m", l.c.eq(lie.hat(lie.vee(m)), m))


@lemma("se3_inverse_is_group_inverse", ["C09", "C01", "C02", "C04", "C15"], uses=[LIE + ".se3_inverse"])
def _(l):
    lie = l.module(LIE)
    p = l.c.matrix("P", 4, 4)
    assume_SE3(l, p)
    inv = lie.se3_inverse(p)
    l.prove("P*inv(P)==I", l.c.eq(spec.mul4(p, inv), spec.eye(4)))
    l.prove("inv(P)*P==I", l.c.eq(spec.mul4(inv, p), spec.eye(4)))
    for i, cl in enumerate(spec.is_SE3_exact(inv)):
        l.prove("inv(P)_in_SE3_%d" % i, cl, role="aux")


@lemma("relative_se3_laws", ["C09", "C01", "C02"], uses=[LIE + ".relative_se3"])
def _(l):
    lie = l.module(LIE)
    a = l.c.matrix("A", 4, 4)
    assume_SE3(l, a)
    l.prove("rel(A,A)==I", l.c.eq(lie.relative_se3(a, a), spec.eye(4)))
    b = l.c.matrix("B", 4, 4)
    assume_SE3(l, b)
    # rel(A,B) = A^-1 B  means  A * rel(A,B) = B
    l.prove("A*rel(A,B)==B", l.c.eq(spec.mul4(a, lie.relative_se3(a, b)), b))


@lemma("relative_so3_laws", ["C09", "C10", "C11"], uses=[LIE + ".relative_so3"])
def _(l):
    lie = l.module(LIE)
    r = l.c.matrix("R", 3, 3)
    assume_SO3(l, r)
    l.prove("rel(R,R)==I", l.c.eq(lie.relative_so3(r, r), spec.eye(3)))
    q = l.c.matrix("Q", 3, 3)
    l.prove("R*rel(R,Q)==Q", l.c.eq(spec.mul3(r, lie.relative_so3(r, q)), q))


@lemma("se3_closed_under_product", ["C09", "C08"], role="aux")
def _(l):
    a, b = l.c.matrix("A", 4, 4), l.c.matrix("B", 4, 4)
    assume_SE3(l, a)
    assume_SE3(l, b)
    ab = spec.mul4(a, b)
    for i, cl in enumerate(spec.is_SE3_exact(ab)):
        if i < 18:   # orthonormality and bottom row; det handled separately (multiplicativity)
            l.prove("AB_in_SE3_%d" % i, cl)
    ra, rb = spec.mk(spec.rot(a)), spec.mk(spec.rot(b))
    l.prove("det_multiplicative", spec.det3(spec.mul3(ra, rb)) == spec.det3(ra) * spec.det3(rb))


def cbrt_unique(l, d, s):
    """trusted fact about numpy.power(x, 1/3) on x > 0: the real cube root is unique, so s^3 = d gives cbrt(d) = s.
    Only used after d == s^3 has been proved (kept hypothesis)."""
    l.ctx.axiom(z3.Implies(sym._term(s * s * s == d), sym._term(sym.scbrt(d) == s)), "cbrt.unique")
    l.prove("cbrt(det)==s", sym.scbrt(d) == s, role="aux", keep=True)


def sim3_sym(l, name):
    """a = [sR t; 0 1] with R in SO(3), s > 0, built by the real lie.sim3"""
    lie = l.module(LIE)
    r = l.c.matrix(name + "_R", 3, 3)
    assume_SO3(l, r)
    t = l.c.matrix(name + "_t", 3)
    s = l.c.real(name + "_s")
    l.assume(s > 0)
    return lie.sim3(r, t, s), r, t, s


@lemma("sim3_scale_recovered", ["C09"], uses=[LIE + ".sim3_scale", LIE + ".sim3"])
def _(l):
    lie = l.module(LIE)
    a, r, t, s = sim3_sym(l, "a")
    d = npstub.det(a[:3, :3])
    l.prove("det(sR)==s^3", d == s * s * s, role="aux", keep=True)
    sc = lie.sim3_scale(a)
    # trusted fact about the real cube root (numpy.power(x, 1/3) for x > 0): it is the unique real w with w^3 = x
    cbrt_unique(l, d, s)
    l.prove("sim3_scale(a)==s", sc == s)


@lemma("sim3_inverse_is_inverse", ["C09", "C15"], uses=[LIE + ".sim3_inverse", LIE + ".sim3"])
def _(l):
    lie = l.module(LIE)
    a, r, t, s = sim3_sym(l, "a")
    d = npstub.det(a[:3, :3])
    l.prove("det(sR)==s^3", d == s * s * s, role="aux", keep=True)
    cbrt_unique(l, d, s)
    inv = lie.sim3_inverse(a)
    l.prove("a*inv(a)==I", l.c.eq(spec.mul4(a, inv), spec.eye(4)))
    l.prove("inv(a)*a==I", l.c.eq(spec.mul4(inv, a), spec.eye(4)))
    # scale of the inverse is 1/s
    di = npstub.det(inv[:3, :3])
    l.prove("det(inv)==1/s^3", di * s * s * s == 1, role="aux")


@lemma("membership_accepts_genuine", ["C09"], uses=[LIE + ".is_so3", LIE + ".is_se3", LIE + ".is_sim3"])
def _(l):
    lie = l.module(LIE)
    r = l.c.matrix("R", 3, 3)
    assume_SO3(l, r)
    l.prove("is_so3(R)_for_R_in_SO3", lie.is_so3(r) == True)
    p = l.c.matrix("P", 4, 4)
    assume_SE3(l, p)
    l.prove("is_se3(P)_for_P_in_SE3", lie.is_se3(p) == True)


@lemma("membership_accepts_sim3", ["C09"], uses=[LIE + ".is_sim3", LIE + ".sim3"])
def _(l):
    lie = l.module(LIE)
    a, r, t, s = sim3_sym(l, "a")
    d = npstub.det(a[:3, :3])
    l.prove("det(sR)==s^3", d == s * s * s, role="aux", keep=True)
    cbrt_unique(l, d, s)
    l.prove("det>0", d > 0, role="aux", keep=True)
    cb = sym.scbrt(d)
    for i in range(3):
        for j in range(3):
            l.prove("unscaled_%d%d==R_%d%d" % (i, j, i, j), a[i, j] * (1 / cb) == r[i, j], role="aux", keep=True)
    unscaled = spec.mk([[a[i, j] * (1 / cb) for j in range(3)] for i in range(3)])
    accept_steps(l, unscaled, "unscaled")
    l.prove("is_sim3(a)_for_a_in_Sim3", lie.is_sim3(a) == True)


@lemma("membership_rejects", ["C09"], uses=[LIE + ".is_so3", LIE + ".is_se3"])
def _(l):
    lie = l.module(LIE)
    # reflection: orthogonal with det -1
    m = l.c.matrix("M", 3, 3)
    for cl in spec.is_SO3_exact(m)[:18]:
        l.assume(cl)
    l.assume(spec.det3(m) == -1)
    l.prove("reflection_rejected", lie.is_so3(m) == False)
    # wrong bottom row
    p = l.c.matrix("P", 4, 4)
    l.assume(l.c.Not(l.c.And(p[3, 0] == 0, p[3, 1] == 0, p[3, 2] == 0, p[3, 3] == 1)))
    l.prove("wrong_bottom_row_rejected", lie.is_se3(p) == False)


@lemma("membership_rejects_scaled", ["C09"], uses=[LIE + ".is_so3"])
def _(l):
    lie = l.module(LIE)
    r = l.c.matrix("R", 3, 3)
    assume_SO3(l, r)
    s = l.c.real("s")
    sr = spec.mk([[s * r[i, j] for j in range(3)] for i in range(3)])
    d = npstub.det(sr)
    l.prove("det(sR)==s^3", d == s * s * s, role="aux", keep=True)
    tol = Fraction(11, 10**6)
    l.assume(l.c.abs(s * s * s - 1) > tol)
    l.prove("scaled_rotation_rejected", lie.is_so3(sr) == False)
    # sheared / non-orthogonal: some entry of R^T R off by more than the tolerance
    m = l.c.matrix("M", 3, 3)
    mtm = np.dot(np.asarray(m).T, np.asarray(m))
    l.assume(l.c.abs(mtm[0, 1]) > Fraction(1, 10**6))
    l.prove("sheared_block_rejected", lie.is_so3(m) == False)


def accept_steps(l, m, tag):
    """m is (provably) an exact rotation => the acceptance test of is_so3 passes.  Steps kept in the form the test
    uses: (m^T m)_ij = delta_ij, det m = 1."""
    rtr = np.dot(np.asarray(m).T, np.asarray(m))
    for i in range(3):
        for j in range(i, 3):
            l.prove("%s_RtR_%d%d" % (tag, i, j), rtr[i, j] == (1 if i == j else 0), role="aux", keep=True)
            if i != j:
                l.prove("%s_RtR_%d%d" % (tag, j, i), rtr[j, i] == 0, role="aux", keep=True)
    l.prove("%s_det" % tag, npstub.det(m) == 1, role="aux", keep=True)
    l.prove("%s_accepted" % tag, so3_accept(l.c, m), role="aux", keep=True)


def _rel_facts(l, lie, r1, r2, tag):
    """relative_so3 of two rotations is a rotation, hence accepted by is_so3 (kept)"""
    rel = lie.relative_so3(r1, r2)
    accept_steps(l, rel, tag)
    return rel


@lemma("angle_metric_laws", ["C09"], uses=[LIE + ".so3_log_angle", LIE + ".relative_so3"])
def _(l):
    """dist(R1,R2) = so3_log_angle(relative_so3(R1,R2)): values in [0, pi], symmetric, zero for equal rotations
    (the triangle inequality and 'zero only for equal' are not within reach: bounded only)"""
    lie = l.module(LIE)
    r1, r2 = l.c.matrix("R1", 3, 3), l.c.matrix("R2", 3, 3)
    assume_SO3(l, r1)
    assume_SO3(l, r2)
    rel12 = _rel_facts(l, lie, r1, r2, "rel12")
    rel21 = _rel_facts(l, lie, r2, r1, "rel21")
    d12 = lie.so3_log_angle(rel12)
    d21 = lie.so3_log_angle(rel21)
    pi = sym.pi_axiom()
    l.prove("range", l.c.And(d12 >= 0, d12 <= pi))
    l.prove("trace_symmetric", rel12[0, 0] + rel12[1, 1] + rel12[2, 2] == rel21[0, 0] + rel21[1, 1] + rel21[2, 2],
            role="aux", keep=True)
    l.prove("symmetric", d12 == d21)


@lemma("angle_zero_for_equal", ["C09"], uses=[LIE + ".so3_log_angle", LIE + ".relative_so3"])
def _(l):
    lie = l.module(LIE)
    r1 = l.c.matrix("R1", 3, 3)
    assume_SO3(l, r1)
    relii = lie.relative_so3(r1, r1)
    l.prove("rel(R,R)==I", l.c.eq(relii, spec.eye(3)), role="aux", keep=True)
    l.prove("relii_accepted", so3_accept(l.c, relii), role="aux", keep=True)
    l.prove("zero_for_equal", lie.so3_log_angle(relii) == 0)


@lemma("angle_bi_invariant", ["C09"], uses=[LIE + ".relative_so3"])
def _(l):
    """dist(A R1, A R2) = dist(R1, R2) = dist(R1 A, R2 A): the relative rotation is unchanged under a common left
    factor, and its trace (hence its angle) under a common right factor"""
    lie = l.module(LIE)
    r1, r2, a = l.c.matrix("R1", 3, 3), l.c.matrix("R2", 3, 3), l.c.matrix("A", 3, 3)
    assume_SO3(l, a)
    rel12 = lie.relative_so3(r1, r2)
    ar1, ar2 = spec.mul3(a, r1), spec.mul3(a, r2)
    l.prove("left_invariant_rel", l.c.eq(lie.relative_so3(ar1, ar2), rel12))
    r1b, r2b = spec.mul3(r1, a), spec.mul3(r2, a)
    relb = lie.relative_so3(r1b, r2b)
    l.prove("right_invariant_trace", relb[0, 0] + relb[1, 1] + relb[2, 2] == rel12[0, 0] + rel12[1, 1] + rel12[2, 2])
