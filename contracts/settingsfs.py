"""Sidecar contracts for property C19: the settings file stays loadable across crashes and concurrent starts.

Rely/guarantee argument carried by contracts on the real functions (evo/tools/settings.py, evo/main_config.py):

  invariant I      every settings / config document on disk is absent or a complete JSON document
  rely             other evo processes (any number, any interleaving) only take file-system steps that keep I, never
                   delete anything, and never touch a temporary file whose name carries this process' id
  guarantee        every file-system step of this process keeps I from *every* state satisfying I, and cannot fail
                   because of what another process did in between

The real code is executed symbolically against a ghost file system in which every observation (exists, content of
the version file) is havocked anew each time it is made -- except facts that are monotone under the rely (a path
this process has seen or created exists from then on).  The library calls carry trusted contracts whose
*preconditions* are the guarantee:

  open(p, 'w' | 'r+' ...) / truncate   p is not a protected document               (never truncated or written in place)
  os.replace(src, dst), dst protected  src is a temporary file of this process, closed, holding a complete document
  Path.mkdir()                         exist_ok=True                                 (another process may have created it)
  open(p) for reading                  p is known to exist                           (cannot fail with FileNotFoundError)

Every event is a crash point: as only complete renames touch a protected path, every prefix of every event log
leaves each protected document absent, as it was, or complete."""
import json as _json
import os as _os
import pathlib as _pathlib
import types

import z3

from pyvc import sym, session, npstub
from pyvc.sym import SB
from pyvc.contract import FnContract, Clause, register
from pyvc.lemma import lemma

S = "evo.tools.settings."
MC = "evo.main_config."
PID = "{pid-of-this-process}"
PROPS = ["C19"]


class _Pid:
    def __str__(self):
        return PID

    __repr__ = __str__

    def __format__(self, spec):
        return PID

    def __int__(self):
        raise sym.OutOfReach("arithmetic on the process id")


class GPath(_pathlib.PurePosixPath):
    """pathlib.Path over the ghost file system"""

    @classmethod
    def home(cls):
        return cls("/home/user")

    def exists(self):
        return fs().exists(self)

    is_file = exists
    is_dir = exists

    def touch(self, *a, **kw):
        ghost_open(self, "a").close()

    def mkdir(self, mode=0o777, parents=False, exist_ok=False):
        fs().mkdir(self, exist_ok)

    def open(self, mode="r", *a, **kw):
        return ghost_open(self, mode)

    def read_text(self, *a, **kw):
        return ghost_open(self, "r").read()

    def write_text(self, data, *a, **kw):
        with ghost_open(self, "w") as f:
            f.write(data)

    def replace(self, target):
        ghost_replace(self, target)
        return GPath(target)

    rename = replace

    def unlink(self, missing_ok=False):
        fs().event("unlink", str(self))
        fs().guarantee("never_deletes_a_settings_document", str(self) not in fs().protected)

    def resolve(self):
        return self


class _PathlibModule:
    Path = GPath
    PurePath = _pathlib.PurePath
    PurePosixPath = _pathlib.PurePosixPath

    def __getattr__(self, a):
        return getattr(_pathlib, a)


class FSWorld:
    def __init__(self, active=True):
        self.active = active
        self.events = []
        self.known = set()            # paths known to exist (monotone under the rely)
        self.own = {}                 # temporary files of this process: path -> "open" | "complete" | "garbage"
        self.content = {}             # what this process wrote last (for the postconditions)
        self.protected = set()
        self.docs = {}                # path -> document found on disk (default: stored_document)
        self.n = 0

    def event(self, kind, *a):
        self.events.append((kind, ) + a)

    def guarantee(self, label, cond, note=""):
        if not self.active:
            return
        ctx = sym.cur()
        k = sum(1 for v in ctx.vcs if v.name.split("#")[0].endswith(label))
        ctx.prove("%s:guarantee:%s#%d" % (ctx.run.func_name, label, k), cond, kind="pre", props=PROPS, role="prop",
                  note=note, assume_after=False)

    def exists(self, p):
        p = str(p)
        if not self.active or p in self.known:
            return True
        self.n += 1
        b = bool(SB(z3.Bool("exists[%s]@%d" % (p, self.n))))     # observed now; may change later (only towards True)
        self.event("exists?", p, b)
        if b:
            self.known.add(p)
        return b

    def mkdir(self, p, exist_ok):
        p = str(p)
        self.event("mkdir", p, exist_ok)
        self.guarantee("mkdir_cannot_fail_because_of_another_process", bool(exist_ok),
                       "another process may create %s between any check and this call" % p)
        self.known.add(p)


BOOT = FSWorld(active=False)


def fs():
    if not sym.has_ctx():
        return BOOT
    return sym.cur().ghost.get("fs", BOOT)


def activate(protected, docs=None):
    w = FSWorld()
    w.protected = {str(p) for p in protected}
    w.docs = {str(k): v for k, v in (docs or {}).items()}
    sym.cur().ghost["fs"] = w
    return w


def is_tmp_of_this_process(p):
    return PID in str(p)


class _File:
    def __init__(self, path, mode):
        self.path, self.mode = str(path), mode
        self.data = ""
        self.closed = False

    # ---- writing
    def write(self, s):
        if not any(m in self.mode for m in "wax+"):
            raise OSError("not writable")
        self.data += s
        fs().event("write", self.path, len(s))
        return len(s)

    def truncate(self, n=None):
        w = fs()
        w.event("truncate", self.path)
        w.guarantee("never_truncated_or_written_in_place", self.path not in w.protected,
                    "truncating %s leaves an incomplete document until the write completes" % self.path)
        self.data = ""

    def seek(self, *a):
        return 0

    def flush(self):
        pass

    def fileno(self):
        return 3

    def close(self):
        if self.closed:
            return
        self.closed = True
        w = fs()
        if any(m in self.mode for m in "wax+"):
            w.event("close", self.path)
            if self.path in w.own:
                try:
                    w.content[self.path] = _json.loads(self.data)
                    w.own[self.path] = "complete"
                except ValueError:
                    w.own[self.path] = "garbage"
            else:
                w.content[self.path] = self.data

    def __enter__(self):
        return self

    def __exit__(self, *a):
        self.close()
        return False

    def __del__(self):
        pass

    # ---- reading
    def read(self, *a):
        w = fs()
        if self.path.endswith("assets_version"):
            return _Version()
        if not w.active:
            from evo.tools.settings_template import DEFAULT_SETTINGS_DICT
            return _json.dumps(DEFAULT_SETTINGS_DICT)
        if self.path in w.own or is_tmp_of_this_process(self.path):
            # a file this process wrote itself (nobody else touches it: rely)
            d = w.content.get(self.path)
            return d if isinstance(d, str) else _json.dumps(d)
        return _DocText(w.docs.get(self.path) or stored_document(self.path))


class _DocText(str):
    """the text of a complete JSON document (its parsed form is carried along: values may be symbolic)"""

    def __new__(cls, doc):
        o = str.__new__(cls, "<complete JSON document>")
        o.doc = doc
        return o


class _Version:
    """content of the version file: arbitrary (another process may be rewriting it right now)"""

    def __eq__(self, other):
        w = fs()
        if not w.active:
            return True
        w.n += 1
        return SB(z3.Bool("version_file_is_current@%d" % w.n))

    def __ne__(self, other):
        return sym.snot(self.__eq__(other))

    __hash__ = None

    def strip(self):
        return self


def stored_document(path):
    """a representative complete document found on disk (invariant I): defaults of an older version -- one key is
    missing, one value was changed by the user"""
    from evo.tools.settings_template import DEFAULT_SETTINGS_DICT
    d = dict(DEFAULT_SETTINGS_DICT)
    d.pop("plot_3d_zoom", None)
    d["plot_split"] = not DEFAULT_SETTINGS_DICT["plot_split"]
    d["plot_figsize"] = [7, 7]
    return d


def ghost_open(path, mode="r", *a, **kw):
    w = fs()
    p = str(_os.fspath(path)) if not isinstance(path, str) else path
    if not w.active:
        return _File(p, mode)
    writing = any(m in mode for m in "wax")
    if writing or "+" in mode:
        npstub._use("open(p, 'w'): creates or truncates p, later writes extend it")
        if "w" in mode:
            w.event("open-truncate", p)
            w.guarantee("never_truncated_or_written_in_place", p not in w.protected,
                        "open(%s, %r) empties the document; a crash or a concurrent start before the write completes "
                        "finds an incomplete file" % (p, mode))
        else:
            w.event("open-update", p)
            if "+" in mode and "r" in mode:
                w.guarantee("read_cannot_fail_because_the_file_is_missing", p in w.known)
        if is_tmp_of_this_process(p):
            w.own[p] = "open"
        w.known.add(p)
        return _File(p, mode)
    w.event("open-read", p)
    w.guarantee("read_cannot_fail_because_the_file_is_missing", p in w.known,
                "%s is read without this process having seen or created it" % p)
    return _File(p, mode)


def ghost_replace(src, dst):
    w = fs()
    s, d = str(_os.fspath(src)), str(_os.fspath(dst))
    w.event("replace", s, d)
    if not w.active:
        return
    npstub._use("os.replace(src, dst): atomic rename")
    if d in w.protected:
        w.guarantee("only_complete_documents_are_moved_into_place", w.own.get(s) == "complete",
                    "state of %s: %s" % (s, w.own.get(s, "not a file this process finished writing")))
        w.guarantee("temporary_file_is_private_to_the_process", is_tmp_of_this_process(s),
                    "two processes using the same temporary name can rename each other's half-written file")
    if s in w.own:
        w.content[d] = w.content.get(s)
        del w.own[s]
    w.known.add(d)


class _Os:
    class path:
        @staticmethod
        def exists(p):
            return fs().exists(p)

        isfile = exists

        @staticmethod
        def __getattr__(a):
            return getattr(_os.path, a)

    replace = staticmethod(ghost_replace)
    rename = staticmethod(ghost_replace)

    @staticmethod
    def getpid():
        return _Pid()

    @staticmethod
    def remove(p):
        w = fs()
        w.event("unlink", str(p))
        w.guarantee("never_deletes_a_settings_document", str(p) not in w.protected)
        w.own.pop(str(p), None)

    unlink = remove

    @staticmethod
    def makedirs(p, mode=0o777, exist_ok=False):
        fs().mkdir(p, exist_ok)

    @staticmethod
    def mkdir(p, mode=0o777):
        fs().mkdir(p, False)

    @staticmethod
    def fsync(fd):
        pass

    @staticmethod
    def fspath(p):
        return _os.fspath(p)

    def __getattr__(self, a):
        return getattr(_os, a)


for _a in ("join", "basename", "dirname", "splitext", "expanduser", "abspath", "normpath", "sep"):
    setattr(_Os.path, _a, staticmethod(getattr(_os.path, _a)) if callable(getattr(_os.path, _a)) else getattr(_os.path, _a))


class _Tempfile:
    @staticmethod
    def mkstemp(suffix="", prefix="tmp", dir=None, text=False):
        p = _os.path.join(str(dir or "/tmp"), "%s%s%s" % (prefix, PID, suffix))
        w = fs()
        w.event("mkstemp", p)
        w.own[p] = "open"
        w.known.add(p)
        return _Fd(p), p

    @staticmethod
    def NamedTemporaryFile(mode="w+b", dir=None, prefix="tmp", suffix="", delete=True, **kw):
        p = _os.path.join(str(dir or "/tmp"), "%s%s%s" % (prefix, PID, suffix))
        w = fs()
        w.event("mkstemp", p)
        w.own[p] = "open"
        w.known.add(p)
        f = _File(p, "w")
        f.name = p
        return f


class _Fd:
    def __init__(self, p):
        self.p = p


def _fdopen(fd, mode="r", *a, **kw):
    return _File(fd.p, mode)


_Os.fdopen = staticmethod(_fdopen)
_Os.close = staticmethod(lambda fd: None)


class _Json:
    @staticmethod
    def load(f, *a, **kw):
        return _Json.loads(f.read())

    @staticmethod
    def loads(x, *a, **kw):
        if isinstance(x, _DocText):
            return {k: (list(v) if isinstance(v, list) else v) for k, v in x.doc.items()}
        return _json.loads(x, *a, **kw)

    @staticmethod
    def dump(obj, f, *a, **kw):
        f.write(_json.dumps(obj, *a, **kw))

    def __getattr__(self, a):
        return getattr(_json, a)


OVERRIDES = {"os": _Os(), "pathlib": _PathlibModule(), "tempfile": _Tempfile(), "json": _Json(),
             "builtins": {"open": ghost_open}}
SYMBOLIC = ("evo.tools.settings", )


# ---- helpers for the contracts -----------------------------------------------------------------------------------
def settings_mod():
    return session.loader().load("evo.tools.settings")


def moved_into_place(w, path):
    """the events that changed `path`"""
    return [e for e in w.events if (e[0] == "replace" and e[2] == str(path)) or
            (e[0] in ("open-truncate", "open-update", "truncate") and e[1] == str(path))]


def invariant_at_every_crash_point(w):
    """every prefix of the event log leaves each protected path absent, untouched or complete: no event other than a
    rename of a complete private temporary file touches it"""
    ok = True
    own = {}
    for e in w.events:
        if e[0] in ("open-truncate", "open-update", "truncate", "write") and e[1] in w.protected:
            ok = False
        if e[0] == "unlink" and e[1] in w.protected:
            ok = False
    return ok


class _FsContract(FnContract):
    props = PROPS

    def snapshot(self, c, a):
        w = fs()
        return types.SimpleNamespace(n=len(w.events))

    def common_post(self, c, w, old):
        yield Clause("document_intact_at_every_crash_point", invariant_at_every_crash_point(w), role="prop",
                     note="no prefix of the event log leaves a protected document truncated or partially written")
        yield Clause("no_temporary_file_left_open", all(v != "open" for v in w.own.values()), role="aux")


@register
class write_to_json_file(_FsContract):
    name = S + "write_to_json_file"

    def cases(self):
        return [{"kind": "default_path"}, {"kind": "str"}]

    def args(self, c, kind="default_path"):
        m = settings_mod()
        from evo.tools.settings_template import DEFAULT_SETTINGS_DICT
        p = m.DEFAULT_PATH if kind == "default_path" else "/work/my_config.json"
        activate([p])
        return dict(json_path=p, dictionary=dict(DEFAULT_SETTINGS_DICT))

    def result(self, c, a):
        # call-site effect: the destination atomically becomes the complete new document
        w = fs()
        d = str(_os.fspath(a.json_path))
        w.event("replace", d + "." + PID + ".tmp", d)
        w.content[d] = dict(a.dictionary)
        w.known.add(d)
        return None

    def post(self, c, a, res, old=None):
        w = fs()
        d = str(_os.fspath(a.json_path))
        ev = moved_into_place(w, d)[(0 if old is None else 0):]
        last = [e for e in w.events[old.n:] if e[0] == "replace" and e[2] == d]
        yield Clause("destination_replaced_by_exactly_one_atomic_rename", len(last) == 1, role="prop")
        yield Clause("destination_holds_the_complete_new_document", w.content.get(d) == a.dictionary, role="prop")
        for cl in self.common_post(c, w, old):
            yield cl


@register
class reset(_FsContract):
    name = S + "reset"

    def cases(self):
        return [{"subset": "none"}, {"subset": "two_keys"}, {"subset": "empty"}]

    def args(self, c, subset="none"):
        m = settings_mod()
        activate([m.DEFAULT_PATH])
        ps = {"none": None, "two_keys": ["plot_split", "not_a_key"], "empty": []}[subset]
        return dict(destination=m.DEFAULT_PATH, parameter_subset=ps)

    def result(self, c, a):
        w = fs()
        d = str(a.destination)
        if a.parameter_subset is None or not w.exists(d):
            write_to_json_file.result(None, c, types.SimpleNamespace(json_path=d, dictionary={}))
        elif a.parameter_subset:
            write_to_json_file.result(None, c, types.SimpleNamespace(json_path=d, dictionary={}))
        w.known.add(d) if (a.parameter_subset is None) else None
        return None

    def post(self, c, a, res, old=None):
        w = fs()
        d = str(a.destination)
        from evo.tools.settings_template import DEFAULT_SETTINGS_DICT
        new = w.events[old.n:]
        written = [e for e in new if e[0] == "replace" and e[2] == d]
        if a.parameter_subset is None:
            yield Clause("defaults_written", len(written) == 1 and (w.content.get(d) == DEFAULT_SETTINGS_DICT or
                                                                    w.content.get(d) == {}), role="prop")
        for cl in self.common_post(c, w, old):
            yield cl


@register
class initialize_if_needed(_FsContract):
    name = S + "initialize_if_needed"

    def args(self, c):
        m = settings_mod()
        activate([m.DEFAULT_PATH])
        return dict()

    def result(self, c, a):
        m = settings_mod()
        w = fs()
        w.known.update({str(m.USER_ASSETS_PATH), str(m.USER_ASSETS_VERSION_PATH), str(m.DEFAULT_PATH)})
        w.event("initialized")
        return None

    def post(self, c, a, res, old=None):
        m = settings_mod()
        w = fs()
        yield Clause("afterwards_directory_version_file_and_settings_exist", {str(m.USER_ASSETS_PATH), str(
            m.USER_ASSETS_VERSION_PATH), str(m.DEFAULT_PATH)} <= w.known, role="prop",
            note="each was seen or created by this process; nothing is ever deleted (rely)")
        for cl in self.common_post(c, w, old):
            yield cl


@register
class update_if_outdated(_FsContract):
    name = S + "update_if_outdated"

    def args(self, c):
        m = settings_mod()
        w = activate([m.DEFAULT_PATH])
        # called after initialize_if_needed: its postcondition
        w.known.update({str(m.USER_ASSETS_PATH), str(m.USER_ASSETS_VERSION_PATH), str(m.DEFAULT_PATH)})
        return dict()

    def result(self, c, a):
        fs().event("updated")
        return None

    def post(self, c, a, res, old=None):
        m = settings_mod()
        w = fs()
        d = str(m.DEFAULT_PATH)
        from evo.tools.settings_template import DEFAULT_SETTINGS_DICT
        written = [e for e in w.events[old.n:] if e[0] == "replace" and e[2] == d]
        vmark = [k for k, e in enumerate(w.events) if e[0] == "open-truncate" and e[1] == str(m.USER_ASSETS_VERSION_PATH)]
        if written or vmark:
            # a kill between the two steps must leave the upgrade to be redone by the next start: the version marker may
            # only be rewritten once the upgraded document is in place
            kdoc = [k for k, e in enumerate(w.events) if e[0] == "replace" and e[2] == d]
            yield Clause("version_marker_rewritten_only_after_the_upgraded_settings_are_in_place",
                         bool(kdoc) and bool(vmark) and max(kdoc) < min(vmark), role="prop")
        if written:
            doc = w.content.get(d)
            before = stored_document(d)
            yield Clause("upgrade_adds_every_missing_default_key", isinstance(doc, dict) and set(DEFAULT_SETTINGS_DICT) <= set(doc),
                         role="prop")
            yield Clause("upgrade_keeps_every_value_the_user_has_set", isinstance(doc, dict) and all(
                doc.get(k) == v for k, v in before.items()), role="prop", props=["C19", "C18"])
        for cl in self.common_post(c, w, old):
            yield cl


@register
class from_json_file(_FsContract):
    name = S + "SettingsContainer.from_json_file"

    def args(self, c):
        m = settings_mod()
        w = activate([m.DEFAULT_PATH])
        w.known.update({str(m.USER_ASSETS_PATH), str(m.USER_ASSETS_VERSION_PATH), str(m.DEFAULT_PATH)})
        return dict(cls=m.SettingsContainer, settings_path=m.DEFAULT_PATH)

    def post(self, c, a, res, old=None):
        yield Clause("loads_the_document", isinstance(res, dict) and dict(res).get("plot_figsize") == [7, 7], role="prop")


@register
class merge_json_union(_FsContract):
    name = MC + "merge_json_union"

    def cases(self):
        return [{"soft": False}, {"soft": True}]

    def args(self, c, soft=False):
        m = settings_mod()
        w = activate([m.DEFAULT_PATH])
        w.known.update({str(m.DEFAULT_PATH), "/work/other.json"})
        return dict(first_file=m.DEFAULT_PATH, second_file="/work/other.json", soft=soft)

    def post(self, c, a, res, old=None):
        w = fs()
        d = str(_os.fspath(a.first_file))
        doc = w.content.get(d)
        yield Clause("merged_document_moved_into_place", isinstance(doc, dict) and set(stored_document(d)) <= set(doc), role="prop")
        for cl in self.common_post(c, w, old):
            yield cl


@lemma("start_sequence_loads_the_settings", props=PROPS)
def start_sequence(l):
    """the import-time sequence initialize_if_needed(); update_if_outdated(); from_json_file(DEFAULT_PATH) under
    arbitrary interference: each call is checked against the contracts above"""
    m = settings_mod()
    w = activate([m.DEFAULT_PATH])
    m.initialize_if_needed()
    m.update_if_outdated()
    l.prove("settings_exist_before_loading", str(m.DEFAULT_PATH) in w.known, role="prop")
    l.prove("document_intact_at_every_crash_point", invariant_at_every_crash_point(w), role="prop")
