"""Sidecar contracts for evo/core/trajectory.py -- selection operations (C11) and shared helpers."""
import types

import numpy as np
import z3

from pyvc import sym, spec, npstub, session
from pyvc.contract import FnContract, Clause, Raises, LoopSpec, register
from pyvc.sym import SB, SI, _term
from contracts import trajmodel as tm
from contracts.filters import path_fn, ang, reached
from contracts.geometry import path_of_positions

T = "evo.core.trajectory."


def L():
    return session.loader()


POSE_FIELDS = ("_poses_se3", "_positions_xyz", "_orientations_quat_wxyz")


def kept_are(c, t, old_snap, ids, m, fields=None):
    """every stored representation of t now has m entries and entry k is the old entry ids[k] -- pose, orientation and
    timestamp of each kept pose stay together because one index list is applied to all representations"""
    conds = []
    now = tm.views(t)
    if set(now) != set(old_snap):
        return False
    for f, (n, get, obj) in now.items():
        if fields is not None and f not in fields:
            continue
        n0, cell0, obj0 = old_snap[f]
        conds.append(n == m)
        conds.append(c.forall(m, lambda k, get=get, cell0=cell0: c.eq(get(k), cell0(ids(k)))))
    return c.And(*conds)


class _TrajMethod(FnContract):
    """common argument construction: cases over the storage mode"""
    stamps = True
    modes = ("poses", "xyzquat")
    wf = False

    def cases(self):
        return [{"mode": m} for m in self.modes]

    def mk(self, c, mode, name="t"):
        t = tm.mk_traj(c, L(), name, mode, stamps=self.stamps)
        if self.wf and "_poses_se3" in t.__dict__:
            P = t._poses_se3
            k = SI(z3.Int(name + "!se3"))
            with c.quiet():
                body = c.And(*spec.is_SE3_exact(P.get(k)))
            c.assume(SB(sym.forall_t([k.t], z3.Implies(z3.And(0 <= k.t, k.t < _term(t._n)), _term(body)))))
        return t

    def snapshot(self, c, a):
        return types.SimpleNamespace(self=tm.snapshot(a.self), n=a.self._n)


# ---- reduce_to_ids ------------------------------------------------------------------------------------------

class _ReduceToIds(_TrajMethod):
    props = ["C11", "C08", "C05"]

    def args(self, c, mode="poses"):
        t = self.mk(c, mode)
        m = c.int("m")
        c.assume(m >= 0)
        ids = c.seq("ids", m, (), "int")
        ids.elem_kind = "int"
        return dict(self=t, ids=ids)

    def pre(self, c, a):
        ids = sym.as_seq(a.ids)
        yield ("ids_in_range", c.forall(c.len(ids), lambda k: c.And(0 <= ids.get(k), ids.get(k) < a.self._n)))

    def result(self, c, a):
        t = a.self
        m = c.len(a.ids)
        for f, (n, get, obj) in tm.views(t).items():
            if not self.stamps and f not in POSE_FIELDS:
                continue
            if isinstance(obj, sym.SArr):
                t.__dict__[f] = c.array("red" + f, m, obj.shape[1:], obj.kind)
            else:
                t.__dict__[f] = c.seq("red" + f, m, (4, 4))
        return None

    def post(self, c, a, res, old=None):
        ids = sym.as_seq(a.ids)
        yield Clause("kept_poses_are_the_selected_ones",
                     kept_are(c, a.self, old.self, ids.get, c.len(ids), None if self.stamps else POSE_FIELDS), role="prop")


@register
class reduce_to_ids_path(_ReduceToIds):
    name = T + "PosePath3D.reduce_to_ids"
    stamps = False


@register
class reduce_to_ids_traj(_ReduceToIds):
    name = T + "PoseTrajectory3D.reduce_to_ids"
    stamps = True


# ---- downsample -----------------------------------------------------------------------------------------------

@register
class downsample(_TrajMethod):
    name = T + "PosePath3D.downsample"
    props = ["C11", "C08"]

    def args(self, c, mode="poses"):
        return dict(self=self.mk(c, mode), num_poses=c.int("N"))

    raises = (Raises("TrajectoryException", "less_than_one_pose",
                     lambda c, a: c.And(a.self._n > a.num_poses, a.num_poses < 1), role="prop", pre_state=True), )

    def post(self, c, a, res, old=None):
        t, N, n = a.self, a.num_poses, old.n
        yield Clause("unchanged_when_already_small", c.Implies(n <= N, tm.unchanged(c, t, old.self)), role="prop")
        ids = sym.cur().ghost.get("linspace_result")
        if ids is None:
            yield Clause("keeps_exactly_N", c.Not(n > N), role="prop")
            return
        g = ids.row
        yield Clause("keeps_exactly_N_in_order", c.Implies(n > N, c.And(
            kept_are(c, t, old.self, g, N),
            c.forall2(N, lambda x, y: g(x) <= g(y)))), role="prop")
        yield Clause("first_and_last_pose_kept", c.Implies(n > N, c.And(g(0) == 0, c.Implies(N >= 2, g(N - 1) == n - 1))),
                     role="prop")
        yield Clause("evenly_spaced_by_index", c.Implies(c.And(n > N, N >= 2), c.forall(N, lambda k: c.And(
            g(k) * (N - 1) <= k * (n - 1), k * (n - 1) < (g(k) + 2) * (N - 1)))), role="prop",
            note="floor(k(n-1)/(N-1)) up to the measured -1 slack of numpy.linspace(dtype=int)")


# ---- time cropping ------------------------------------------------------------------------------------------------

@register
class reduce_to_time_range(_TrajMethod):
    name = T + "PoseTrajectory3D.reduce_to_time_range"
    props = ["C11", "C08"]

    def cases(self):
        return [{"mode": m, "s": s, "e": e} for m in self.modes for s in (True, False) for e in (True, False)]

    def args(self, c, mode="poses", s=True, e=True):
        return dict(self=self.mk(c, mode), start_timestamp=c.real("start") if s else None,
                    end_timestamp=c.real("end") if e else None)

    def _bounds(self, c, a, ts_get, n):
        s = a.start_timestamp if a.start_timestamp is not None else ts_get(0)
        e = a.end_timestamp if a.end_timestamp is not None else ts_get(n - 1)
        return s, e

    def snapshot(self, c, a):
        o = _TrajMethod.snapshot(self, c, a)
        return o

    raises = (Raises("TrajectoryException", "start_after_end",
                     lambda c, a: (a.start_timestamp if a.start_timestamp is not None else a.self.timestamps.row(0)) >
                     (a.end_timestamp if a.end_timestamp is not None else a.self.timestamps.row(a.self._n - 1)),
                     role="prop", pre_state=True), )

    def post(self, c, a, res, old=None):
        t, n = a.self, old.n
        ts0 = sym.SSeq(n, old.self["timestamps"][1])
        s, e = self._bounds(c, a, ts0.get, n)
        ts = t.timestamps
        m = c.len(ts)
        inside = lambda k: c.And(s <= ts0.get(k), ts0.get(k) <= e)
        ids = sym.cur().ghost.get("where_result")
        if ids is None:
            yield Clause("crop_indices_exist", False, role="prop")
            return
        g = ids.row
        yield Clause("kept_poses_stay_together_in_order", c.And(kept_are(c, t, old.self, g, m),
                                                                c.forall2(m, lambda x, y: g(x) < g(y)),
                                                                c.forall(m, lambda k: c.And(0 <= g(k), g(k) < n))),
                     role="prop")
        yield Clause("only_poses_inside_the_interval", c.forall(m, lambda k: inside(g(k))), role="prop")
        yield Clause("all_poses_inside_the_interval", c.forall(n, lambda i: c.Implies(
            inside(i), c.exists(m, lambda k: g(k) == i)), "i"), role="prop")


# ---- motion filter (method) ------------------------------------------------------------------------------------------

@register
class motion_filter(_TrajMethod):
    name = T + "PosePath3D.motion_filter"
    props = ["C11", "C08"]
    modes = ("poses", )      # built from matrices; the quaternion-built mode needs quaternion_matrix (C08): bounded
    wf = True

    def cases(self):
        return [{"mode": "poses", "degrees": d} for d in (False, True)]

    def args(self, c, mode="poses", degrees=False):
        return dict(self=self.mk(c, mode), distance_threshold=c.real("dthr"), angle_threshold=c.real("athr"),
                    degrees=degrees)

    raises = (Raises("FilterException", "too_few_poses_or_negative_threshold",
                     lambda c, a: c.Or(a.self._n < 2, a.distance_threshold < 0, a.angle_threshold < 0), role="prop",
                     pre_state=True), )

    def post(self, c, a, res, old=None):
        from contracts.filters import filter_by_motion
        g = sym.cur().ghost.get("result:" + filter_by_motion.name)
        if g is None:
            yield Clause("selection_exists", False, role="prop")
            return
        ids, callee = g
        ids = sym.as_seq(ids)
        yield Clause("kept_poses_stay_together", kept_are(c, a.self, old.self, ids.get, c.len(ids)), role="prop")
        P_old = sym.SSeq(old.n, old.self["_poses_se3"][1])
        ca = types.SimpleNamespace(poses=P_old, distance_threshold=a.distance_threshold,
                                   angle_threshold=a.angle_threshold, degrees=a.degrees)
        for cl in filter_by_motion().post(c, ca, ids):
            yield Clause(cl.label, cl.cond, role=cl.role)


from contracts import filters as _filters
_filters.filter_by_motion.result = _filters._remember(_filters.filter_by_motion.name)(_filters.filter_by_motion.result)


# ---- gaps and splits ---------------------------------------------------------------------------------------------------

def boundaries_clauses(c, J, n, exceeds):
    """J = [0] ++ [k+1 : step k exceeds] ++ [n]   (k = 0..n-2), stated without induction"""
    m = c.len(J)
    g = J.row if isinstance(J, sym.SArr) else sym.as_seq(J).get
    yield "starts_at_0_ends_at_n", c.And(m >= 2, g(0) == 0, g(m - 1) == n)
    yield "strictly_increasing", c.forall2(m, lambda x, y: g(x) < g(y))
    yield "every_cut_is_at_an_exceeding_step", c.forall_where(1, m - 1, lambda k: c.And(
        1 <= g(k), g(k) < n, exceeds(g(k) - 1)), None)
    yield "no_exceeding_step_inside_a_part", c.forall(n - 1, lambda s: c.Implies(
        exceeds(s), c.exists(m, lambda k: g(k) == s + 1)), "s")


@register
class jumps(_TrajMethod):
    name = T + "PosePath3D._jumps"
    props = ["C11"]
    stamps = False

    def args(self, c, mode="poses"):
        t = self.mk(c, mode)
        return dict(self=t, dist=c.real("dist"))

    def pre(self, c, a):
        yield ("at_least_two_poses", a.self._n >= 2)

    def result(self, c, a):
        m = c.int("n_bounds")
        c.assume(m >= 2)
        r = c.array("bounds", m, (), "int")
        sym.cur().ghost["jumps_result"] = r
        return r

    def _D(self, c, t):
        if "_positions_xyz" in t.__dict__:
            return path_of_positions(t._positions_xyz)
        return path_fn(c, t._poses_se3)

    def post(self, c, a, res, old=None):
        t = a.self
        D = self._D(c, t)
        for lab, cond in boundaries_clauses(c, res, t._n, lambda s: D(s + 1) - D(s) > a.dist):
            yield Clause(lab, cond, role="prop")


def parts_clauses(c, parts, J, t_old_snap, n, fields):
    """the returned parts are the consecutive slices old[J[i]:J[i+1]] of every representation"""
    parts = sym.as_seq(parts)
    g = J.row if isinstance(J, sym.SArr) else sym.as_seq(J).get
    m = c.len(J)
    yield "one_part_per_interval", c.len(parts) == m - 1

    def part_ok(i):
        p = parts.get(i)
        conds = []
        v = tm.views(p)
        for f in fields:
            if f not in v:
                conds.append(False)
                continue
            ln, get, obj = v[f]
            n0, cell0, obj0 = t_old_snap[f]
            conds.append(ln == g(i + 1) - g(i))
            conds.append(c.forall(ln, lambda k, get=get, cell0=cell0: c.eq(get(k), cell0(g(i) + k)), "kk"))
        return c.And(*conds)
    yield "part_i_is_the_slice_between_consecutive_boundaries", c.forall(m - 1, part_ok, "i")


class _Split(_TrajMethod):
    props = ["C11"]
    modes = ("poses", )
    fields = ("_poses_se3", "timestamps")

    def post(self, c, a, res, old=None):
        t = a.self
        J = self._bounds(c)
        if J is None:
            ok = isinstance(res, list) and len(res) == 1
            yield Clause("single_part_when_nothing_to_split", ok, role="prop", note="no gap: the partition has one part")
            if ok:
                p0 = res[0]
                same = []
                v = tm.views(p0)
                for f in self.fields:
                    if f not in v or f not in old.self:
                        same.append(False)
                        continue
                    ln, get, obj = v[f]
                    n0, cell0, obj0 = old.self[f]
                    same.append(ln == n0)
                    same.append(c.forall(n0, lambda k, get=get, cell0=cell0: c.eq(get(k), cell0(k))))
                yield Clause("the_single_part_reproduces_the_trajectory", c.And(*same), role="prop")
                yield Clause("the_single_part_is_an_independent_object", p0 is not t and not tm.shares_storage(p0, t) and all(
                    p0.__dict__.get(f) is not t.__dict__.get(f) for f in self.fields if f in t.__dict__), role="prop",
                    props=["C11", "C16"])
            return
        for lab, cond in parts_clauses(c, res, J, old.self, old.n, self.fields):
            yield Clause(lab, cond, role="prop")
        pk = sym.as_seq(res).get(c.int("i_part"))
        yield Clause("parts_own_their_pose_matrices", hasattr(pk, "__dict__") and not tm.shares_storage(pk, t), role="prop",
                     props=["C16"], note="no part holds the trajectory's own matrix objects (project() rewrites them in place)")
        for lab, cond in boundaries_clauses(c, J, old.n, self._exceeds(c, a, old)):
            yield Clause(lab, cond, role="prop")


@register
class split_distance_gaps_path(_Split):
    name = T + "PosePath3D.split_distance_gaps"
    stamps = False
    fields = ("_poses_se3", )

    def args(self, c, mode="poses"):
        return dict(self=self.mk(c, mode), dist=c.real("dist"))

    def _bounds(self, c):
        return sym.cur().ghost.get("jumps_result")

    def _exceeds(self, c, a, old):
        D = path_fn(c, sym.SSeq(old.n, old.self["_poses_se3"][1]))
        return lambda s: D(s + 1) - D(s) > a.dist


@register
class split_distance_gaps_traj(split_distance_gaps_path):
    name = T + "PoseTrajectory3D.split_distance_gaps"
    stamps = True
    fields = ("_poses_se3", "timestamps")


@register
class split_time_gaps(_Split):
    name = T + "PoseTrajectory3D.split_time_gaps"

    def args(self, c, mode="poses"):
        return dict(self=self.mk(c, mode), dt=c.real("dt"))

    def _bounds(self, c):
        return sym.cur().ghost.get("concat_bounds")

    def _exceeds(self, c, a, old):
        ts = sym.SSeq(old.n, old.self["timestamps"][1])
        return lambda s: ts.get(s + 1) - ts.get(s) > a.dt


@register
class calc_speed(FnContract):
    name = T + "calc_speed"
    props = ["C08", "C11"]
    callers_must_not_raise = True
    raises = (Raises("TrajectoryException", "non_positive_time_step", lambda c, a: (a.t_2 - a.t_1) <= 0, role="prop"), )

    def args(self, c):
        return dict(xyz_1=c.matrix("x1", 3), xyz_2=c.matrix("x2", 3), t_1=c.real("t1"), t_2=c.real("t2"))

    def result(self, c, a):
        return c.real("speed")

    def post(self, c, a, res):
        d = npstub._norm_c(sym.carr([a.xyz_2[i] - a.xyz_1[i] for i in range(3)]))
        yield Clause("distance_over_time", c.eq(res, d / (a.t_2 - a.t_1)), role="prop")


@register
class split_speed_outliers(_Split):
    name = T + "PoseTrajectory3D.split_speed_outliers"

    def args(self, c, mode="poses"):
        t = self.mk(c, mode)
        c.assume(c.forall2(t._n, lambda x, y: t.timestamps.row(x) < t.timestamps.row(y)))
        return dict(self=t, v_max=c.real("v_max"))

    def _bounds(self, c):
        return sym.cur().ghost.get("concat_bounds")

    def _exceeds(self, c, a, old):
        ts = sym.SSeq(old.n, old.self["timestamps"][1])
        P = sym.SSeq(old.n, old.self["_poses_se3"][1])

        def ex(s):
            p, q = P.get(s), P.get(s + 1)
            d = npstub._norm_c(sym.carr([q[i, 3] - p[i, 3] for i in range(3)]))
            return d / (ts.get(s + 1) - ts.get(s)) > a.v_max
        return ex


# ---- merge -----------------------------------------------------------------------------------------------------------------

@register
class merge(FnContract):
    name = T + "merge"
    props = ["C11"]

    def cases(self):
        return [{"count": 1}, {"count": 2}, {"count": 3}]

    def args(self, c, count=2):
        ts = [tm.mk_traj(c, L(), "t%d" % i, "xyzquat") for i in range(count)]
        return dict(trajectories=ts)

    def snapshot(self, c, a):
        return types.SimpleNamespace(ts=[tm.snapshot(t) for t in a.trajectories])

    def post(self, c, a, res, old=None):
        trajs = a.trajectories
        total = 0
        for t in trajs:
            total = total + t._n
        v = tm.views(res)
        order = sym.cur().ghost.get("argsort_result")
        if order is None or not {"timestamps", "_positions_xyz", "_orientations_quat_wxyz"} <= set(v):
            yield Clause("merged_trajectory_has_all_representations", False, role="prop")
            return
        yield Clause("contains_every_pose", c.And(v["timestamps"][0] == total, v["_positions_xyz"][0] == total,
                                                  v["_orientations_quat_wxyz"][0] == total), role="prop")
        ts_get = v["timestamps"][1]
        yield Clause("time_sorted", c.forall2(total, lambda x, y: ts_get(x) <= ts_get(y)), role="prop")

        def concat(field, q):
            """element q of the concatenation of the inputs' arrays"""
            off = 0
            offs = []
            for t in trajs:
                offs.append(off)
                off = off + t._n
            r = old.ts[-1][field][1](q - offs[-1])
            for sn, o, t in reversed(list(zip(old.ts[:-1], offs[:-1], trajs[:-1]))):
                r = sym.ite_any(q < o + t._n, sn[field][1](q - o), r)
            return r
        og = order.row
        yield Clause("order_is_a_permutation", c.And(
            c.forall(total, lambda k: c.And(0 <= og(k), og(k) < total)),
            c.forall(total, lambda j: c.exists(total, lambda k: og(k) == j), "j")), role="prop")
        yield Clause("every_pose_keeps_its_own_timestamp_and_orientation", c.forall(total, lambda k: c.And(
            c.eq(ts_get(k), concat("timestamps", og(k))),
            c.eq(v["_positions_xyz"][1](k), concat("_positions_xyz", og(k))),
            c.eq(v["_orientations_quat_wxyz"][1](k), concat("_orientations_quat_wxyz", og(k))))), role="prop")
        yield Clause("inputs_unchanged", c.And(*[tm.unchanged(c, t, sn) for t, sn in zip(trajs, old.ts)]), role="prop",
                     props=["C11", "C16"])


# =====================================================================================================================
# C08 / C04 / C14 / C16 : geometric operations
# =====================================================================================================================

@register
class quaternion_from_matrix(FnContract):
    """vendored third-party routine (eigen-decomposition): trusted contract, body not verified"""
    name = "evo.core.transformations.quaternion_from_matrix"
    props = ["C08"]

    def args(self, c):
        return dict(matrix=c.matrix("M", 4, 4), isprecise=False)

    def result(self, c, a):
        return c.matrix("quat", 4)

    def post(self, c, a, res):
        q = res
        unit = q[0] * q[0] + q[1] * q[1] + q[2] * q[2] + q[3] * q[3] == 1
        so3 = c.And(*spec.is_SO3_exact(a.matrix[:3, :3], c.eq))
        yield Clause("unit_quaternion_of_the_rotation_block", c.And(unit, q[0] >= 0, c.Implies(
            so3, c.eq(spec.qmat(q), a.matrix[:3, :3]))), role="aux")


def se3_T(c, name="T"):
    t = c.matrix(name, 4, 4)
    for cl in spec.is_SE3_exact(t):
        c.assume(cl)
    return t


def views_consistent(c, t):
    """positions = translation parts of the matrices; (unit quaternions describe the rotation blocks: via the
    trusted quaternion_from_matrix contract)"""
    v = tm.views(t)
    conds = []
    if "_poses_se3" in v and "_positions_xyz" in v:
        n, pg, _ = v["_poses_se3"]
        m, xg, _ = v["_positions_xyz"]
        conds.append(n == m)
        conds.append(c.forall(n, lambda k: c.eq(xg(k), sym.carr([pg(k)[i, 3] for i in range(3)]))))
    if "_poses_se3" in v and "_orientations_quat_wxyz" in v:
        n, pg, _ = v["_poses_se3"]
        m, qg, _ = v["_orientations_quat_wxyz"]
        conds.append(n == m)
    return c.And(*conds) if conds else True


@register
class transform(_TrajMethod):
    name = T + "PosePath3D.transform"
    props = ["C08", "C04", "C15"]
    modes = ("poses", )
    stamps = False
    wf = True

    def cases(self):
        # the propagating variant (right_mul and propagate) is exercised by the bounded stand-in only: its chain
        # invariant needs definition unfolding inside matrix products under a quantifier, which the back ends
        # leave undecided (recorded in DESIGN.md)
        return [{"right_mul": False, "propagate": False}, {"right_mul": True, "propagate": False},
                {"right_mul": False, "propagate": True}]

    def args(self, c, right_mul=False, propagate=False):
        return dict(self=self.mk(c, "poses"), t=se3_T(c), right_mul=right_mul, propagate=propagate)

    def result(self, c, a):
        t = a.self
        n = t._n
        t._poses_se3 = c.seq("tr_P", n, (4, 4))
        t._positions_xyz = c.array("tr_xyz", n, (3, ))
        t._orientations_quat_wxyz = c.array("tr_q", n, (4, ))
        return None

    def post(self, c, a, res, old=None):
        t, T_ = a.self, a.t
        n = old.n
        v = tm.views(t)
        if "_poses_se3" not in v:
            yield Clause("matrices_present", False, role="prop")
            return
        m, pg, _ = v["_poses_se3"]
        og = old.self["_poses_se3"][1]
        yield Clause("same_number_of_poses", m == n, role="prop")
        if a.right_mul and a.propagate:
            yield Clause("first_pose_kept", c.eq(pg(0), og(0)), role="prop")
            yield Clause("every_relative_motion_D_becomes_D*T", c.forall_where(1, n, lambda k: c.eq(
                pg(k), spec.mul4(pg(k - 1), spec.mul4(spec.mul4(spec.inv_se3(og(k - 1)), og(k)), T_))), None), role="prop",
                note="new_k = new_(k-1) * (old_(k-1)^-1 old_k) * T")
        elif a.right_mul:
            yield Clause("every_pose_P_becomes_P*T", c.forall(n, lambda k: c.eq(pg(k), spec.mul4(og(k), T_))), role="prop")
        else:
            yield Clause("every_pose_P_becomes_T*P", c.forall(n, lambda k: c.eq(pg(k), spec.mul4(T_, og(k)))), role="prop")
        yield Clause("positions_and_matrices_agree", views_consistent(c, t), role="prop")
        yield Clause("all_three_representations_present", {"_positions_xyz", "_orientations_quat_wxyz"} <= set(v),
                     role="prop")

    def _inv(c, i, v):
        P = sym.as_seq(v.self._poses_se3)
        old = v.__dict__.get("__old_poses__")
        yield "length", c.len(P) == i + 1
        rel = sym.as_seq(v.rel_poses)
        yield "chain", c.forall_where(1, i + 1, lambda k: c.eq(P.get(k), spec.mul4(P.get(k - 1), rel.get(k - 1))), None)
        yield "first", c.eq(P.get(0), v.first_pose) if hasattr(v, "first_pose") else True

    loops = {0: LoopSpec(_inv, types={"self._poses_se3": "list[mat4]"})}


@register
class scale(_TrajMethod):
    name = T + "PosePath3D.scale"
    props = ["C08", "C04"]
    modes = ("poses", "xyzquat", "all")
    stamps = False

    def args(self, c, mode="poses"):
        return dict(self=self.mk(c, mode), s=c.real("s"))

    def result(self, c, a):
        t = a.self
        n = t._n
        if "_poses_se3" in t.__dict__:
            t._poses_se3 = c.seq("sc_P", n, (4, 4))
        if "_positions_xyz" in t.__dict__:
            t._positions_xyz = c.array("sc_xyz", n, (3, ))
        return None

    def post(self, c, a, res, old=None):
        t, s = a.self, a.s
        n = old.n
        v = tm.views(t)
        yield Clause("same_representations", set(v) == set(old.self), role="prop")
        if "_poses_se3" in v and "_poses_se3" in old.self:
            pg, og = v["_poses_se3"][1], old.self["_poses_se3"][1]
            yield Clause("matrices:positions_scaled_rotation_and_bottom_row_kept", c.And(v["_poses_se3"][0] == n, c.forall(
                n, lambda k: c.And(*([c.eq(pg(k)[i, 3], s * og(k)[i, 3]) for i in range(3)] +
                                     [c.eq(pg(k)[i, j], og(k)[i, j]) for i in range(3) for j in range(3)] +
                                     [c.eq(pg(k)[3, j], 1 if j == 3 else 0) for j in range(4)])))), role="prop")
        if "_positions_xyz" in v and "_positions_xyz" in old.self:
            xg, ox = v["_positions_xyz"][1], old.self["_positions_xyz"][1]
            yield Clause("positions_scaled", c.And(v["_positions_xyz"][0] == n, c.forall(
                n, lambda k: c.eq(xg(k), sym.carr([s * ox(k)[i] for i in range(3)])))), role="prop")
        if "_orientations_quat_wxyz" in old.self:
            yield Clause("orientations_untouched", "_orientations_quat_wxyz" in v and
                         v["_orientations_quat_wxyz"][2] is old.self["_orientations_quat_wxyz"][2] and
                         v["_orientations_quat_wxyz"][2]._cell[0] is old.self["_orientations_quat_wxyz"][1], role="prop")


@register
class align_origin(_TrajMethod):
    name = T + "PosePath3D.align_origin"
    props = ["C04", "C08"]
    modes = ("poses", )
    stamps = False
    wf = True

    def args(self, c, mode="poses"):
        return dict(self=self.mk(c, "poses", "est"), traj_ref=self.mk(c, "poses", "ref"))

    def snapshot(self, c, a):
        o = _TrajMethod.snapshot(self, c, a)
        o.ref = tm.snapshot(a.traj_ref)
        return o

    def result(self, c, a):
        r = c.matrix("to_ref_origin", 4, 4)
        transform().result(c, types.SimpleNamespace(self=a.self))
        return r

    def post(self, c, a, res, old=None):
        t, ref = a.self, a.traj_ref
        og = old.self["_poses_se3"][1]
        rg = old.ref["_poses_se3"][1]
        yield Clause("returned_transformation_is_ref_0*est_0^-1", c.eq(res, spec.mul4(rg(0), spec.inv_se3(og(0)))), role="prop")
        v = tm.views(t)
        pg = v["_poses_se3"][1]
        yield Clause("every_pose_moved_by_exactly_the_returned_transformation", c.And(
            v["_poses_se3"][0] == old.n, c.forall(old.n, lambda k: c.eq(pg(k), spec.mul4(res, og(k))))), role="prop")
        yield Clause("reference_unchanged", tm.unchanged_data(c, ref, old.ref), role="prop", props=["C04", "C16"])


@register
class align(_TrajMethod):
    name = T + "PosePath3D.align"
    props = ["C04"]
    modes = ("poses", )
    stamps = False
    wf = True

    def cases(self):
        out = []
        for cs in (False, True):
            for co in (False, True):
                for n_given in (False, True):
                    out.append({"correct_scale": cs, "correct_only_scale": co, "n_given": n_given})
        return out

    def args(self, c, correct_scale=False, correct_only_scale=False, n_given=False):
        est = self.mk(c, "poses", "est")
        ref = self.mk(c, "poses", "ref")
        n = -1
        if n_given:
            n = c.int("n_to_align")
            c.assume(n >= 1)
        return dict(self=est, traj_ref=ref, correct_scale=correct_scale, correct_only_scale=correct_only_scale, n=n)

    def pre(self, c, a):
        yield ("n_is_minus_one_or_positive", True if a.n == -1 and not sym.is_sym(a.n) else a.n >= 1)

    def snapshot(self, c, a):
        o = _TrajMethod.snapshot(self, c, a)
        o.ref = tm.snapshot(a.traj_ref)
        o.ref_n = a.traj_ref._n
        return o

    raises = (Raises("GeometryException", "umeyama_refuses_the_point_sets",
                     lambda c, a: bool(sym.cur().ghost.get("raised:evo.core.geometry.umeyama_alignment")), role="prop"), )

    def result(self, c, a):
        r, t, s = c.matrix("al_r", 3, 3), c.matrix("al_t", 3), c.real("al_s")
        transform().result(c, types.SimpleNamespace(self=a.self))
        return (r, t, s)

    def post(self, c, a, res, old=None):
        est, ref = a.self, a.traj_ref
        g = sym.cur().ghost.get("umeyama_result")
        if g is None:
            yield Clause("alignment_computed", False, role="prop")
            return
        r, t, s, ua = g
        yield Clause("returns_the_alignment_parameters", (res[0] is r) and (res[1] is t) and (res[2] is s or res[2] == s),
                     role="prop")
        with_scale = a.correct_scale or a.correct_only_scale
        yield Clause("scale_estimated_iff_requested", ua.with_scale == with_scale, role="prop")
        # first-n wiring: both point sets are the first n' positions of estimate resp. reference
        og = old.self["_poses_se3"][1]
        rg = old.ref["_poses_se3"][1]
        nx, ny = ua.x.shape[1], ua.y.shape[1]
        if a.n == -1 and not sym.is_sym(a.n):
            want_x, want_y = old.n, old.ref_n
        else:
            want_x, want_y = c.ite(a.n < old.n, a.n, old.n), c.ite(a.n < old.ref_n, a.n, old.ref_n)
        yield Clause("determined_from_the_first_n_pose_pairs", c.And(
            nx == want_x, ny == want_y,
            c.forall(nx, lambda k: c.eq(ua.x.base.row(k), sym.carr([og(k)[i, 3] for i in range(3)]))),
            c.forall(ny, lambda k: c.eq(ua.y.base.row(k), sym.carr([rg(k)[i, 3] for i in range(3)])))), role="prop")
        v = tm.views(est)
        pg = v["_poses_se3"][1]
        n = old.n

        def moved(k):
            P, O = pg(k), og(k)
            conds = []
            for i in range(3):
                rp = r[i, 0] * O[0, 3] + r[i, 1] * O[1, 3] + r[i, 2] * O[2, 3]
                if a.correct_only_scale:
                    conds.append(c.eq(P[i, 3], s * O[i, 3]))
                elif a.correct_scale:
                    conds.append(c.eq(P[i, 3], s * rp + t[i]))
                else:
                    conds.append(c.eq(P[i, 3], rp + t[i]))
                for j in range(3):
                    if a.correct_only_scale:
                        conds.append(c.eq(P[i, j], O[i, j]))
                    else:
                        conds.append(c.eq(P[i, j], r[i, 0] * O[0, j] + r[i, 1] * O[1, j] + r[i, 2] * O[2, j]))
            return c.And(*conds)
        yield Clause("every_pose_moved_by_exactly_the_returned_similarity", c.And(v["_poses_se3"][0] == n,
                                                                                  c.forall(n, moved)), role="prop",
                     note="p -> s*R*p + t, R_p -> R*R_p  (scale-only: p -> s*p and nothing else)")
        yield Clause("reference_unchanged", tm.unchanged_data(c, ref, old.ref), role="prop", props=["C04", "C16"])


# ---- plane projection (C14) ------------------------------------------------------------------------------------------

NULL_DIM = {"XY": 2, "XZ": 1, "YZ": 0}


def projected_pose_ok(c, new, old, a):
    """pose `new` is pose `old` projected into the plane with normal axis a"""
    o1, o2 = [i for i in range(3) if i != a]
    conds = [c.eq(new[a, 3], 0), c.eq(new[o1, 3], old[o1, 3]), c.eq(new[o2, 3], old[o2, 3])]
    # orientation: a pure rotation about the normal: e_a is fixed, the in-plane block is [[cs, -sn], [sn, cs]], cs^2+sn^2 = 1
    conds += [c.eq(new[a, a], 1), c.eq(new[a, o1], 0), c.eq(new[a, o2], 0), c.eq(new[o1, a], 0), c.eq(new[o2, a], 0)]
    conds += [c.eq(new[o1, o1], new[o2, o2]), c.eq(new[o1, o2], -new[o2, o1]),
              c.eq(new[o1, o1] * new[o1, o1] + new[o2, o1] * new[o2, o1], 1)]
    conds += [c.eq(new[3, j], old[3, j]) for j in range(4)]
    return c.And(*conds)


@register
class project(_TrajMethod):
    name = T + "PosePath3D.project"
    props = ["C14", "C08"]
    modes = ("poses", "all")
    stamps = True
    wf = True

    def cases(self):
        return [{"mode": m, "plane": p} for m in self.modes for p in ("XY", "XZ", "YZ")]

    def args(self, c, mode="poses", plane="XY"):
        t = self.mk(c, mode)
        t._projected = c.bool("already_projected")
        Plane = L().load("evo.core.trajectory").Plane
        return dict(self=t, plane=getattr(Plane, plane))

    raises = (Raises("TrajectoryException", "second_projection_refused", lambda c, a: a.self._projected == True,
                     role="prop", pre_state=True), )

    def post(self, c, a, res, old=None):
        t = a.self
        ax = NULL_DIM[a.plane.name]
        v = tm.views(t)
        n = old.n
        pg, og = v["_poses_se3"][1], old.self["_poses_se3"][1]
        yield Clause("count_and_order_unchanged", v["_poses_se3"][0] == n, role="prop")
        yield Clause("every_pose_projected_into_the_plane", c.forall(n, lambda k: projected_pose_ok(c, pg(k), og(k), ax)),
                     role="prop", note="zero out-of-plane coordinate, in-plane coordinates unchanged, pure rotation about the normal")
        yield Clause("timestamps_unchanged", v["timestamps"][2] is old.self["timestamps"][2] and
                     v["timestamps"][2]._cell[0] is old.self["timestamps"][1], role="prop", props=["C14", "C08", "C16"])
        yield Clause("cached_views_flushed", "_positions_xyz" not in v and "_orientations_quat_wxyz" not in v, role="prop",
                     props=["C14", "C08"], note="positions / quaternions are regenerated from the projected matrices on demand")
        yield Clause("marked_as_projected", t._projected is True, role="prop")

    def _inv(c, i, v):
        ax = v.null_dim
        n = c.len(v.elems)
        yield "visited_poses_projected", c.forall(i, lambda k: projected_pose_ok(c, v.elems.get(k), v.old_elems.get(k), ax))
        yield "others_untouched", c.forall_where(i, n, lambda k: c.eq(v.elems.get(k), v.old_elems.get(k)), None)

    loops = {0: LoopSpec(_inv)}
