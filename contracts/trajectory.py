"""Sidecar contracts for evo/core/trajectory.py -- selection operations (C11) and shared helpers."""
import types

import numpy as np
import z3

from pyvc import sym, spec, npstub, session
from pyvc.contract import FnContract, Clause, Raises, LoopSpec, register
from pyvc.sym import SB, SI, _term
from contracts import trajmodel as tm
from contracts.filters import path_fn, ang, reached
from contracts.geometry import path_of_positions

T = "evo.core.trajectory."


def L():
    return session.loader()


POSE_FIELDS = ("_poses_se3", "_positions_xyz", "_orientations_quat_wxyz")


def kept_are(c, t, old_snap, ids, m, fields=None):
    """every stored representation of t now has m entries and entry k is the old entry ids[k] -- pose, orientation and
    timestamp of each kept pose stay together because one index list is applied to all representations"""
    conds = []
    now = tm.views(t)
    if set(now) != set(old_snap):
        return False
    for f, (n, get, obj) in now.items():
        if fields is not None and f not in fields:
            continue
        n0, cell0, obj0 = old_snap[f]
        conds.append(n == m)
        conds.append(c.forall(m, lambda k, get=get, cell0=cell0: c.eq(get(k), cell0(ids(k)))))
    return c.And(*conds)


class _TrajMethod(FnContract):
    """common argument construction: cases over the storage mode"""
    stamps = True
    modes = ("poses", "xyzquat")
    wf = False

    def cases(self):
        return [{"mode": m} for m in self.modes]

    def mk(self, c, mode, name="t"):
        t = tm.mk_traj(c, L(), name, mode, stamps=self.stamps)
        if self.wf and "_poses_se3" in t.__dict__:
            P = t._poses_se3
            k = SI(z3.Int(name + "!se3"))
            with c.quiet():
                body = c.And(*spec.is_SE3_exact(P.get(k)))
            c.assume(SB(sym.forall_t([k.t], z3.Implies(z3.And(0 <= k.t, k.t < _term(t._n)), _term(body)))))
        return t

    def snapshot(self, c, a):
        return types.SimpleNamespace(self=tm.snapshot(a.self), n=a.self._n)


# ---- reduce_to_ids ------------------------------------------------------------------------------------------

class _ReduceToIds(_TrajMethod):
    props = ["C11", "C08", "C05"]

    def args(self, c, mode="poses"):
        t = self.mk(c, mode)
        m = c.int("m")
        c.assume(m >= 0)
        ids = c.seq("ids", m, (), "int")
        ids.elem_kind = "int"
        return dict(self=t, ids=ids)

    def pre(self, c, a):
        ids = sym.as_seq(a.ids)
        yield ("ids_in_range", c.forall(c.len(ids), lambda k: c.And(0 <= ids.get(k), ids.get(k) < a.self._n)))

    def result(self, c, a):
        t = a.self
        m = c.len(a.ids)
        for f, (n, get, obj) in tm.views(t).items():
            if not self.stamps and f not in POSE_FIELDS:
                continue
            if isinstance(obj, sym.SArr):
                t.__dict__[f] = c.array("red" + f, m, obj.shape[1:], obj.kind)
            else:
                t.__dict__[f] = c.seq("red" + f, m, (4, 4))
        return None

    def post(self, c, a, res, old=None):
        ids = sym.as_seq(a.ids)
        yield Clause("kept_poses_are_the_selected_ones",
                     kept_are(c, a.self, old.self, ids.get, c.len(ids), None if self.stamps else POSE_FIELDS), role="prop")


@register
class reduce_to_ids_path(_ReduceToIds):
    name = T + "PosePath3D.reduce_to_ids"
    stamps = False


@register
class reduce_to_ids_traj(_ReduceToIds):
    name = T + "PoseTrajectory3D.reduce_to_ids"
    stamps = True


# ---- downsample -----------------------------------------------------------------------------------------------

@register
class downsample(_TrajMethod):
    name = T + "PosePath3D.downsample"
    props = ["C11", "C08"]

    def args(self, c, mode="poses"):
        return dict(self=self.mk(c, mode), num_poses=c.int("N"))

    raises = (Raises("TrajectoryException", "less_than_one_pose",
                     lambda c, a: c.And(a.self._n > a.num_poses, a.num_poses < 1), role="prop", pre_state=True), )

    def post(self, c, a, res, old=None):
        t, N, n = a.self, a.num_poses, old.n
        yield Clause("unchanged_when_already_small", c.Implies(n <= N, tm.unchanged(c, t, old.self)), role="prop")
        ids = sym.cur().ghost.get("linspace_result")
        if ids is None:
            yield Clause("keeps_exactly_N", c.Not(n > N), role="prop")
            return
        g = ids.row
        yield Clause("keeps_exactly_N_in_order", c.Implies(n > N, c.And(
            kept_are(c, t, old.self, g, N),
            c.forall2(N, lambda x, y: g(x) <= g(y)))), role="prop")
        yield Clause("first_and_last_pose_kept", c.Implies(n > N, c.And(g(0) == 0, c.Implies(N >= 2, g(N - 1) == n - 1))),
                     role="prop")
        yield Clause("evenly_spaced_by_index", c.Implies(c.And(n > N, N >= 2), c.forall(N, lambda k: c.And(
            g(k) * (N - 1) <= k * (n - 1), k * (n - 1) < (g(k) + 2) * (N - 1)))), role="prop",
            note="floor(k(n-1)/(N-1)) up to the measured -1 slack of numpy.linspace(dtype=int)")


# ---- time cropping ------------------------------------------------------------------------------------------------

@register
class reduce_to_time_range(_TrajMethod):
    name = T + "PoseTrajectory3D.reduce_to_time_range"
    props = ["C11", "C08"]

    def cases(self):
        return [{"mode": m, "s": s, "e": e} for m in self.modes for s in (True, False) for e in (True, False)]

    def args(self, c, mode="poses", s=True, e=True):
        return dict(self=self.mk(c, mode), start_timestamp=c.real("start") if s else None,
                    end_timestamp=c.real("end") if e else None)

    def _bounds(self, c, a, ts_get, n):
        s = a.start_timestamp if a.start_timestamp is not None else ts_get(0)
        e = a.end_timestamp if a.end_timestamp is not None else ts_get(n - 1)
        return s, e

    def snapshot(self, c, a):
        o = _TrajMethod.snapshot(self, c, a)
        return o

    raises = (Raises("TrajectoryException", "start_after_end",
                     lambda c, a: (a.start_timestamp if a.start_timestamp is not None else a.self.timestamps.row(0)) >
                     (a.end_timestamp if a.end_timestamp is not None else a.self.timestamps.row(a.self._n - 1)),
                     role="prop", pre_state=True), )

    def post(self, c, a, res, old=None):
        t, n = a.self, old.n
        ts0 = sym.SSeq(n, old.self["timestamps"][1])
        s, e = self._bounds(c, a, ts0.get, n)
        ts = t.timestamps
        m = c.len(ts)
        inside = lambda k: c.And(s <= ts0.get(k), ts0.get(k) <= e)
        ids = sym.cur().ghost.get("where_result")
        if ids is None:
            yield Clause("crop_indices_exist", False, role="prop")
            return
        g = ids.row
        yield Clause("kept_poses_stay_together_in_order", c.And(kept_are(c, t, old.self, g, m),
                                                                c.forall2(m, lambda x, y: g(x) < g(y)),
                                                                c.forall(m, lambda k: c.And(0 <= g(k), g(k) < n))),
                     role="prop")
        yield Clause("only_poses_inside_the_interval", c.forall(m, lambda k: inside(g(k))), role="prop")
        yield Clause("all_poses_inside_the_interval", c.forall(n, lambda i: c.Implies(
            inside(i), c.exists(m, lambda k: g(k) == i)), "i"), role="prop")


# ---- motion filter (method) ------------------------------------------------------------------------------------------

@register
class motion_filter(_TrajMethod):
    name = T + "PosePath3D.motion_filter"
    props = ["C11", "C08"]
    modes = ("poses", )      # built from matrices; the quaternion-built mode needs quaternion_matrix (C08): bounded
    wf = True

    def cases(self):
        return [{"mode": "poses", "degrees": d} for d in (False, True)]

    def args(self, c, mode="poses", degrees=False):
        return dict(self=self.mk(c, mode), distance_threshold=c.real("dthr"), angle_threshold=c.real("athr"),
                    degrees=degrees)

    raises = (Raises("FilterException", "too_few_poses_or_negative_threshold",
                     lambda c, a: c.Or(a.self._n < 2, a.distance_threshold < 0, a.angle_threshold < 0), role="prop",
                     pre_state=True), )

    def post(self, c, a, res, old=None):
        from contracts.filters import filter_by_motion
        g = sym.cur().ghost.get("result:" + filter_by_motion.name)
        if g is None:
            yield Clause("selection_exists", False, role="prop")
            return
        ids, callee = g
        ids = sym.as_seq(ids)
        yield Clause("kept_poses_stay_together", kept_are(c, a.self, old.self, ids.get, c.len(ids)), role="prop")
        P_old = sym.SSeq(old.n, old.self["_poses_se3"][1])
        ca = types.SimpleNamespace(poses=P_old, distance_threshold=a.distance_threshold,
                                   angle_threshold=a.angle_threshold, degrees=a.degrees)
        for cl in filter_by_motion().post(c, ca, ids):
            yield Clause(cl.label, cl.cond, role=cl.role)


from contracts import filters as _filters
_filters.filter_by_motion.result = _filters._remember(_filters.filter_by_motion.name)(_filters.filter_by_motion.result)


# ---- gaps and splits ---------------------------------------------------------------------------------------------------

def boundaries_clauses(c, J, n, exceeds):
    """J = [0] ++ [k+1 : step k exceeds] ++ [n]   (k = 0..n-2), stated without induction"""
    m = c.len(J)
    g = J.row if isinstance(J, sym.SArr) else sym.as_seq(J).get
    yield "starts_at_0_ends_at_n", c.And(m >= 2, g(0) == 0, g(m - 1) == n)
    yield "strictly_increasing", c.forall2(m, lambda x, y: g(x) < g(y))
    yield "every_cut_is_at_an_exceeding_step", c.forall_where(1, m - 1, lambda k: c.And(
        1 <= g(k), g(k) < n, exceeds(g(k) - 1)), None)
    yield "no_exceeding_step_inside_a_part", c.forall(n - 1, lambda s: c.Implies(
        exceeds(s), c.exists(m, lambda k: g(k) == s + 1)), "s")


@register
class jumps(_TrajMethod):
    name = T + "PosePath3D._jumps"
    props = ["C11"]
    stamps = False

    def args(self, c, mode="poses"):
        t = self.mk(c, mode)
        return dict(self=t, dist=c.real("dist"))

    def pre(self, c, a):
        yield ("at_least_two_poses", a.self._n >= 2)

    def result(self, c, a):
        m = c.int("n_bounds")
        c.assume(m >= 2)
        r = c.array("bounds", m, (), "int")
        sym.cur().ghost["jumps_result"] = r
        return r

    def _D(self, c, t):
        if "_positions_xyz" in t.__dict__:
            return path_of_positions(t._positions_xyz)
        return path_fn(c, t._poses_se3)

    def post(self, c, a, res, old=None):
        t = a.self
        D = self._D(c, t)
        for lab, cond in boundaries_clauses(c, res, t._n, lambda s: D(s + 1) - D(s) > a.dist):
            yield Clause(lab, cond, role="prop")


def parts_clauses(c, parts, J, t_old_snap, n, fields):
    """the returned parts are the consecutive slices old[J[i]:J[i+1]] of every representation"""
    parts = sym.as_seq(parts)
    g = J.row if isinstance(J, sym.SArr) else sym.as_seq(J).get
    m = c.len(J)
    yield "one_part_per_interval", c.len(parts) == m - 1

    def part_ok(i):
        p = parts.get(i)
        conds = []
        v = tm.views(p)
        for f in fields:
            if f not in v:
                conds.append(False)
                continue
            ln, get, obj = v[f]
            n0, cell0, obj0 = t_old_snap[f]
            conds.append(ln == g(i + 1) - g(i))
            conds.append(c.forall(ln, lambda k, get=get, cell0=cell0: c.eq(get(k), cell0(g(i) + k)), "kk"))
        return c.And(*conds)
    yield "part_i_is_the_slice_between_consecutive_boundaries", c.forall(m - 1, part_ok, "i")


class _Split(_TrajMethod):
    props = ["C11", "C16"]
    modes = ("poses", )
    fields = ("_poses_se3", "timestamps")

    def post(self, c, a, res, old=None):
        t = a.self
        J = self._bounds(c)
        if J is None:
            yield Clause("single_part_is_the_trajectory", c.And(len(res) == 1, res[0] is t) if isinstance(res, list)
                         else False, role="prop", note="no gap: the partition has one part")
            return
        for lab, cond in parts_clauses(c, res, J, old.self, old.n, self.fields):
            yield Clause(lab, cond, role="prop")
        for lab, cond in boundaries_clauses(c, J, old.n, self._exceeds(c, a, old)):
            yield Clause(lab, cond, role="prop")


@register
class split_distance_gaps_path(_Split):
    name = T + "PosePath3D.split_distance_gaps"
    stamps = False
    fields = ("_poses_se3", )

    def args(self, c, mode="poses"):
        return dict(self=self.mk(c, mode), dist=c.real("dist"))

    def _bounds(self, c):
        return sym.cur().ghost.get("jumps_result")

    def _exceeds(self, c, a, old):
        D = path_fn(c, sym.SSeq(old.n, old.self["_poses_se3"][1]))
        return lambda s: D(s + 1) - D(s) > a.dist


@register
class split_distance_gaps_traj(split_distance_gaps_path):
    name = T + "PoseTrajectory3D.split_distance_gaps"
    stamps = True
    fields = ("_poses_se3", "timestamps")


@register
class split_time_gaps(_Split):
    name = T + "PoseTrajectory3D.split_time_gaps"

    def args(self, c, mode="poses"):
        return dict(self=self.mk(c, mode), dt=c.real("dt"))

    def _bounds(self, c):
        return sym.cur().ghost.get("concat_bounds")

    def _exceeds(self, c, a, old):
        ts = sym.SSeq(old.n, old.self["timestamps"][1])
        return lambda s: ts.get(s + 1) - ts.get(s) > a.dt


@register
class calc_speed(FnContract):
    name = T + "calc_speed"
    props = ["C08", "C11"]
    callers_must_not_raise = True
    raises = (Raises("TrajectoryException", "non_positive_time_step", lambda c, a: (a.t_2 - a.t_1) <= 0, role="prop"), )

    def args(self, c):
        return dict(xyz_1=c.matrix("x1", 3), xyz_2=c.matrix("x2", 3), t_1=c.real("t1"), t_2=c.real("t2"))

    def result(self, c, a):
        return c.real("speed")

    def post(self, c, a, res):
        d = npstub._norm_c(sym.carr([a.xyz_2[i] - a.xyz_1[i] for i in range(3)]))
        yield Clause("distance_over_time", c.eq(res, d / (a.t_2 - a.t_1)), role="prop")


@register
class split_speed_outliers(_Split):
    name = T + "PoseTrajectory3D.split_speed_outliers"

    def args(self, c, mode="poses"):
        t = self.mk(c, mode)
        c.assume(c.forall2(t._n, lambda x, y: t.timestamps.row(x) < t.timestamps.row(y)))
        return dict(self=t, v_max=c.real("v_max"))

    def _bounds(self, c):
        return sym.cur().ghost.get("concat_bounds")

    def _exceeds(self, c, a, old):
        ts = sym.SSeq(old.n, old.self["timestamps"][1])
        P = sym.SSeq(old.n, old.self["_poses_se3"][1])

        def ex(s):
            p, q = P.get(s), P.get(s + 1)
            d = npstub._norm_c(sym.carr([q[i, 3] - p[i, 3] for i in range(3)]))
            return d / (ts.get(s + 1) - ts.get(s)) > a.v_max
        return ex


# ---- merge -----------------------------------------------------------------------------------------------------------------

@register
class merge(FnContract):
    name = T + "merge"
    props = ["C11", "C16"]

    def cases(self):
        return [{"count": 1}, {"count": 2}, {"count": 3}]

    def args(self, c, count=2):
        ts = [tm.mk_traj(c, L(), "t%d" % i, "xyzquat") for i in range(count)]
        return dict(trajectories=ts)

    def snapshot(self, c, a):
        return types.SimpleNamespace(ts=[tm.snapshot(t) for t in a.trajectories])

    def post(self, c, a, res, old=None):
        trajs = a.trajectories
        total = 0
        for t in trajs:
            total = total + t._n
        v = tm.views(res)
        order = sym.cur().ghost.get("argsort_result")
        if order is None or not {"timestamps", "_positions_xyz", "_orientations_quat_wxyz"} <= set(v):
            yield Clause("merged_trajectory_has_all_representations", False, role="prop")
            return
        yield Clause("contains_every_pose", c.And(v["timestamps"][0] == total, v["_positions_xyz"][0] == total,
                                                  v["_orientations_quat_wxyz"][0] == total), role="prop")
        ts_get = v["timestamps"][1]
        yield Clause("time_sorted", c.forall2(total, lambda x, y: ts_get(x) <= ts_get(y)), role="prop")

        def concat(field, q):
            """element q of the concatenation of the inputs' arrays"""
            off = 0
            offs = []
            for t in trajs:
                offs.append(off)
                off = off + t._n
            r = old.ts[-1][field][1](q - offs[-1])
            for sn, o, t in reversed(list(zip(old.ts[:-1], offs[:-1], trajs[:-1]))):
                r = sym.ite_any(q < o + t._n, sn[field][1](q - o), r)
            return r
        og = order.row
        yield Clause("order_is_a_permutation", c.And(
            c.forall(total, lambda k: c.And(0 <= og(k), og(k) < total)),
            c.forall(total, lambda j: c.exists(total, lambda k: og(k) == j), "j")), role="prop")
        yield Clause("every_pose_keeps_its_own_timestamp_and_orientation", c.forall(total, lambda k: c.And(
            c.eq(ts_get(k), concat("timestamps", og(k))),
            c.eq(v["_positions_xyz"][1](k), concat("_positions_xyz", og(k))),
            c.eq(v["_orientations_quat_wxyz"][1](k), concat("_orientations_quat_wxyz", og(k))))), role="prop")
        yield Clause("inputs_unchanged", c.And(*[tm.unchanged(c, t, sn) for t, sn in zip(trajs, old.ts)]), role="prop",
                     props=["C11", "C16"])
