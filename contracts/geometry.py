"""Sidecar contracts for evo/core/geometry.py (accumulated distances; Umeyama is in contracts/umeyama.py)."""
import z3

from pyvc import sym, npstub
from pyvc.contract import FnContract, Clause, register
from pyvc.sym import SB, _term

M = "evo.core.geometry."


def path_of_positions(x):
    """D(k) for an (n, 3) position array"""
    return npstub.path_D(lambda j: x.row(j))


@register
class accumulated_distances(FnContract):
    """D[0] = 0, D[k] = D[k-1] + |x_k - x_{k-1}|: the travelled path length from the first pose (spec `path(0,k)`)"""
    name = M + "accumulated_distances"
    props = ["C10", "C11", "C08", "C12"]

    def args(self, c):
        n = c.int("n")
        c.assume(n >= 1)
        return dict(x=c.array("x", n, (3, )))

    def pre(self, c, a):
        yield ("nonempty", c.len(a.x) >= 1)

    def result(self, c, a):
        n = c.len(a.x)
        r = c.array("D", n)
        return r

    def post(self, c, a, res):
        n = c.len(a.x)
        yield Clause("length", c.len(res) == n, role="prop")
        yield Clause("starts_at_zero", res.row(0) == 0, role="prop")
        D = path_of_positions(a.x)
        yield Clause("is_path_length_from_start", c.forall_where(0, n, lambda k: res.row(k) == D(k), lambda k: res.row(k)),
                     role="prop", note="D[k] = |x1-x0| + ... + |xk-x(k-1)|")
