"""Sidecar contracts for property C17: existing output files are never overwritten without confirmation.

Ghost state (per explored path, in PathCtx.ghost["world"]): a file system of which only `exists[path]` (a symbolic
boolean per path) matters, and an ordered event log.  The answers typed at the prompt are opaque values whose only
observable is `answer_n == key` (a symbolic boolean per prompt and key).  Library calls that write a file are trusted
contracts "writes exactly its path argument" (np.savetxt, zipfile.ZipFile(p, 'w'), open(p, 'w'|'wb'), PdfPages(p),
Figure.savefig(p), DataFrame.to_<fmt>(p), pandas.ExcelWriter(p)); they only append a `write` event."""
import io
import os as _os
import types
from pathlib import Path

import z3

from pyvc import sym, session, npstub
from pyvc.sym import SB
from pyvc.contract import FnContract, Clause, register
from contracts import trajmodel as tm

U = "evo.tools.user."
FI = "evo.tools.file_interface."


# ---- ghost world -------------------------------------------------------------------------------------------------
class World:
    def __init__(self):
        self.events = []       # ("ask", n, path|None) | ("write", target) | ("isfile", path)
        self.n_ask = 0
        self._exists = {}

    def exists(self, p):
        p = _os.fspath(p)
        if p not in self._exists:
            self._exists[p] = SB(z3.Bool("exists[%s]" % p))
        return self._exists[p]

    def write(self, target):
        self.events.append(("write", target if not isinstance(target, (str, Path)) else _os.fspath(target)))

    def writes(self):
        return [e[1] for e in self.events if e[0] == "write"]

    def asks(self):
        return [e for e in self.events if e[0] == "ask"]


def world():
    g = sym.cur().ghost
    if "world" not in g:
        g["world"] = World()
    return g["world"]


class Answer:
    """what the user typed at prompt n: opaque; the program can only compare it"""

    def __init__(self, n, ops=()):
        self.n, self.ops = n, ops

    def _name(self):
        return "answer%d%s" % (self.n, "".join("." + o for o in self.ops))

    def is_(self, key):
        return SB(z3.Bool("%s==%r" % (self._name(), key)))

    def __eq__(self, o):
        return self.is_(o)

    def __ne__(self, o):
        return sym.snot(self.is_(o))

    __hash__ = None

    def _derived(self, op):
        return Answer(self.n, self.ops + (op, ))

    def lower(self):
        return self._derived("lower()")

    def upper(self):
        return self._derived("upper()")

    def strip(self, *a):
        return self._derived("strip()")

    def startswith(self, x):
        return SB(z3.Bool("%s.startswith(%r)" % (self._name(), x)))

    def endswith(self, x):
        return SB(z3.Bool("%s.endswith(%r)" % (self._name(), x)))

    def __contains__(self, x):
        return bool(SB(z3.Bool("%r in %s" % (x, self._name()))))

    def __getitem__(self, k):
        return self._derived("[%r]" % (k, ))

    def __len__(self):
        raise sym.OutOfReach("len() of the typed answer")


def ghost_input(msg=""):
    w = world()
    n = w.n_ask
    w.n_ask += 1
    w.events.append(("ask", n, None))
    return Answer(n)


class _GhostFile:
    def __init__(self, path, mode):
        self.path, self.mode = path, mode

    def write(self, s):
        return 0

    def read(self, *a):
        raise sym.OutOfReach("reading a ghost file")

    def close(self):
        pass

    def __enter__(self):
        return self

    def __exit__(self, *a):
        return False


def ghost_open(path, mode="r", *a, **kw):
    if any(m in mode for m in "wax+"):
        npstub._use("open(p, 'w'): writes exactly p")
        world().write(path)
        return _GhostFile(path, mode)
    raise sym.OutOfReach("open(%r, %r) for reading" % (path, mode))


class _OsPath:
    def isfile(self, p):
        w = world()
        w.events.append(("isfile", _os.fspath(p)))
        return w.exists(p)

    exists = isfile

    def getsize(self, p):
        """size of an existing file: any non-negative integer (0 = an empty file is still an existing file)"""
        w = world()
        w.events.append(("getsize", _os.fspath(p)))
        key = "size[%s]" % _os.fspath(p)
        if key not in w._exists:
            v = sym.SI(z3.Int(key))
            sym.cur().assume(v >= 0)
            w._exists[key] = v
        return w._exists[key]

    # members that only compute on the path string fall through to the real module; anything that would look at the
    # real file system for a ghost path is out of reach (it used to fall through: FileNotFoundError, checker error)
    _PURE = {"join", "basename", "dirname", "splitext", "split", "abspath", "normpath", "expanduser", "isabs", "sep",
             "extsep", "pardir", "curdir", "relpath", "commonprefix", "commonpath", "normcase", "splitdrive", "expandvars"}

    def __getattr__(self, a):
        if a not in self._PURE and not a.startswith("__"):
            raise sym.OutOfReach("os.path.%s on a ghost path (file-system access not modelled)" % a)
        return getattr(_os.path, a)


class _Os:
    path = _OsPath()

    def __getattr__(self, a):
        return getattr(_os, a)


class _ZipFile:
    def __init__(self, path, mode="r", *a, **kw):
        if "w" in mode or "a" in mode or "x" in mode:
            npstub._use("zipfile.ZipFile(p, 'w'): writes exactly p")
            world().write(path)
        else:
            raise sym.OutOfReach("reading a zip archive")
        self.names = []

    def writestr(self, name, data):
        self.names.append(name)

    def __enter__(self):
        return self

    def __exit__(self, *a):
        return False


class _Zip:
    ZipFile = _ZipFile

    def __getattr__(self, a):
        import zipfile
        return getattr(zipfile, a)


class _Pickle:
    @staticmethod
    def dump(obj, fh, *a, **kw):
        if not isinstance(fh, _GhostFile):
            raise sym.OutOfReach("pickle.dump into a real file")

    def __getattr__(self, a):
        import pickle
        return getattr(pickle, a)


class _PdfPages:
    def __init__(self, path, *a, **kw):
        npstub._use("PdfPages(p): writes exactly p")
        world().write(path)

    def savefig(self, fig, *a, **kw):
        pass

    def close(self):
        pass


_mpl = types.SimpleNamespace(backends=types.SimpleNamespace(backend_pdf=types.SimpleNamespace(PdfPages=_PdfPages)))


class GhostFigure:
    def savefig(self, dest, *a, **kw):
        npstub._use("Figure.savefig(p): writes exactly p")
        world().write(dest)


class GhostDF:
    """a pandas DataFrame as far as save_df_as_table is concerned"""
    @property
    def T(self):
        return GhostDF()

    def to_excel(self, writer, *a, **kw):
        world().write(writer.path)

    def __getattr__(self, a):
        if a.startswith("to_"):
            def to(path, *x, **kw):
                npstub._use("DataFrame.to_<fmt>(p): writes exactly p")
                world().write(path)
            return to
        raise AttributeError(a)


class _ExcelWriter:
    def __init__(self, path, *a, **kw):
        self.path = path

    def __enter__(self):
        return self

    def __exit__(self, *a):
        return False


class _Pandas:
    ExcelWriter = _ExcelWriter

    def __getattr__(self, a):
        import pandas
        return getattr(pandas, a)


def _savetxt(target, mat, *a, **kw):
    npstub._use("numpy.savetxt(p, ...): writes exactly p")
    world().write(target)


def _npsave(target, arr, *a, **kw):
    if isinstance(target, (str, Path)):
        world().write(target)


OVERRIDES = {"os": _Os(), "zipfile": _Zip(), "pickle": _Pickle(), "matplotlib.backends.backend_pdf": _mpl,
             "pandas": _Pandas(), "builtins": {"input": ghost_input, "open": ghost_open}}
npstub.np.savetxt = _savetxt
npstub.np.save = _npsave


# ---- the guard clauses shared by all writers --------------------------------------------------------------------
def asked_for(w, t):
    return [e for e in w.events if e[0] == "ask" and e[2] == t]


def guard_clauses(c, w, confirm, targets, complete=True, prefix=""):
    """clauses of C17 for one call that was asked to write `targets` (paths, in order); `confirm` is the effective
    confirm_overwrite flag.  Evaluated per explored path: the event log is concrete, the facts are symbolic."""
    writes = w.writes()
    pathlike = [t for t in writes if isinstance(t, str)]
    yield Clause(prefix + "writes_nothing_but_the_requested_output", all(t in targets for t in writes), role="prop")
    declined = False
    for t in targets:
        if not isinstance(t, str):
            continue
        ex = w.exists(t)
        asks = asked_for(w, t)
        ans = Answer(asks[0][1]).is_("y") if asks else False
        if t in pathlike:
            # an existing file is only replaced after the answer 'y' (or with warnings disabled)
            yield Clause(prefix + "existing_file_replaced_only_after_answer_y[%s]" % _os.path.basename(t),
                         c.Or(c.Not(confirm), c.Not(ex), ans), role="prop")
            if asks:
                iw = w.events.index(("write", t))
                ia = w.events.index(asks[0])
                yield Clause(prefix + "asked_before_writing[%s]" % _os.path.basename(t), ia < iw, role="prop")
        else:
            if complete and not declined:
                # not written although nothing was declined before: only because the overwrite was declined
                yield Clause(prefix + "written_unless_overwrite_declined[%s]" % _os.path.basename(t),
                             c.And(confirm, ex, c.Not(ans)) if asks else False, role="prop")
            declined = True
        # the question is asked exactly when it is due
        yield Clause(prefix + "asks_iff_file_exists_and_warnings_enabled[%s]" % _os.path.basename(t),
                     (c.And(confirm, ex) if asks else c.Not(c.And(confirm, ex))) if not (declined and t not in pathlike and not asks)
                     else True, role="prop")
        yield Clause(prefix + "asked_at_most_once[%s]" % _os.path.basename(t), len(asks) <= 1, role="prop")
    yield Clause(prefix + "no_other_question", all(e[2] in targets for e in w.asks()), role="prop")


# ---- evo.tools.user ---------------------------------------------------------------------------------------------
@register
class confirm(FnContract):
    name = U + "confirm"
    props = ["C17"]

    def cases(self):
        return [{"key": "y"}, {"key": "yes"}]

    def args(self, c, key="y"):
        return dict(msg="enter 'y' to confirm or any other key to cancel", key=key)

    def snapshot(self, c, a):
        return types.SimpleNamespace(n=len(world().events), asks=world().n_ask)

    def result(self, c, a):
        ans = ghost_input(a.msg)
        return ans.is_(a.key)

    def post(self, c, a, res, old=None):
        w = world()
        new = w.events[old.n:]
        yield Clause("asks_exactly_once", len(new) == 1 and new[0][0] == "ask", role="prop")
        if len(new) == 1 and new[0][0] == "ask":
            yield Clause("true_iff_the_answer_is_exactly_the_key", c.eq(res, Answer(new[0][1]).is_(a.key))
                         if isinstance(res, SB) else c.And(Answer(new[0][1]).is_(a.key)) if res is True
                         else c.Not(Answer(new[0][1]).is_(a.key)) if res is False else False, role="prop")


@register
class check_and_confirm_overwrite(FnContract):
    name = U + "check_and_confirm_overwrite"
    props = ["C17"]

    def cases(self):
        return [{"kind": "str"}, {"kind": "path"}]

    def args(self, c, kind="str"):
        p = "/out/file.tum"
        return dict(file_path=p if kind == "str" else Path(p))

    def snapshot(self, c, a):
        return types.SimpleNamespace(n=len(world().events))

    def result(self, c, a):
        w = world()
        p = _os.fspath(a.file_path)
        w.events.append(("isfile", p))
        if bool(w.exists(p)):
            n = w.n_ask
            w.n_ask += 1
            w.events.append(("ask", n, p))
            return Answer(n).is_("y")
        return True

    def post(self, c, a, res, old=None):
        w = world()
        p = _os.fspath(a.file_path)
        new = [e for e in w.events[old.n:] if e[0] != "isfile"]
        asks = [e for e in new if e[0] == "ask"]
        yield Clause("never_writes", not [e for e in new if e[0] == "write"], role="prop")
        yield Clause("asks_iff_the_file_exists", (len(asks) == 1 and c.And(w.exists(p))) if asks else c.Not(w.exists(p)), role="prop")
        if asks:
            # the prompt is tied to this path from here on (the event produced by input() carries no path)
            k = w.events.index(asks[0])
            w.events[k] = ("ask", asks[0][1], p)
            ans = Answer(asks[0][1]).is_("y")
            yield Clause("true_iff_the_answer_is_exactly_y", c.eq(res, ans) if isinstance(res, SB) else
                         (c.And(ans) if res is True else c.Not(ans) if res is False else False), role="prop")
        else:
            yield Clause("true_without_asking_when_there_is_no_file", res is True, role="prop")


# ---- writers of evo.tools.file_interface ---------------------------------------------------------------------------
def _target(kind, name):
    if kind == "str":
        return name
    if kind == "path":
        return Path(name)
    return io.StringIO()


class _Writer(FnContract):
    props = ["C17"]
    out = "/out/traj.tum"
    path_arg = "file_path"

    def cases(self):
        return [{"kind": "str"}, {"kind": "path"}, {"kind": "handle"}]

    def snapshot(self, c, a):
        return types.SimpleNamespace(n=len(world().events))

    def result(self, c, a):
        # call-site effect (save_res_file embeds trajectories through the text writers): writes its target
        world().write(getattr(a, self.path_arg))
        return None

    def post(self, c, a, res, old=None):
        w = world()
        t = getattr(a, self.path_arg)
        tgt = _os.fspath(t) if isinstance(t, (str, Path)) else t
        if old.n:
            # used as a callee: nothing is known beyond "writes its target"
            return
        for cl in guard_clauses(c, w, a.confirm_overwrite, [tgt]):
            yield cl


@register
class write_tum_trajectory_file(_Writer):
    name = FI + "write_tum_trajectory_file"

    def args(self, c, kind="str"):
        return dict(file_path=_target(kind, self.out), traj=tm.mk_traj(c, session.loader(), "t", "all"),
                    confirm_overwrite=c.bool("confirm_overwrite"))


@register
class write_kitti_poses_file(_Writer):
    name = FI + "write_kitti_poses_file"
    out = "/out/traj.kitti"

    def args(self, c, kind="str"):
        return dict(file_path=_target(kind, self.out), traj=tm.mk_traj(c, session.loader(), "t", "all", stamps=False),
                    confirm_overwrite=c.bool("confirm_overwrite"))


@register
class save_res_file(_Writer):
    name = FI + "save_res_file"
    out = "/out/result.zip"
    path_arg = "zip_path"

    def cases(self):
        return [{"kind": k, "content": ct} for k in ("str", "path", "handle") for ct in ("empty", "with_trajectories")]

    def args(self, c, kind="str", content="empty"):
        L = session.loader()
        R = L.load("evo.core.result").Result
        r = R()
        r.info = {"title": "t", "est_name": "e"}
        r.stats = {"rmse": 1.0}
        if content != "empty":
            r.np_arrays = {"error_array": c.array("err", c.int("n_err"))}
            r.trajectories = {"traj": tm.mk_traj(c, L, "t", "all"), "path": tm.mk_traj(c, L, "p", "all", stamps=False)}
        tgt = _target(kind, self.out)
        if kind == "handle":
            tgt = io.BytesIO()
        return dict(zip_path=tgt, result_obj=r, confirm_overwrite=c.bool("confirm_overwrite"))

    def post(self, c, a, res, old=None):
        w = world()
        t = a.zip_path
        tgt = _os.fspath(t) if isinstance(t, (str, Path)) else t
        # embedded trajectories go through the text writers into in-memory buffers: not files
        w.events = [e for e in w.events if not (e[0] == "write" and isinstance(e[1], io.StringIO))]
        for cl in guard_clauses(c, w, a.confirm_overwrite, [tgt]):
            yield cl


@register
class save_df_as_table(_Writer):
    name = "evo.tools.pandas_bridge.save_df_as_table"
    out = "/out/table.csv"
    path_arg = "path"

    def cases(self):
        return [{"kind": k, "fmt": f, "transpose": tr} for k in ("str", "path") for f in ("csv", "excel", "latex")
                for tr in (False, True)]

    def args(self, c, kind="str", fmt="csv", transpose=False):
        return dict(df=GhostDF(), path=_target(kind, self.out), format_str=fmt, transpose=transpose,
                    confirm_overwrite=c.bool("confirm_overwrite"))


# ---- PlotCollection ----------------------------------------------------------------------------------------------
def _collection(n_figs):
    plot = session.loader().load("evo.tools.plot")
    pc = object.__new__(plot.PlotCollection)
    pc.title = "t"
    pc.figures = {"fig%d" % i: GhostFigure() for i in range(n_figs)}
    pc.root_window = None
    return pc


@register
class serialize(_Writer):
    name = "evo.tools.plot.PlotCollection.serialize"
    out = "/out/plots.pickle"
    path_arg = "dest"

    def cases(self):
        return [{"n_figs": 2}]

    def args(self, c, n_figs=2):
        return dict(self=_collection(n_figs), dest=self.out, confirm_overwrite=c.bool("confirm_overwrite"))


@register
class export(FnContract):
    name = "evo.tools.plot.PlotCollection.export"
    props = ["C17"]

    def cases(self):
        return [{"ext": e, "n_figs": n, "split": s} for e in (".pdf", ".png") for n in (0, 1, 3) for s in (False, True)
                if not (e == ".png" and s)]

    def args(self, c, ext=".pdf", n_figs=1, split=False):
        from evo.tools.settings import SETTINGS
        SETTINGS.plot_split = split      # existing key of the (real) settings container; set again on every path
        return dict(self=_collection(n_figs), file_path="/out/plot" + ext, confirm_overwrite=c.bool("confirm_overwrite"))

    def snapshot(self, c, a):
        return types.SimpleNamespace(n=len(world().events))

    def post(self, c, a, res, old=None):
        w = world()
        base, ext = _os.path.splitext(a.file_path)
        from evo.tools.settings import SETTINGS
        if ext == ".pdf" and not SETTINGS.plot_split:
            targets = [a.file_path]
        else:
            targets = [base + "_" + name + ext for name in a.self.figures]
        for cl in guard_clauses(c, w, a.confirm_overwrite, targets):
            yield cl
