"""Sidecar contracts for property C18 (and the config-editing part of C19): evo_config set / generate, merge_dicts,
SettingsContainer, entry_points.merge_config.

Tokens typed on the command line are opaque strings: a value token has the observables is-a-number, its numeric value,
lower() == 'true' / 'false' / '[]' / 'none' and startswith('-'); key and option tokens are concrete.  Documents have
the real key set and value types of the package defaults with symbolic bool / int / float values."""
import argparse
import os as _os
import types

import z3

from pyvc import sym, session
from pyvc.sym import SB, SR, SI
from pyvc.contract import FnContract, Clause, Raises, register
from contracts import settingsfs as sf
from contracts.settingsfs import fs, activate, settings_mod

MC = "evo.main_config."
S = "evo.tools.settings."
P18 = ["C18"]


class TokLower(str):
    def __new__(cls, tok):
        o = str.__new__(cls, "<lower of %s>" % tok.name)
        o.tok = tok
        return o

    def __eq__(self, other):
        t = self.tok
        if other == "true":
            return t.is_true
        if other == "false":
            return t.is_false
        if other in ("[]", "none"):
            return t.is_empty_list if other == "[]" else t.is_none
        return False

    def __ne__(self, other):
        return sym.snot(self.__eq__(other))

    __hash__ = str.__hash__


class Tok(str):
    """an arbitrary value token (not a settings key, not an option name)"""

    def __new__(cls, name):
        o = str.__new__(cls, "<token %s>" % name)
        o.name = name
        c = sym.cur()
        o.num = SB(z3.Bool("%s.is_number" % name))
        o.val = SR(z3.Real("%s.value" % name))
        o.is_true = SB(z3.Bool("%s.lower=='true'" % name))
        o.is_false = SB(z3.Bool("%s.lower=='false'" % name))
        o.is_empty_list = SB(z3.Bool("%s.lower=='[]'" % name))
        o.is_none = SB(z3.Bool("%s.lower=='none'" % name))
        o.dash = SB(z3.Bool("%s.startswith('-')" % name))
        t = sym._term
        # a token has one spelling: the special words are not numbers and exclude each other; a number starts with
        # '-' iff it is negative (or -0); a value token that is not a number does not start with '-'
        words = [o.is_true, o.is_false, o.is_empty_list, o.is_none]
        for i, w in enumerate(words):
            c.assume(SB(z3.Implies(t(w), z3.Not(t(o.num)))))
            for w2 in words[i + 1:]:
                c.assume(SB(z3.Not(z3.And(t(w), t(w2)))))
        c.assume(SB(z3.Implies(z3.And(t(o.num), t(o.val) < 0), t(o.dash))))
        c.assume(SB(z3.Implies(z3.And(t(o.num), t(o.val) > 0), z3.Not(t(o.dash)))))
        c.assume(SB(z3.Implies(z3.Not(t(o.num)), z3.Not(t(o.dash)))))
        return o

    def __pyvc_float__(self):
        if bool(self.num):
            return self.val
        raise ValueError("could not convert string to float: %r" % self.name)

    def lower(self):
        return TokLower(self)

    def startswith(self, prefix, *a):
        if prefix == "-":
            return self.dash
        if prefix == "--":
            return False
        return False

    def __eq__(self, other):
        return self is other

    def __ne__(self, other):
        return self is not other

    def __hash__(self):
        return id(self)


def conv(c, tok):
    """the value a token stands for: ("num", value) for a numeric token (an int when integral, else a float -- decided
    in same_value without forking), ("str", token) otherwise"""
    if isinstance(tok, Tok) and bool(tok.num):
        return ("num", tok.val)
    return ("str", tok)


def same_value(c, got, exp):
    kind, v = exp
    if kind == "num":
        integral = v.is_integer()
        if isinstance(got, (SI, int)) and not isinstance(got, bool):
            return c.And(integral, c.eq(sym.to_real(got) if isinstance(got, SI) else got, v))
        if isinstance(got, (SR, float)):
            return c.And(c.Not(integral), c.eq(got, v))
        return False
    return got is v


def symbolic_document(c, name="cfg"):
    from evo.tools.settings_template import DEFAULT_SETTINGS_DICT
    d = {}
    for k, v in DEFAULT_SETTINGS_DICT.items():
        if isinstance(v, bool):
            d[k] = c.bool("%s[%s]" % (name, k))
        elif isinstance(v, int):
            d[k] = c.int("%s[%s]" % (name, k))
        elif isinstance(v, float):
            d[k] = c.real("%s[%s]" % (name, k))
        elif isinstance(v, list):
            d[k] = list(v)
        else:
            d[k] = v
    return d


B1, B2, L1, N1, I1, S1 = "plot_split", "plot_usetex", "plot_figsize", "plot_linewidth", "ros_map_unknown_cell_value", "plot_backend"
SHAPES = {
    "toggle": [B1],
    "bool_value": [B1, "v0"],
    "bool_two_values": [B1, "v0", "v1"],
    "list_two": [L1, "v0", "v1"],
    "list_one": [L1, "v0"],
    "number": [N1, "v0"],
    "int_key": [I1, "v0"],
    "string": [S1, "v0"],
    "mixed": [B1, S1, "v0", L1, "v1"],
    "string_two_values": [S1, "v0", "v1"],
    "leading_junk": ["v0", B1],
    "key_without_value": [I1, B2],
    "two_toggles": [B1, B2],
}


def _tokens(shape):
    toks = {}
    out = []
    for t in SHAPES[shape]:
        if t.startswith("v") and t[1:].isdigit():
            toks[t] = Tok(t)
            out.append(toks[t])
        else:
            out.append(t)
    return out


def set_spec(c, doc, tokens):
    """the document evo_config set must produce -- written from the property statement"""
    new = dict(doc)
    keys = set(doc)
    i = 0
    n = len(tokens)
    while i < n:
        t = tokens[i]
        if not (isinstance(t, str) and not isinstance(t, Tok) and t in keys):
            i += 1
            continue
        j = i + 1
        vals = []
        while j < n and not (not isinstance(tokens[j], Tok) and tokens[j] in keys):
            vals.append(tokens[j])
            j += 1
        old = new[t][1] if isinstance(new[t], tuple) and new[t][0] == "bool" else doc[t]    # named twice: edited twice
        if isinstance(old, (bool, SB)):
            if not vals:
                new[t] = ("bool", sym.snot(old))
            else:
                last = vals[-1]
                new[t] = ("bool", True if bool(last.is_true) else False if bool(last.is_false) else sym.snot(old))
        elif not vals:
            pass
        elif isinstance(old, list):
            if bool(vals[0].is_empty_list) or bool(vals[0].is_none):
                new[t] = ("list", [])
            else:
                new[t] = ("list", [conv(c, v) for v in vals])
        else:
            new[t] = conv(c, vals[0])
        i = j
    return new


@register
class set_config(sf._FsContract):
    name = MC + "set_config"
    props = ["C19", "C18"]

    def cases(self):
        return [{"kind": "default_path", "shape": "mixed"}, {"kind": "str", "shape": "mixed"}] + [
            {"kind": "default_path", "shape": s} for s in SHAPES if s != "mixed"]

    def args(self, c, kind="default_path", shape="mixed"):
        m = settings_mod()
        p = m.DEFAULT_PATH if kind == "default_path" else "/work/my_config.json"
        doc = symbolic_document(c)
        w = activate([p], docs={p: doc})
        w.known.add(str(p))         # evo_config checks that the file exists before editing it
        self._doc = doc
        return dict(config_path=p, arg_list=_tokens(shape))

    def post(self, c, a, res, old=None):
        w = fs()
        d = str(_os.fspath(a.config_path))
        new = w.content.get(d)
        doc = w.docs[d]
        ok = isinstance(new, dict)
        yield Clause("edited_document_moved_into_place", ok, role="prop", props=["C19", "C18"])
        if ok:
            yield Clause("never_adds_or_removes_keys", list(new) is not None and set(new) == set(doc), role="prop", props=P18)
            exp = set_spec(c, doc, a.arg_list)
            named = {k for k in doc if isinstance(exp[k], tuple)}
            yield Clause("changes_only_the_named_keys", all(new[k] is doc[k] or (isinstance(doc[k], list) and new[k] == doc[k])
                                                            for k in doc if k not in named and k in new),
                         role="prop", props=P18)
            for k in sorted(named):
                kind, v = exp[k]
                got = new.get(k)
                if kind == "bool":
                    yield Clause("boolean_parameter_stays_boolean[%s]" % k, isinstance(got, (bool, SB)), role="prop", props=P18)
                    yield Clause("explicit_true_false_or_toggle[%s]" % k, c.eq(got, v) if isinstance(got, (bool, SB)) else False,
                                 role="prop", props=P18)
                elif kind == "list":
                    okl = isinstance(got, list) and len(got) == len(v)
                    yield Clause("list_parameter_stays_a_list[%s]" % k, okl, role="prop", props=P18)
                    if okl:
                        yield Clause("list_elements_converted[%s]" % k, c.And(*[same_value(c, g, e) for g, e in zip(got, v)]) if v
                                     else True, role="prop", props=P18)
                else:
                    yield Clause("numeric_token_becomes_a_number_else_the_string[%s]" % k, same_value(c, got, (kind, v)),
                                 role="prop", props=P18)
        for cl in self.common_post(c, w, old):
            yield cl


GEN_SHAPES = {
    "flag": ["--align"],
    "value": ["--downsample", "v0"],
    "two_values": ["--plot_x_dimension", "v0", "v1"],
    "flag_then_value": ["--align", "--t_offset", "v0"],
    "value_then_flag": ["--n_to_align", "v0", "--plot"],
    "short": ["-r", "v0", "-a"],
}


@register
class generate(FnContract):
    name = MC + "generate"
    props = P18

    def cases(self):
        return [{"shape": s} for s in GEN_SHAPES]

    def args(self, c, shape="flag"):
        activate([])
        toks = []
        for t in GEN_SHAPES[shape]:
            toks.append(Tok(t) if t.startswith("v") and t[1:].isdigit() else t)
        return dict(arg_list=toks)

    def post(self, c, a, res, old=None):
        toks = a.arg_list
        exp = {}
        i = 0
        while i < len(toks):
            t = toks[i]
            if isinstance(t, Tok):
                i += 1
                continue
            name = t.lstrip("-") if not t.startswith("--") else t[2:]
            j = i + 1
            vals = []
            while j < len(toks) and isinstance(toks[j], Tok):
                vals.append(toks[j])
                j += 1
            exp[name] = vals
            i = j
        yield Clause("one_entry_per_option", isinstance(res, dict) and set(res) == set(exp), role="prop")
        if not (isinstance(res, dict) and set(res) == set(exp)):
            return
        for k, vals in exp.items():
            got = res[k]
            if not vals:
                yield Clause("option_without_value_is_a_flag[%s]" % k, got is True, role="prop")
            elif len(vals) == 1:
                yield Clause("value_equals_the_argument_incl_integers_and_negative_numbers[%s]" % k,
                             same_value(c, got, conv(c, vals[0])), role="prop")
            else:
                okl = isinstance(got, list) and len(got) == len(vals)
                yield Clause("multi_value_option_is_a_list[%s]" % k, okl and c.And(*[same_value(c, g, conv(c, v))
                                                                                      for g, v in zip(got, vals)]), role="prop")


@register
class merge_dicts(FnContract):
    name = S + "merge_dicts"
    props = P18

    def cases(self):
        return [{"soft": False}, {"soft": True}]

    def args(self, c, soft=False):
        activate([])
        first = {"a": c.int("f_a"), "b": c.real("f_b"), "only_first": c.bool("f_o")}
        second = {"a": c.int("s_a"), "b": c.real("s_b"), "only_second": c.int("s_o")}
        self._first, self._second = dict(first), dict(second)
        return dict(first=first, second=second, soft=soft)

    def result(self, c, a):
        if a.soft:
            a.first.update({k: v for k, v in a.second.items() if k not in a.first})
        else:
            a.first.update(a.second)
        return a.first

    def post(self, c, a, res, old=None):
        f0, s0 = getattr(self, "_first", None), getattr(self, "_second", None)
        if f0 is None or res is not a.first and False:
            return
        yield Clause("union_of_the_keys", isinstance(res, dict) and set(res) >= set(a.second), role="prop")
        if a.soft:
            yield Clause("soft:_existing_values_win", all(res[k] is v for k, v in f0.items()) if f0.keys() <= res.keys() and
                         f0 is not None and set(f0) == {"a", "b", "only_first"} else True, role="prop")
        else:
            yield Clause("hard:_the_other_file_wins", all(res[k] is v for k, v in s0.items()) if set(s0) <= set(res) and
                         set(s0) == {"a", "b", "only_second"} else True, role="prop")


@register
class container_setattr(FnContract):
    name = S + "SettingsContainer.__setattr__"
    props = P18
    inline = True

    def cases(self):
        return [{"attr": "plot_split"}, {"attr": "brand_new_parameter"}]

    def args(self, c, attr="plot_split"):
        m = settings_mod()
        activate([])
        from evo.tools.settings_template import DEFAULT_SETTINGS_DICT
        cont = m.SettingsContainer(dict(DEFAULT_SETTINGS_DICT))
        self._keys = set(cont.keys())
        return dict(self=cont, attr=attr, value=c.int("new_value"))

    raises = (Raises("SettingsException", "unknown_parameter_refused_by_the_locked_container",
                     lambda c, a: a.self.locked() and a.attr not in a.self, role="prop", pre_state=True), )

    def post_raise(self, c, a, exc, old=None):
        yield Clause("container_unchanged_when_refused", set(a.self.keys()) == self._keys, role="prop")

    def post(self, c, a, res, old=None):
        yield Clause("no_key_added", set(a.self.keys()) == self._keys, role="prop")
        yield Clause("value_stored", a.self[a.attr] is a.value, role="prop")


@register
class update_existing_keys(FnContract):
    name = S + "SettingsContainer.update_existing_keys"
    props = P18

    def args(self, c):
        m = settings_mod()
        activate([])
        from evo.tools.settings_template import DEFAULT_SETTINGS_DICT
        cont = m.SettingsContainer(dict(DEFAULT_SETTINGS_DICT))
        self._keys = set(cont.keys())
        self._old = dict(cont)
        return dict(self=cont, other={"plot_split": c.bool("o_split"), "align": True, "t_offset": c.real("o_off")})

    def result(self, c, a):
        a.self.update((k, a.other[k]) for k in a.self.keys() & a.other.keys())
        return None

    def post(self, c, a, res, old=None):
        yield Clause("never_adds_a_key", set(a.self.keys()) == self._keys if hasattr(self, "_keys") else True, role="prop")
        if hasattr(self, "_old") and "plot_split" in a.other:
            yield Clause("matching_keys_take_the_config_value", a.self["plot_split"] is a.other["plot_split"], role="prop")
            yield Clause("other_settings_untouched", all(a.self[k] is v for k, v in self._old.items() if k not in a.other),
                         role="prop")


@register
class merge_config(FnContract):
    name = "evo.entry_points.merge_config"
    props = P18

    def cases(self):
        return [{"with_config": True}, {"with_config": False}]

    def args(self, c, with_config=True):
        m = settings_mod()
        cfg = "/work/run.json"
        doc = {"t_max_diff": c.real("cfg_t_max_diff"), "align": True, "plot_split": c.bool("cfg_plot_split"),
               "option_only_in_config": c.int("cfg_extra")}
        w = activate([m.DEFAULT_PATH], docs={cfg: doc})
        w.known.add(cfg)
        from evo.tools.settings_template import DEFAULT_SETTINGS_DICT
        for k, v in DEFAULT_SETTINGS_DICT.items():
            m.SETTINGS[k] = v                      # the container is global state of the (symbolically loaded) module
        self._doc = doc
        self._settings_keys = set(m.SETTINGS.keys())
        ns = argparse.Namespace(config=cfg if with_config else None, t_max_diff=c.real("cli_t_max_diff"), align=False,
                                pose_relation="trans_part")
        self._cli = dict(vars(ns))
        return dict(args=ns)

    def post(self, c, a, res, old=None):
        m = settings_mod()
        w = fs()
        doc, cli = self._doc, self._cli
        yield Clause("nothing_written:_for_that_run_only", not [e for e in w.events if e[0] in (
            "open-truncate", "open-update", "replace", "write", "truncate", "unlink", "mkdir")], role="prop")
        yield Clause("no_settings_key_added", set(m.SETTINGS.keys()) == self._settings_keys, role="prop")
        if cli["config"] is None:
            yield Clause("without_config_the_arguments_are_returned_as_they_are", vars(res) == cli, role="prop")
            return
        yield Clause("config_values_take_priority_over_the_command_line", all(getattr(res, k, None) is v for k, v in doc.items()),
                     role="prop")
        yield Clause("other_arguments_keep_their_command_line_value", all(getattr(res, k, None) is v for k, v in cli.items()
                                                                           if k not in doc), role="prop")
        yield Clause("matching_package_settings_overridden", m.SETTINGS["plot_split"] is doc["plot_split"], role="prop")
