"""Bounded stand-in: the contract clauses evaluated at run time on the *real* evo code (real numpy)
over generated inputs.  Never counted as proved; reported under coverage.bounded."""
from __future__ import annotations

import contextlib
import hashlib
import io
import json
import math
import time

import numpy as np


_DEVNULL = io.StringIO()


def jsonable(x):
    if isinstance(x, np.ndarray):
        return x.tolist()
    if isinstance(x, (np.floating, )):
        return float(x)
    if isinstance(x, (np.integer, )):
        return int(x)
    if isinstance(x, dict):
        return {k: jsonable(v) for k, v in x.items()}
    if isinstance(x, (list, tuple)):
        return [jsonable(v) for v in x]
    return x


def run(checkers, cases, rule, bounds, max_violations=5, time_budget_s=None):
    """cases: iterable of (checker name, input dict[, nontrivial bool])"""
    t0 = time.time()
    n = 0
    seen = set()
    nontrivial = 0
    per = {}
    violations = []
    samples = []
    for item in cases:
        name, inp = item[0], item[1]
        nt = item[2] if len(item) > 2 else True
        inp = jsonable(inp)
        n += 1
        per[name] = per.get(name, 0) + 1
        h = hashlib.sha1(json.dumps([name, inp], sort_keys=True, default=str).encode()).hexdigest()
        if h not in seen:
            seen.add(h)
            if nt:
                nontrivial += 1
        if len(samples) < 3 and per[name] == 1:
            s = json.dumps(inp, default=str)
            samples.append({"checker": name, "input": json.loads(s) if len(s) < 600 else s[:600] + "..."})
        try:
            with contextlib.redirect_stdout(_DEVNULL):
                failed = checkers[name](inp)
        except Exception as e:
            if type(e).__module__.split(".")[0] == "evo":
                # evo's own exception escaped the checker: the code under test refused (or failed on) an input of a class
                # the checker's generator only produces when the unchanged code accepts it -- reported with the input
                failed = ["code_under_test_refused_a_valid_input: %s: %s" % (type(e).__name__, str(e)[:160])]
            else:   # any other exception escaping a checker is a checker error, not a violation
                raise RuntimeError("checker %s crashed on %s: %r" % (name, json.dumps(inp, default=str)[:400], e)) from e
        if failed:
            tag = failed[0].split(" ")[0] if isinstance(failed, list) else str(failed)
            if len(violations) < max_violations or not any(v["tag"] == tag for v in violations):
                violations.append({"checker": name, "input": inp, "failed": failed, "tag": tag})
        if time_budget_s and time.time() - t0 > time_budget_s:
            break
    return {"cases": n, "distinct_nontrivial": nontrivial, "per_checker": per, "rule": rule, "bounds": bounds,
            "violations": violations, "samples": samples, "wall_s": round(time.time() - t0, 2)}


# ---- generators of geometric inputs ------------------------------------------------

def rand_rotation(rng, kind=None):
    """rotation matrix from the classes named in the properties' quantifiers"""
    kinds = ["uniform", "axis", "tiny", "nearpi", "identity"]
    kind = kind or kinds[int(rng.integers(0, len(kinds)))]
    if kind == "identity":
        return np.eye(3)
    if kind == "axis":
        ax = np.zeros(3)
        ax[int(rng.integers(0, 3))] = 1.0
        ang = float(rng.uniform(-math.pi, math.pi))
    else:
        ax = rng.normal(size=3)
        ax /= np.linalg.norm(ax)
        if kind == "tiny":
            ang = float(10.0**rng.uniform(-16, -3))
        elif kind == "nearpi":
            ang = math.pi - float(10.0**rng.uniform(-12, -3)) * int(rng.integers(0, 2))
        else:
            ang = float(rng.uniform(0, math.pi))
    return rodrigues(ax, ang)


def rodrigues(ax, ang):
    ax = np.asarray(ax, float)
    K = np.array([[0, -ax[2], ax[1]], [ax[2], 0, -ax[0]], [-ax[1], ax[0], 0]])
    R = np.eye(3) + math.sin(ang) * K + (1 - math.cos(ang)) * (K @ K)
    # re-orthonormalise (the generator must hand out genuine group elements)
    u, _, vt = np.linalg.svd(R)
    R = u @ vt
    if np.linalg.det(R) < 0:
        u[:, -1] *= -1
        R = u @ vt
    return R


def rand_translation(rng, lo=-6, hi=9):
    mag = 10.0**rng.uniform(lo, hi)
    v = rng.normal(size=3)
    return v / np.linalg.norm(v) * mag


def rand_se3(rng, kind=None, tmag=(-3, 6)):
    p = np.eye(4)
    p[:3, :3] = rand_rotation(rng, kind)
    p[:3, 3] = rand_translation(rng, *tmag)
    return p


def rel_close(a, b, tol=1e-9, scale=None):
    a = np.asarray(a, float)
    b = np.asarray(b, float)
    s = scale if scale is not None else max(1.0, float(np.max(np.abs(a))) if a.size else 1.0,
                                            float(np.max(np.abs(b))) if b.size else 1.0)
    return bool(np.all(np.abs(a - b) <= tol * s))
