"""Contract language (sidecar contracts for functions of /repo) and their two uses:
verifying a function against its own contract, and cutting calls by the callee's contract."""
from __future__ import annotations

import inspect
import types
from fractions import Fraction

import numpy as np
import z3

from . import sym
from .sym import (CArr, SArr, SSeq, SB, SI, SR, OutOfReach, cur, fresh, sand, sor, snot, simplies, site, _term,
                  wrap)

REGISTRY = {}


class Clause:
    def __init__(self, label, cond, role="aux", props=None, note=""):
        self.label = label
        self.cond = cond
        self.role = role      # 'prop' : a sentence of the property statement; 'aux' : helper
        self.props = props
        self.note = note


class Raises:
    def __init__(self, exc, label, when, role="prop", props=None, pre_state=False, call_when=None):
        self.exc = exc        # exception class *name*
        self.label = label
        self.when = when      # fn(c, a) -> Bool : raised  <=>  when
        self.role = role
        self.props = props
        self.pre_state = pre_state   # evaluate `when` on the arguments before the call (they may be mutated)
        self.call_when = call_when   # at call sites (contract cut): condition under which the callee raises


class LoopSpec:
    def __init__(self, inv, types=None, props=None):
        self.inv = inv        # fn(c, i, v) -> iterable of (label, cond)
        self.types = types or {}
        self.props = props


_QDEPTH = [0]


def bound(name):
    """bound variable for a quantified clause, named by nesting depth only: structurally equal clauses built at
    different times are then the *same* term (alpha-equivalence by construction)"""
    return SI(z3.Int("%s!%d" % (name, _QDEPTH[0])))


class _Depth:
    def __enter__(self):
        _QDEPTH[0] += 1
        cur().quiet += 1

    def __exit__(self, *a):
        _QDEPTH[0] -= 1
        cur().quiet -= 1


class C:
    """helper namespace handed to contract code (symbolic mode)"""
    And = staticmethod(sand)
    Or = staticmethod(sor)
    Not = staticmethod(snot)
    Implies = staticmethod(simplies)
    ite = staticmethod(site)
    sqrt = staticmethod(sym.ssqrt)
    abs = staticmethod(sym.sabs)

    def real(self, name):
        return fresh("real", name)

    def int(self, name):
        return fresh("int", name)

    def bool(self, name):
        return fresh("bool", name)

    def matrix(self, name, *shape):
        return sym.sym_matrix(name, shape)

    def array(self, name, n, inner=(), kind="real"):
        return sym.sym_array(name, n, inner, kind)

    def seq(self, name, n, inner=(), kind="real"):
        return sym.sym_seq(name, n, inner, kind)

    def assume(self, cond):
        cur().assume(cond)

    def eq(self, a, b):
        return sym.eq_all(a, b)

    def len(self, x):
        return sym.seq_len(x)

    def forall(self, n, body, name="k"):
        """forall k in [0, n): body(k)"""
        if isinstance(n, int) and n <= 8:
            return sand(*[body(i) for i in range(n)])
        k = bound(name + "!q")
        with _Depth():
            b = body(k)
        if b is True:
            return True
        return SB(_q([k.t], z3.Implies(z3.And(sym.tr(k), 0 <= k.t, k.t < _term(n)), _term(b)), _term(b)))

    def forall2(self, n, body):
        """forall a < b in [0, n): body(a, b)"""
        if isinstance(n, int) and n <= 6:
            return sand(*[body(i, j) for i in range(n) for j in range(i + 1, n)])
        a, b = bound("a!q"), bound("b!q")
        with _Depth():
            r = body(a, b)
        return SB(_q([a.t, b.t], z3.Implies(z3.And(sym.tr(a), sym.tr(b), 0 <= a.t, a.t < b.t,
                                                       b.t < _term(n)), _term(r)), _term(r)))

    def forall_adjacent(self, n, body):
        """forall a, b = a+1 in [0, n): body(a, b) -- stated with two bound variables so that instantiation needs
        both list reads L(a), L(b) to exist already (no matching loop through L(k-1))"""
        if isinstance(n, int) and n <= 8:
            return sand(*[body(i, i + 1) for i in range(n - 1)])
        a, b = bound("a!adj"), bound("b!adj")
        with _Depth():
            r = body(a, b)
        return SB(_q([a.t, b.t], z3.Implies(z3.And(sym.tr(a), sym.tr(b), 0 <= a.t, b.t == a.t + 1,
                                                       b.t < _term(n)), _term(r)), _term(r)))

    def forall_adjacent_between(self, n, lo, hi, body):
        """forall a, b = a+1 in [0, n), forall j in [lo(a,b), hi(a,b)): body(a, b, j) -- one flat quantifier"""
        a, b, j = bound("a!adjb"), bound("b!adjb"), bound("j!adjb")
        with _Depth():
            r = body(a, b, j)
            lo_, hi_ = lo(a, b), hi(a, b)
        return SB(z3.ForAll([a.t, b.t, j.t], z3.Implies(z3.And(sym.tr(a), sym.tr(b), sym.tr(j), 0 <= a.t,
                                                                   b.t == a.t + 1, b.t < _term(n),
                                                                   _term(lo_) <= j.t, j.t < _term(hi_)), _term(r)),
                            patterns=[z3.MultiPattern(sym.tr(a), sym.tr(b), sym.tr(j))]))

    def exists(self, n, body, name="k"):
        if isinstance(n, int) and n <= 8:
            return sor(*[body(i) for i in range(n)])
        k = bound(name + "!e")
        with _Depth():
            b = body(k)
        if isinstance(b, bool) and not b:
            return False
        body = z3.And(sym.tr(k), 0 <= k.t, k.t < _term(n), _term(b))
        return SB(_q([k.t], body, _term(b), exists=True))

    def quiet(self):
        return _Quiet()

    def forall_where(self, lo, hi, body, trigger=None, name="k"):
        """forall k in [lo, hi): body(k); `trigger(k)` is used as instantiation pattern when it is an application
        of an uninterpreted function"""
        k = bound(name + "!w")
        with _Depth():
            b = body(k)
            trig = trigger(k) if trigger is not None else None
        if b is True:
            return True
        f = z3.Implies(z3.And(sym.tr(k), _term(lo) <= k.t, k.t < _term(hi)), _term(b))
        pats = [sym.tr(k)]
        if trig is not None and isinstance(trig, sym.S):
            t = trig.t
            if z3.is_app(t) and t.decl().kind() == z3.Z3_OP_UNINTERPRETED and t.num_args() > 0:
                pats.append(t)
        try:
            return SB(z3.ForAll([k.t], f, patterns=pats))
        except z3.Z3Exception:
            return SB(z3.ForAll([k.t], f, patterns=[sym.tr(k)]))


def _q(vars_, formula, body, exists=False):
    """quantifier with alternative instantiation patterns: the trigger predicates tr(v) of all bound variables, and
    the array/list reads of the body that take the bound variables directly.  A single bound variable that is only
    read shifted (a(k-1)) is additionally offered re-parametrised (k' = k-1), as a second quantifier of the same
    meaning -- so that an existing read a(t) can serve as witness / instance."""
    Q = z3.Exists if exists else z3.ForAll
    f = sym.uf("tr", sym.I, sym.B)
    trp = [f(v) for v in vars_]
    pats = [z3.MultiPattern(*trp) if len(trp) > 1 else trp[0]]
    auto = sym.auto_patterns(body, vars_)
    if auto:
        for p in auto[:4]:
            pats.append(p)
    try:
        main = Q(vars_, formula, patterns=pats)
    except z3.Z3Exception:
        main = Q(vars_, formula, patterns=pats[:1])
    if not auto and len(vars_) == 1:
        v = vars_[0]
        d = sym._find_shift(body, v)
        if d is not None:
            v2 = z3.Int(str(v) + "_sh")
            formula2 = z3.simplify(z3.substitute(formula, (v, v2 - d)))
            body2 = z3.simplify(z3.substitute(body, (v, v2 - d)))
            auto2 = sym.auto_patterns(body2, [v2])
            if auto2:
                try:
                    alt = Q([v2], formula2, patterns=auto2[:4])
                    return z3.Or(main, alt) if exists else z3.And(main, alt)
                except z3.Z3Exception:
                    pass
    return main


class _Quiet:
    def __enter__(self):
        cur().quiet += 1

    def __exit__(self, *a):
        cur().quiet -= 1


class FnContract:
    """base class of a sidecar contract; subclass, set `name`, override what applies"""
    name = None            # qualified name, e.g. "evo.core.lie_algebra.se3_inverse"
    props = ()             # property ids served (default for all clauses)
    inline = False         # callers execute the body instead of using the contract
    loops = {}             # ordinal -> LoopSpec
    max_paths = 400

    def args(self, c):
        """symbolic inputs (dict) for verifying the function itself"""
        raise NotImplementedError

    def pre(self, c, a):
        return ()

    def post(self, c, a, res):
        return ()

    raises = ()

    def result(self, c, a):
        """fresh symbolic result used at call sites (constrained by post)"""
        raise OutOfReach("contract %s has no result() for call-site use" % self.name)

    def cases(self):
        """finite enumeration of configurations (each a dict merged into args)"""
        return [{}]


def defined_by(fn):
    """loop-carried variable whose value the invariant defines from the other variables: fn(c, old, ns)"""
    fn.needs_ns = True
    return fn


def register(cls):
    inst = cls()
    REGISTRY[inst.name] = inst
    return cls


def bind_args(fn, args, kwargs):
    sig = inspect.signature(fn)
    ba = sig.bind(*args, **kwargs)
    ba.apply_defaults()
    return types.SimpleNamespace(**ba.arguments)


class CC:
    """concrete-mode counterpart of C: the same contract text evaluated on numpy floats (replay / run-time checks).
    Real equality is tolerance-based (1e-9 relative to the operands' magnitude)."""
    TOL = 1e-9

    @staticmethod
    def And(*xs):
        return all(bool(x) for x in xs)

    @staticmethod
    def Or(*xs):
        return any(bool(x) for x in xs)

    @staticmethod
    def Not(x):
        return not bool(x)

    @staticmethod
    def Implies(a, b):
        return (not bool(a)) or bool(b)

    @staticmethod
    def ite(c, a, b):
        return a if c else b

    @staticmethod
    def sqrt(x):
        import math
        return math.sqrt(float(x))

    @staticmethod
    def abs(x):
        return abs(x)

    def eq(self, a, b):
        a = np.asarray(a, dtype=float)
        b = np.asarray(b, dtype=float)
        if a.shape != b.shape:
            try:
                a, b = np.broadcast_arrays(a, b)
            except ValueError:
                return False
        scale = max(1.0, float(np.max(np.abs(a))) if a.size else 1.0, float(np.max(np.abs(b))) if b.size else 1.0)
        return bool(np.all(np.abs(a - b) <= self.TOL * scale))

    @staticmethod
    def len(x):
        return len(x)

    @staticmethod
    def forall(n, body, name="k"):
        return all(bool(body(k)) for k in range(int(n)))

    @staticmethod
    def forall2(n, body):
        n = int(n)
        return all(bool(body(a, b)) for a in range(n) for b in range(a + 1, n))

    @staticmethod
    def exists(n, body, name="k"):
        return any(bool(body(k)) for k in range(int(n)))

    @staticmethod
    def forall_adjacent(n, body):
        return all(bool(body(k, k + 1)) for k in range(int(n) - 1))

    @staticmethod
    def forall_where(lo, hi, body, trigger=None, name="k"):
        return all(bool(body(k)) for k in range(int(lo), int(hi)))

    def assume(self, cond):
        pass
