"""Spec functions (written from the property statements / textbook definitions, not from evo's code).
They are plain Python over indexable arrays of numbers, so the same text is evaluated on symbolic
values (proof obligations) and on numpy floats (run-time / bounded evaluation and replay)."""
from __future__ import annotations

import math
from fractions import Fraction

import numpy as np

from . import sym


def _is_symbolic(*xs):
    for x in xs:
        if isinstance(x, sym.S):
            return True
        if isinstance(x, np.ndarray) and x.dtype == object:
            return True
        if isinstance(x, Fraction):
            return True
    return False


def mk(rows):
    """matrix from nested lists (object array when symbolic, float otherwise)"""
    flat = [e for r in rows for e in (r if isinstance(r, (list, tuple)) else [r])]
    if _is_symbolic(*flat):
        return sym.CArr(rows)
    return np.array(rows, dtype=float)


def sqrt(x):
    if isinstance(x, (sym.S, Fraction)) or (isinstance(x, int) and sym.has_ctx()):
        return sym.ssqrt(x)
    return math.sqrt(x)


def absv(x):
    return sym.sabs(x) if isinstance(x, sym.S) else abs(x)


def rot(p):
    return [[p[i, j] for j in range(3)] for i in range(3)]


def pos(p):
    return [p[i, 3] for i in range(3)]


def matmul(a, b, n):
    return [[sum((a[i][k] * b[k][j] for k in range(n)), 0) for j in range(n)] for i in range(n)]


def transpose(a, n):
    return [[a[j][i] for j in range(n)] for i in range(n)]


def inv_se3(p):
    """[R t; 0 1]^-1 = [R^T  -R^T t; 0 1]  (group inverse for p in SE(3))"""
    r, t = rot(p), pos(p)
    rt = transpose(r, 3)
    ti = [-(rt[i][0] * t[0] + rt[i][1] * t[1] + rt[i][2] * t[2]) for i in range(3)]
    return mk([rt[0] + [ti[0]], rt[1] + [ti[1]], rt[2] + [ti[2]], [0, 0, 0, 1]])


def mul4(a, b):
    A = [[a[i, j] for j in range(4)] for i in range(4)]
    B = [[b[i, j] for j in range(4)] for i in range(4)]
    return mk(matmul(A, B, 4))


def mul3(a, b):
    A = [[a[i, j] for j in range(3)] for i in range(3)]
    B = [[b[i, j] for j in range(3)] for i in range(3)]
    return mk(matmul(A, B, 3))


def rel(a, b):
    """relative pose a^-1 * b"""
    return mul4(inv_se3(a), b)


def eye(n):
    return mk([[1 if i == j else 0 for j in range(n)] for i in range(n)])


def det3(m):
    return (m[0, 0] * (m[1, 1] * m[2, 2] - m[1, 2] * m[2, 1]) - m[0, 1] * (m[1, 0] * m[2, 2] - m[1, 2] * m[2, 0]) +
            m[0, 2] * (m[1, 0] * m[2, 1] - m[1, 1] * m[2, 0]))


def frob2(m, shape):
    s = 0
    for i in range(shape[0]):
        for j in range(shape[1]):
            s = s + m[i, j] * m[i, j]
    return s


def norm3_sq(v):
    return v[0] * v[0] + v[1] * v[1] + v[2] * v[2]


def _eq(a, b):
    return a == b


def is_SO3_exact(r, eq=_eq):
    """R^T R = I and det R = 1 (exact group membership), as a list of equalities"""
    conds = []
    for i in range(3):
        for j in range(3):
            conds.append(eq(sum((r[k, i] * r[k, j] for k in range(3)), 0), (1 if i == j else 0)))
    for i in range(3):
        for j in range(3):
            conds.append(eq(sum((r[i, k] * r[j, k] for k in range(3)), 0), (1 if i == j else 0)))
    conds.append(eq(det3(r), 1))
    return conds


def is_SE3_exact(p, eq=_eq):
    r = mk(rot(p))
    return is_SO3_exact(r, eq) + [eq(p[3, 0], 0), eq(p[3, 1], 0), eq(p[3, 2], 0), eq(p[3, 3], 1)]


def angle(r):
    """geodesic angle of a rotation matrix, arccos((tr R - 1)/2) in [0, pi]"""
    if _is_symbolic(r[0, 0], r[1, 1], r[2, 2]) and sym.has_ctx():
        from . import npstub
        return npstub.angle_of_trace(r[0, 0] + r[1, 1] + r[2, 2])
    c = (float(r[0, 0]) + float(r[1, 1]) + float(r[2, 2]) - 1.0) / 2.0
    return math.acos(max(-1.0, min(1.0, c)))


def qmat(q):
    """rotation matrix of a unit quaternion (w, x, y, z), Hamilton convention"""
    w, x, y, z = q[0], q[1], q[2], q[3]
    return mk([[1 - 2 * (y * y + z * z), 2 * (x * y - z * w), 2 * (x * z + y * w)],
               [2 * (x * y + z * w), 1 - 2 * (x * x + z * z), 2 * (y * z - x * w)],
               [2 * (x * z - y * w), 2 * (y * z + x * w), 1 - 2 * (x * x + y * y)]])
