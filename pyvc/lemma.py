"""Lemmas: obligations stated over the *contracts* of repo functions (calls inside a lemma are
cut by the callee's contract) or over spec functions only (code-independent mathematics)."""
from __future__ import annotations

import traceback
import z3

from . import sym
from .engine import Run
from .contract import C
from .verify import FuncReport

LEMMAS = {}


class Lemma:
    def __init__(self, name, props, fn, role="prop", uses=()):
        self.name, self.props, self.fn, self.role, self.uses = name, list(props), fn, role, list(uses)


def lemma(name, props, role="prop", uses=()):
    def deco(fn):
        LEMMAS[name] = Lemma(name, props, fn, role, uses)
        return fn
    return deco


class LemmaCtx:
    """what a lemma body sees: prove / assume / the loader (contract-cut modules)"""

    def __init__(self, lem, ctx, loader):
        self.lem, self.ctx, self.L = lem, ctx, loader
        self.c = C()

    def module(self, name):
        return self.L.load(name)

    def assume(self, cond):
        self.ctx.assume(cond)

    def assume_all(self, conds):
        for x in conds:
            self.ctx.assume(x)

    def prove(self, label, cond, role=None, note="", keep=False):
        """keep=True: the proved fact becomes a hypothesis of the later steps of this lemma"""
        self.ctx.prove("lemma:%s:%s" % (self.lem.name, label), cond, kind="lemma", props=self.lem.props,
                       role=role or self.lem.role, note=note, where="lemma", assume_after=keep)


def run_lemma(loader, lem):
    rep = FuncReport("lemma:" + lem.name)

    def runner(ctx):
        lem.fn(LemmaCtx(lem, ctx, loader))
        return ("return", None)
    run = Run("lemma:" + lem.name, runner, safety_props=lem.props, max_paths=64)
    try:
        run.explore()
    except Exception as e:
        rep.error = "".join(traceback.format_exception(type(e), e, e.__traceback__))[-3000:]
    rep.vcs = run.vcs
    rep.paths = run.path_no
    rep.out_of_reach = run.out_of_reach
    rep.time = getattr(run, "time", 0.0)
    done = [ctx for ctx, o in run.paths if o[0] == "return"]
    if done and not rep.out_of_reach:
        s = z3.Solver()
        s.set("timeout", 1000)
        for h in done[0].hyps:
            s.add(h)
        rep.vacuous = s.check() == z3.unsat
    return rep
