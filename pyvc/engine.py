"""Path exploration and verification-condition bookkeeping.

A function under verification is executed (the real code, compiled from
/repo's AST by pyvc.loader) on symbolic inputs.  Every symbolic branch forks
the path (depth-first re-execution with a decision prefix); every obligation
(`prove`, `safety`) is recorded as a VC `hyps |- goal` with the hypotheses
collected so far on that path, and discharged afterwards by pyvc.backends.
"""
from __future__ import annotations

import sys
import time
import z3

from . import sym
from .sym import SB, SI, SR, OutOfReach


class PathEnd(Exception):
    """end of a verification path (e.g. after a loop-preservation check)"""


class Infeasible(Exception):
    pass


def _guarded(s, budget_ms):
    try:
        return s.check()
    except z3.Z3Exception:
        return z3.unknown


class VC:
    __slots__ = ("name", "kind", "hyps", "goal", "props", "role", "func", "where", "note", "path",
                 "status", "backend", "time", "model", "detail", "derived")

    def __init__(self, name, kind, hyps, goal, props=(), role="aux", func="", where="", note="", path=0):
        self.name = name
        self.kind = kind
        self.hyps = hyps
        self.goal = goal
        self.props = list(props)
        self.role = role
        self.func = func
        self.where = where
        self.note = note
        self.path = path
        self.derived = ()   # indices of hypotheses that are earlier proved goals (consequences of the others)
        self.status = None  # discharged | refuted | undecided
        self.backend = None
        self.time = 0.0
        self.model = None
        self.detail = ""


def _repo_where():
    f = sys._getframe(2)
    while f is not None:
        fn = f.f_code.co_filename
        if fn.startswith("/repo/") or "/evo/" in fn and not fn.startswith(sys.prefix):
            return "%s:%d" % (fn.replace("/repo/", ""), f.f_lineno)
        f = f.f_back
    return ""


def _has_quantifier(t):
    stack = [t]
    seen = set()
    while stack:
        x = stack.pop()
        if x.get_id() in seen:
            continue
        seen.add(x.get_id())
        if z3.is_quantifier(x):
            return True
        if z3.is_app(x):
            stack.extend(x.children())
    return False


class PathCtx:
    def __init__(self, run, prefix):
        self.run = run
        self.prefix = list(prefix)
        self.decisions = []
        self.hyps = []
        self.vcs = []
        self.counters = {}
        self.solver = z3.Solver()
        self.solver.set("timeout", run.branch_timeout_ms)
        self.events = []  # ghost event log (file system, asks, plot calls ...)
        self.seen_safety = set()
        self.axioms_seen = set()
        self.forced = 0
        self.derived = set()
        self.tags = {}          # hypothesis term id -> tag (e.g. "inv:<label>")
        self.generic = []       # stack of (index var term, guard term): evaluation of a generic element
        self.generic_keep = []
        self.quiet = 0  # >0: safety obligations are not recorded (re-evaluation of pull closures)
        self.ghost = {}

    # ---- naming ---------------------------------------------------------
    def _name(self, base):
        n = self.counters.get(base, 0)
        self.counters[base] = n + 1
        return base if n == 0 else "%s!%d" % (base, n)

    def fresh(self, kind, name):
        nm = self._name(name)
        if self.generic and kind in ("real", "int", "bool"):
            # a value created while evaluating the generic element k of a comprehension depends on k
            ks = [g[0] for g in self.generic]
            srt = {"real": z3.RealSort(), "int": z3.IntSort(), "bool": z3.BoolSort()}[kind]
            f = z3.Function(nm, *([z3.IntSort()] * len(ks) + [srt]))
            return sym.wrap(f(*ks)) if False else {"real": SR, "int": SI, "bool": SB}[kind](f(*ks))
        if kind == "real":
            return SR(z3.Real(nm))
        if kind == "int":
            return SI(z3.Int(nm))
        if kind == "bool":
            return SB(z3.Bool(nm))
        if kind == "str":
            from .strs import SStr
            return SStr(z3.String(nm))
        raise ValueError(kind)

    def fresh_fun(self, name, domain, rng):
        return z3.Function(self._name(name), *(list(domain) + [rng]))

    # ---- hypotheses -----------------------------------------------------
    def _generalise(self, t):
        ks = [g[0] for g in self.generic]
        guard = z3.And(*[g[1] for g in self.generic])
        self.generic_keep.append(sym.forall_t(ks, z3.Implies(guard, t)))

    def assume(self, cond, tag=None):
        if cond is True:
            return
        if cond is False:
            raise Infeasible()
        t = sym._term(cond)
        if tag:
            self.tags[t.get_id()] = tag
        if self.generic:
            self._generalise(t)
        self.hyps.append(t)
        self._solver_add(t)

    def _solver_add(self, t):
        """the path solver (branch feasibility, `known`) sees the quantifier-free hypotheses only: fewer hypotheses
        can only make more paths look feasible (sound), and the queries stay fast"""
        if not _has_quantifier(t):
            self.solver.add(t)

    def axiom(self, t, tag=""):
        if self.quiet and not self.generic:
            return   # inside the body of a quantified clause: instances at bound variables are of no use
        key = t.hash()
        if key in self.axioms_seen:
            return
        if not self.generic:
            self.axioms_seen.add(key)
        else:
            self._generalise(t)
        self.hyps.append(t)
        self._solver_add(t)

    def axiom_global(self, t, tag=""):
        """a closed axiom (no path-local symbols): added once, never generalised"""
        key = t.hash()
        if key in self.axioms_seen:
            return
        self.axioms_seen.add(key)
        self.hyps.insert(0, t)
        self.n_global = getattr(self, "n_global", 0) + 1
        if self.solver.num_scopes() == 0:
            self._solver_add(t)

    def enter_generic(self, k, guard):
        """start evaluating an expression for a generic element index k (0 <= k < n [and filter])"""
        self.solver.push()
        mark = len(self.hyps)
        self.generic.append((sym._term(k), sym._term(guard)))
        g = sym._term(guard)
        self.hyps.append(g)
        self.solver.add(g)
        return (mark, len(self.generic_keep), getattr(self, "n_global", 0))

    def exit_generic(self, token):
        mark, keep_mark, ng = token
        mark += getattr(self, "n_global", 0) - ng   # global axioms are inserted at the front meanwhile
        self.generic.pop()
        del self.hyps[mark:]
        self.solver.pop()
        if not self.generic:
            keep = self.generic_keep[keep_mark:]
            del self.generic_keep[keep_mark:]
            for t in keep:
                self.hyps.append(t)
                self._solver_add(t)

    def note_uf(self, name, t):
        pass

    # ---- branching ------------------------------------------------------
    def branch(self, t) -> bool:
        t = z3.simplify(t)
        if z3.is_true(t):
            return True
        if z3.is_false(t):
            return False
        if self.generic:
            can_t, can_f = self._feasible(t), self._feasible(z3.Not(t))
            if can_t and not can_f:
                return True
            if can_f and not can_t:
                return False
            # ask again with all hypotheses (quantified facts included)
            full = self._decide_full(t)
            if full is not None:
                return full
            raise OutOfReach("the element expression of a comprehension branches on a symbolic condition")
        i = len(self.decisions)
        if i < len(self.prefix):
            d = self.prefix[i]
            self.decisions.append(d)
            self._take(t, d)
            return d
        can_t = self._feasible(t)
        can_f = self._feasible(z3.Not(t))
        if not can_t and not can_f:
            raise Infeasible()
        # forced outcomes are recorded too, so that a re-execution with this prefix takes the same turns even if
        # the solver answers a feasibility query differently (timeouts)
        d = True if can_t else False
        self.decisions.append(d)
        if can_t and can_f:
            self.run.pending.append(self.decisions[:-1] + [False])
        self._take(t, d)
        return d

    def _decide_full(self, t, timeout_ms=4000):
        for val, f in ((True, z3.Not(t)), (False, t)):
            s_ = z3.Solver()
            s_.set("timeout", timeout_ms)
            for h in self.hyps:
                s_.add(h)
            s_.add(f)
            if _guarded(s_, timeout_ms) == z3.unsat:
                return val
        return None

    def _take(self, t, d, record=True):
        c = t if d else z3.Not(t)
        self.hyps.append(c)
        self.solver.add(c)

    def _feasible(self, t):
        self.solver.push()
        self.solver.add(t)
        r = _guarded(self.solver, self.run.branch_timeout_ms)
        self.solver.pop()
        return r != z3.unsat

    def decide(self, tag):
        """a non-deterministic engine-level fork (e.g. loop preservation vs. loop exit)"""
        i = len(self.decisions)
        if i < len(self.prefix):
            d = self.prefix[i]
            self.decisions.append(d)
            return d
        self.decisions.append(True)
        self.run.pending.append(self.decisions[:-1] + [False])
        return True

    # ---- obligations ----------------------------------------------------
    def prove(self, name, cond, kind="post", props=(), role="aux", note="", assume_after=True, where=None,
              only_inv=None):
        """only_inv: set of invariant-clause labels this obligation is declared to depend on; the other assumed
        invariant clauses are left out of its hypotheses (dropping hypotheses is sound)"""
        if where is None:
            where = _repo_where()
        goal = sym._term(cond) if not isinstance(cond, bool) else z3.BoolVal(cond)
        hyps = list(self.hyps)
        if only_inv is not None:
            keep = {"inv:" + x for x in only_inv}
            hyps = [h for h in hyps if not self.tags.get(h.get_id(), "").startswith("inv:")
                    or self.tags[h.get_id()] in keep]
        vc = VC(name, kind, hyps, goal, props, role, self.run.func_name, where, note,
                path=self.run.path_no)
        vc.derived = tuple(i for i, h in enumerate(vc.hyps) if h.get_id() in self.derived)
        self.vcs.append(vc)
        if assume_after and not z3.is_true(goal):
            self.hyps.append(goal)
            self.derived.add(goal.get_id())
            self._solver_add(goal)
        return vc

    def safety(self, kind, cond, note="", quant=None):
        if self.quiet:
            return
        if cond is True:
            return
        where = _repo_where()
        goal = sym._term(cond) if not isinstance(cond, bool) else z3.BoolVal(cond)
        key = (kind, where, goal.hash())
        if key in self.seen_safety:
            return
        self.seen_safety.add(key)
        name = "%s@%s" % (kind, where)
        self.prove(name, cond, kind=kind, props=self.run.safety_props, role="safety", note=note, where=where)

    def event(self, *ev):
        self.events.append(ev)


class Run:
    """exploration of one function (all paths)"""

    def __init__(self, func_name, runner, safety_props=(), max_paths=400, branch_timeout_ms=400):
        self.func_name = func_name
        self.runner = runner
        self.safety_props = list(safety_props)
        self.pending = [[]]
        self.max_paths = max_paths
        self.branch_timeout_ms = branch_timeout_ms
        self.paths = []
        self.vcs = []
        self.path_no = 0
        self.out_of_reach = None
        self.infeasible = 0

    def explore(self):
        t0 = time.time()
        while self.pending:
            if self.path_no >= self.max_paths:
                self.out_of_reach = "more than %d paths" % self.max_paths
                break
            prefix = self.pending.pop()
            ctx = PathCtx(self, prefix)
            old = sym._CUR[0]
            sym._CUR[0] = ctx
            self.path_no += 1
            try:
                outcome = self.runner(ctx)
                self.paths.append((ctx, outcome))
            except PathEnd:
                self.paths.append((ctx, ("end", None)))
            except Infeasible:
                self.infeasible += 1
                # obligations recorded before the contradiction are still obligations
            except OutOfReach as e:
                self.out_of_reach = "%s" % (e, )
                self.paths.append((ctx, ("out_of_reach", str(e))))
            finally:
                sym._CUR[0] = old
            self.vcs.extend(ctx.vcs)
        self.time = time.time() - t0
        return self
