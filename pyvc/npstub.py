"""Trusted library contracts: symbolic numpy / math / scipy.spatial.transform.

Each function here *is* the assumed contract of the library function of the
same name (assumption A2); functions with a closed form on fixed shapes are
expanded to that form (dot, det, trace, ...), the others become uninterpreted
functions constrained by axioms instantiated at the call's ground terms.
An attribute that is not modelled raises OutOfReach (the calling function is
then reported as out of reach -- never silently defaulted).  Every entry used
on a run is recorded in `USED` and listed in the evidence (trusted_base).
"""
from __future__ import annotations

import itertools
from fractions import Fraction

import numpy as _np
import z3

from . import sym
from .sym import (CArr, SArr, SArrT, SSeq, SB, SI, SR, OutOfReach, carr, cur, fresh, is_sym, sand, sor, snot,
                  site, sdiv, sabs, ssqrt, scbrt, smin2, smax2, simplies, R, I, B, uf, _term, wrap, to_real)

USED = set()


def _use(name):
    USED.add(name)


class _Stub:
    def __init__(self, name):
        object.__setattr__(self, "_name", name)

    def __getattr__(self, a):
        raise OutOfReach("unmodelled library member %s.%s" % (self._name, a))


def _is_arr(x):
    return isinstance(x, (CArr, SArr, SArrT, _np.ndarray))


def _c(x):
    """to CArr if concrete-shape data"""
    if isinstance(x, CArr):
        return x
    if isinstance(x, _np.ndarray):
        return CArr(x)
    if isinstance(x, (list, tuple)):
        return CArr(_list_to_obj(x))
    return x


def _list_to_obj(x):
    if isinstance(x, (list, tuple)):
        if len(x) == 0:
            return _np.empty((0, ), dtype=object)
        rows = [_list_to_obj(r) for r in x]
        if any(isinstance(r, _np.ndarray) for r in rows):
            rows = [_np.asarray(r, dtype=object) for r in rows]
            shp = rows[0].shape
            if any(r.shape != shp for r in rows):
                raise OutOfReach("ragged nested sequence in np.array")
            out = _np.empty((len(rows), ) + shp, dtype=object)
            for i, r in enumerate(rows):
                out[i] = r
            return out
        out = _np.empty((len(rows), ), dtype=object)
        for i, r in enumerate(rows):
            out[i] = r
        return out
    if isinstance(x, _np.ndarray):
        return x
    return x


def _probe_shape(seq):
    """inner shape of the elements of a symbolic sequence"""
    c = cur()
    c.quiet += 1
    try:
        k = fresh("int", "probe")
        e = seq.get(k)
    finally:
        c.quiet -= 1
    if isinstance(e, _np.ndarray):
        return e.shape
    if isinstance(e, (list, tuple)):
        return _np.shape(_list_to_obj(e))
    return ()


class _NdMeta(type):
    def __instancecheck__(cls, x):
        return isinstance(x, (CArr, SArr, SArrT, _np.ndarray))


class ndarray(metaclass=_NdMeta):
    """stands for numpy.ndarray in isinstance tests and type aliases"""


class NP(_Stub):

    def __init__(self):
        super().__init__("numpy")
        object.__setattr__(self, "linalg", _Linalg("numpy.linalg"))
        object.__setattr__(self, "newaxis", None)
        object.__setattr__(self, "ndarray", ndarray)
        object.__setattr__(self, "float64", float)
        object.__setattr__(self, "lib", _np.lib)

    def __getattr__(self, a):
        if a == "pi":
            return sym.pi_axiom()
        return super().__getattr__(a)

    # ---- construction ----------------------------------------------------
    def array(self, x, dtype=None, copy=True):
        _use("numpy.array")
        if hasattr(x, "__pyvc_array__"):
            return x.__pyvc_array__(dtype)
        if copy is False and isinstance(x, (CArr, SArr)):
            return x
        if isinstance(x, SArr):
            return x.copy()
        if isinstance(x, SSeq):
            if x.concrete():
                return self.array([x.get(i) for i in range(x.length())], dtype=dtype)
            inner = _probe_shape(x)
            g = x._get
            if inner == ():
                return SArr((x.length(), ), g, "int" if dtype is int or x.elem_kind == "int" else "real")
            return SArr((x.length(), ) + tuple(inner), lambda k: _c(g(k)), "real")
        if isinstance(x, _np.ndarray):
            r = CArr(x)
            return r.copy().view(CArr) if copy else r
        if isinstance(x, (list, tuple)):
            return CArr(_list_to_obj(list(x)))
        if is_sym(x) or isinstance(x, (int, float, Fraction)):
            return CArr(x)
        raise OutOfReach("np.array of %s" % type(x).__name__)

    def asarray(self, x, dtype=None):
        if _is_arr(x):
            return _c(x)
        return self.array(x)

    def eye(self, n, dtype=None):
        _use("numpy.eye")
        return CArr(_np.eye(n, dtype=int).astype(object))

    identity = eye

    def zeros(self, shape, dtype=None):
        _use("numpy.zeros")
        shp = shape if isinstance(shape, tuple) else (shape, )
        if any(is_sym(s) for s in shp):
            return SArr(shp, lambda k: 0 if len(shp) == 1 else CArr(_np.zeros(shp[1:], dtype=int).astype(object)))
        return CArr(_np.zeros(shp, dtype=int).astype(object))

    def ones(self, shape, dtype=None):
        _use("numpy.ones")
        shp = shape if isinstance(shape, tuple) else (shape, )
        if any(is_sym(s) for s in shp):
            return SArr(shp, lambda k: 1 if len(shp) == 1 else CArr(_np.ones(shp[1:], dtype=int).astype(object)))
        return CArr(_np.ones(shp, dtype=int).astype(object))

    def arange(self, *a, dtype=None):
        _use("numpy.arange")
        if len(a) == 1:
            start, stop, step = 0, a[0], 1
        elif len(a) == 2:
            start, stop, step = a[0], a[1], 1
        else:
            start, stop, step = a
        if not any(is_sym(v) for v in (start, stop, step)):
            return CArr(_np.arange(start, stop, step).astype(object))
        from fractions import Fraction as _Fr
        if isinstance(start, (float, _Fr)) and start == int(start):
            start = int(start)          # np.arange(0., n): the integer-valued grid (as floats)
        if not (isinstance(step, (int, SI)) and isinstance(start, (int, SI)) and isinstance(stop, (int, SI))):
            raise OutOfReach("np.arange with non-integer arguments")
        cur().safety("pre.arange", step > 0, note="arange modelled for positive integer steps")
        # length m = ceil((stop-start)/step) for stop > start else 0
        if isinstance(step, int) and step == 1:
            m = smax2(0, stop - start)
        else:
            m = fresh("int", "arange_len")
            cur().assume(sand(m >= 0, simplies(stop <= start, m == 0),
                              simplies(stop > start, sand((m - 1) * step < stop - start, stop - start <= m * step))))
        return SArr((m, ), lambda k: start + k * step, "int")

    def linspace(self, start, stop, num=50, endpoint=True, dtype=None):
        _use("numpy.linspace")
        if not (getattr(dtype, "__name__", "") in ("int", "_b_int") and endpoint is True and isinstance(start, int)
                and start == 0):
            raise OutOfReach("np.linspace signature not modelled")
        # trusted contract (measured, DESIGN C11): ids[0]=0, ids[num-1]=stop (num>=2),
        # x_k - 1 <= ids[k] <= x_k with x_k = k*stop/(num-1), non-decreasing
        f = cur().fresh_fun("linspace", [I], I)
        num_t, stop_t = _term(num), _term(stop)
        k = z3.Int("k!ls")
        j = z3.Int("j!ls")
        c = cur()
        c.assume(SB(z3.ForAll([k], z3.Implies(z3.And(0 <= k, k < num_t, num_t >= 2),
                                              z3.And(f(k) * (num_t - 1) <= k * stop_t,
                                                     k * stop_t < (f(k) + 2) * (num_t - 1),
                                                     0 <= f(k), f(k) <= stop_t), ), patterns=[f(k)])))
        c.assume(SB(z3.Implies(num_t >= 1, f(0) == 0)))
        c.assume(SB(z3.Implies(num_t >= 2, f(num_t - 1) == stop_t)))
        c.assume(SB(z3.ForAll([k, j], z3.Implies(z3.And(0 <= k, k < j, j < num_t), f(k) <= f(j)),
                              patterns=[z3.MultiPattern(f(k), f(j))])))
        r = SArr((num, ), lambda q: wrap(f(_term(q))), "int")
        c.ghost["linspace_result"] = r
        return r

    # ---- element-wise ----------------------------------------------------
    def _ew1(self, x, f):
        if isinstance(x, SArr):
            g = x._cell[0]
            return SArr(x.shape, lambda k: sym._ew1(f, g(k)), x.kind)
        if isinstance(x, (_np.ndarray, list, tuple)):
            return sym._ew1(f, _c(x))
        return f(x)

    def abs(self, x):
        _use("numpy.abs")
        return self._ew1(x, sabs)

    absolute = abs

    def negative(self, x, out=None):
        if out is not None:
            raise OutOfReach("np.negative(out=)")
        return self._ew1(x, lambda a: -a)

    def rad2deg(self, x):
        _use("numpy.rad2deg")
        return self._ew1(x, rad2deg)

    def deg2rad(self, x):
        _use("numpy.deg2rad")
        return self._ew1(x, deg2rad)

    def power(self, x, e):
        _use("numpy.power")
        if isinstance(e, Fraction) and e == Fraction(1, 3):
            # trusted: power(x, 1/3) is the real cube root for x >= 0 and NaN below (modelled by the caller)
            return self._ew1(x, scbrt)
        if isinstance(e, int):
            return self._ew1(x, lambda a: sym.spow(a, e))
        raise OutOfReach("np.power exponent %r" % (e, ))

    def sqrt(self, x):
        _use("numpy.sqrt")
        return self._ew1(x, ssqrt)

    def _ew2(self, a, b, f):
        if isinstance(a, SArr):
            return a._bin(b, f)
        if isinstance(b, SArr):
            return b._bin(a, lambda x, y: f(y, x))
        if _is_arr(a) or _is_arr(b) or isinstance(a, (list, tuple)) or isinstance(b, (list, tuple)):
            return sym._ew(f, _c(a) if not is_sym(a) else a, _c(b) if not is_sym(b) else b)
        return f(a, b)

    def multiply(self, a, b):
        _use("numpy.multiply")
        return self._ew2(a, b, lambda x, y: x * y)

    def divide(self, a, b):
        _use("numpy.divide")
        return self._ew2(a, b, sdiv)

    def add(self, a, b):
        _use("numpy.add")
        return self._ew2(a, b, lambda x, y: x + y)

    def subtract(self, a, b):
        return self._ew2(a, b, lambda x, y: x - y)

    def equal(self, a, b):
        _use("numpy.equal")
        return self._ew2(a, b, lambda x, y: x == y)

    def logical_and(self, a, b):
        _use("numpy.logical_and")
        r = self._ew2(a, b, lambda x, y: sand(x, y))
        if isinstance(r, SArr):
            r.kind = "bool"
        return r

    def allclose(self, a, b, rtol=Fraction(1, 100000), atol=Fraction(1, 100000000)):
        """trusted: allclose(a,b) <=> all |a-b| <= atol + rtol*|b|   (finite values)"""
        _use("numpy.allclose")
        rtol, atol = sym.cnum(rtol), sym.cnum(atol)
        r = self._ew2(a, b, lambda x, y: sabs(x - y) <= atol + rtol * sabs(y))
        if isinstance(r, SArr):
            return _forall_arr(r)
        if isinstance(r, _np.ndarray):
            return sand(*list(r.flat))
        return r

    def array_equal(self, a, b):
        r = self._ew2(a, b, lambda x, y: x == y)
        if isinstance(r, _np.ndarray):
            return sand(*list(r.flat))
        raise OutOfReach("array_equal on symbolic extent")

    def isscalar(self, x):
        return not _is_arr(x) and not isinstance(x, (list, tuple, SSeq, dict, str))

    # ---- products --------------------------------------------------------
    def dot(self, a, b):
        _use("numpy.dot")
        if isinstance(a, (SArr, SArrT)) or isinstance(b, (SArr, SArrT)):
            raise OutOfReach("np.dot on symbolic extent")
        a, b = _c(a), _c(b)
        if a.ndim == 0 or b.ndim == 0:
            return a * b
        return _np.dot(_np.asarray(a), _np.asarray(b)).view(CArr) if (a.ndim + b.ndim) > 2 \
            else _np.dot(_np.asarray(a), _np.asarray(b))

    def outer(self, a, b):
        _use("numpy.outer")
        a, b = _c(a), _c(b)
        out = _np.empty((a.size, b.size), dtype=object)
        for i in range(a.size):
            for j in range(b.size):
                out[i, j] = a.flat[i] * b.flat[j]
        return out.view(CArr)

    def trace(self, a):
        _use("numpy.trace")
        a = _c(a)
        r = 0
        for i in range(min(a.shape)):
            r = r + a[i, i]
        return r

    def diag(self, v):
        _use("numpy.diag")
        v = _c(v)
        if v.ndim == 1:
            out = _np.zeros((v.size, v.size), dtype=int).astype(object)
            for i in range(v.size):
                out[i, i] = v[i]
            return out.view(CArr)
        return CArr([v[i, i] for i in range(min(v.shape))])

    # ---- reductions -------------------------------------------------------
    def sum(self, x, axis=None):
        _use("numpy.sum")
        if isinstance(x, SArr):
            if x.ndim == 1 and axis in (None, 0):
                return spec_sum(x, x.shape[0])
            raise OutOfReach("np.sum over symbolic 2-D")
        return _c(x).sum(axis=axis)

    def mean(self, x, axis=None):
        _use("numpy.mean")
        if isinstance(x, SArr):
            if x.ndim == 1:
                cur().safety("pre.mean_nonempty", x.shape[0] > 0)
                return sdiv(spec_sum(x, x.shape[0]), x.shape[0])
            raise OutOfReach("np.mean over symbolic 2-D")
        return _c(x).mean(axis=axis)

    def max(self, x, axis=None):
        _use("numpy.max")
        if isinstance(x, SArr):
            return _extremum(x, True)
        return _c(x).max(axis=axis)

    amax = max

    def min(self, x, axis=None):
        _use("numpy.min")
        if isinstance(x, SArr):
            return _extremum(x, False)
        return _c(x).min(axis=axis)

    amin = min

    def std(self, x, axis=None, ddof=0):
        """trusted: population standard deviation sqrt(mean((x-mean x)^2)); ddof changes the divisor"""
        _use("numpy.std")
        if not isinstance(x, SArr) or x.ndim != 1:
            raise OutOfReach("np.std shape")
        n = x.shape[0]
        m = self.mean(x)
        dev = (x - m)**2
        return ssqrt(sdiv(spec_sum(dev, n), n - ddof))

    def median(self, x):
        """trusted: median = spec Median (an order statistic: uninterpreted, with min <= median <= max)"""
        _use("numpy.median")
        if not isinstance(x, SArr) or x.ndim != 1:
            raise OutOfReach("np.median shape")
        return spec_median(x)

    def cumsum(self, x):
        _use("numpy.cumsum")
        if isinstance(x, SArr) and x.ndim == 1:
            return spec_cumsum(x)
        if isinstance(x, _np.ndarray):
            x = _c(x)
            out, acc = [], 0
            for v in x.flat:
                acc = acc + v
                out.append(acc)
            return CArr(out)
        raise OutOfReach("np.cumsum shape")

    def count_nonzero(self, x):
        _use("numpy.count_nonzero")
        x = _c(x)
        r = 0
        for v in x.flat:
            r = r + site(v if isinstance(v, (SB, bool)) else (v != 0), 1, 0)
        return r

    def all(self, x):
        if isinstance(x, SArr):
            return _forall_arr(x)
        return _c(x).all()

    def any(self, x):
        """trusted: any(x) <=> some element is non-zero / true  (= not all elements are zero / false)"""
        _use("numpy.any")
        if isinstance(x, SArr):
            def zero(v):
                if isinstance(v, _np.ndarray):
                    return sand(*[zero(e) for e in v.flat])
                return snot(v) if isinstance(v, (SB, bool)) else (v == 0)
            return snot(_forall_arr(x, zero))
        return _c(x).any()

    def argmin(self, x):
        """trusted: first index of a minimal element"""
        _use("numpy.argmin")
        if isinstance(x, SArr) and x.ndim == 1:
            n = x.shape[0]
            c = cur()
            c.safety("pre.argmin_nonempty", n >= 1)
            r = fresh("int", "argmin")
            g = x._cell[0]
            j = z3.Int("j!am")
            xr = _term(to_real(g(r)))
            c.quiet += 1
            try:
                xj = _term(to_real(g(SI(j))))
            finally:
                c.quiet -= 1
            c.assume(sand(0 <= r, r < n))
            sym.mark_index(r)
            c.assume(SB(sym.forall_t([j], z3.Implies(z3.And(0 <= j, j < _term(n)), xr <= xj))))
            c.assume(SB(sym.forall_t([j], z3.Implies(z3.And(0 <= j, j < _term(r)), xr < xj))))
            return r
        x = _c(x)
        vals = list(x.flat)
        if not vals:
            raise ValueError("attempt to get argmin of an empty sequence")
        best, bi = vals[0], 0
        for i, v in enumerate(vals[1:], 1):
            lt = v < best
            bi = site(lt, i, bi)
            best = site(lt, v, best)
        return bi

    def concatenate(self, arrs, axis=0):
        _use("numpy.concatenate")
        parts = list(arrs) if not isinstance(arrs, SSeq) else None
        if parts is None:
            raise OutOfReach("np.concatenate over symbolic number of arrays")
        if all(not isinstance(p, SArr) for p in parts):
            return _np.concatenate([_np.atleast_1d(_np.asarray(_c(p), dtype=object)) for p in parts]).view(CArr)
        # 1-D / row-wise concatenation of symbolic-length parts
        segs = []
        for p in parts:
            if isinstance(p, SArr):
                segs.append((p.shape[0], p._cell[0], p.shape[1:], p.kind))
            else:
                q = _c(p)
                lst = [q[i] for i in range(q.shape[0])]
                segs.append((len(lst), (lambda k, lst=lst: sym._pick(lst, k)), q.shape[1:], "int"))
        total = 0
        for s in segs:
            total = total + s[0]
        kind = "real" if any(s[3] == "real" for s in segs) else segs[0][3]

        def get(k, segs=segs):
            off = 0
            offs = []
            for s in segs:
                offs.append(off)
                off = off + s[0]
            # last segment is the default
            r = segs[-1][1](k - offs[-1])
            for s, o in reversed(list(zip(segs[:-1], offs[:-1]))):
                r = sym.ite_any(k < o + s[0], s[1](k - o), r)
            return r
        r = SArr((total, ) + tuple(segs[0][2]), get, kind)
        if kind == "int":
            cur().ghost["concat_bounds"] = r
        return r

    def append(self, a, b):
        _use("numpy.append")
        return self.concatenate([self.ravel(a), self.ravel(b)])

    def ravel(self, a):
        if isinstance(a, SArr):
            if a.ndim != 1:
                raise OutOfReach("ravel of 2-D symbolic array")
            return a
        return _c(a).reshape(-1)

    def where(self, cond, *a):
        """trusted: where(c)[0] is the increasing list of all indices with c true"""
        _use("numpy.where")
        if a:
            raise OutOfReach("3-argument np.where")
        if isinstance(cond, SArr) and cond.ndim == 1:
            r = filtered_indices(cond.shape[0], cond._cell[0])
            cur().ghost["where_result"] = r
            return (r, )
        raise OutOfReach("np.where on concrete arrays")

    def roll(self, a, shift, axis=None):
        _use("numpy.roll")
        if isinstance(a, SArr):
            if axis != 1 or a.ndim != 2:
                raise OutOfReach("np.roll on symbolic array other than axis=1")
            g = a._cell[0]
            return SArr(a.shape, lambda k: _np.roll(_np.asarray(g(k)), shift).view(CArr), a.kind)
        return _np.roll(_np.asarray(_c(a)), shift, axis=axis).view(CArr)

    def column_stack(self, cols):
        _use("numpy.column_stack")
        cols = list(cols)
        if not any(isinstance(c_, SArr) for c_ in cols):
            return _np.column_stack([_np.asarray(_c(c_)) for c_ in cols]).view(CArr)
        n = [c_ for c_ in cols if isinstance(c_, SArr)][0].shape[0]
        gs = []
        width = 0
        for c_ in cols:
            if not isinstance(c_, SArr):
                raise OutOfReach("column_stack mixing symbolic and concrete arrays")
            cur().safety("safe.shape", c_.shape[0] == n)
            gs.append((c_._cell[0], c_.ndim))
            width += 1 if c_.ndim == 1 else c_.shape[1]

        def get(k, gs=gs):
            row = []
            for g, nd in gs:
                v = g(k)
                if nd == 1:
                    row.append(v)
                else:
                    row.extend(list(v))
            return CArr(row)
        return SArr((n, width), get, "real")

    def finfo(self, dt):
        class _F:
            eps = Fraction(1, 2**52)
        return _F()

    def sort(self, x):
        raise OutOfReach("np.sort")

    def unique(self, x, *a, **kw):
        raise OutOfReach("np.unique")


def deg2rad(a):
    """trusted: numpy.deg2rad(x) = x * pi / 180.  Kept as an uninterpreted function (its numeric meaning makes every
    comparison that involves it nonlinear); `unit_conversion_meaning()` asserts the meaning where a proof needs it."""
    if not sym.has_ctx():
        import math
        return math.radians(float(a))
    if not is_sym(a):
        if sym.cnum(a) == 0:
            return 0
        a = to_real(sym.cnum(a)) if is_sym(to_real(sym.cnum(a))) else SR(sym.realval(sym.cnum(a)))
    t = _term(to_real(a))
    y = uf("deg2rad", R, R)(t)
    cur().axiom(z3.And((y >= 0) == (t >= 0), (y == 0) == (t == 0)), "deg2rad.sign")
    cur().ghost.setdefault("unit_terms", []).append(("deg2rad", t, y))
    return wrap(y)


def rad2deg(a):
    if not sym.has_ctx():
        import math
        return math.degrees(float(a))
    if not is_sym(a):
        if sym.cnum(a) == 0:
            return 0
        a = SR(sym.realval(sym.cnum(a)))
    t = _term(to_real(a))
    y = uf("rad2deg", R, R)(t)
    cur().axiom(z3.And((y >= 0) == (t >= 0), (y == 0) == (t == 0)), "rad2deg.sign")
    cur().ghost.setdefault("unit_terms", []).append(("rad2deg", t, y))
    return wrap(y)


def unit_conversion_meaning():
    """on request: deg2rad(x) = x*pi/180 and rad2deg(x) = x*180/pi for the conversion terms met so far"""
    c = cur()
    pi = sym.pi_axiom()
    for kind, t, y in c.ghost.get("unit_terms", []):
        if kind == "deg2rad":
            c.axiom(y * 180 == t * pi.t, "deg2rad.def")
        else:
            c.axiom(y * pi.t == t * 180, "rad2deg.def")


def _forall_arr(x, pred=None):
    """Bool: every element of a boolean SArr is true -- or satisfies `pred` -- (as a quantified formula)"""
    n = x.shape[0]
    k = cur().fresh("int", "k!all")
    c = cur()
    c.quiet += 1
    try:
        body = x._cell[0](k)
        if pred is not None:
            body = pred(body)
    finally:
        c.quiet -= 1
    if isinstance(body, _np.ndarray):
        body = sand(*list(body.flat))
    kt = k.t
    return SB(z3.ForAll([kt], z3.Implies(z3.And(0 <= kt, kt < _term(n)), _term(body))))


def _extremum(x, is_max):
    n = x.shape[0]
    c = cur()
    c.safety("pre.nonempty", n >= 1)
    r = fresh("real", "max" if is_max else "min")
    w = fresh("int", "argext")
    g = x._cell[0]
    j = z3.Int("j!ext")
    c.quiet += 1
    try:
        xj = _term(to_real(g(SI(j))))
        xw = _term(to_real(g(w)))
    finally:
        c.quiet -= 1
    c.assume(sand(0 <= w, w < n, SB(xw == r.t)))
    c.assume(SB(z3.ForAll([j], z3.Implies(z3.And(0 <= j, j < _term(n)), (r.t >= xj) if is_max else (r.t <= xj)))))
    return r


# ---- spec functions over symbolic extents (shared with contracts) ------------------

_SUMS = {}


def _arr_fun(x):
    """(z3 function of k) for a 1-D SArr: used to name Sum/Cumsum terms by content.
    The array is abstracted by a fresh uninterpreted function f with the defining
    hypothesis forall k. f(k) = x[k]."""
    c = cur()
    key = ("arrfun", id(x._cell[0]))
    cache = c.ghost.setdefault("arrfun", {})
    if key in cache:
        return cache[key][0]
    f = c.fresh_fun("arr", [I], R)
    k = z3.Int("k!af")
    c.quiet += 1
    try:
        body = _term(to_real(x._cell[0](SI(k))))
    finally:
        c.quiet -= 1
    c.assume(SB(z3.ForAll([k], f(k) == body, patterns=[f(k)])))
    cache[key] = (f, x._cell[0])  # keep the closure alive so that id() stays unique
    return f


def prefix_sum(body, nonneg=False):
    """ghost function PS(k) = body(0) + ... + body(k-1) -- the trusted meaning of running sums (numpy.cumsum,
    numpy.sum, accumulated path length) -- keyed by the *term* of the summand, so that the same summand always names
    the same function.  Its defining recurrence  PS(0) = 0, PS(t+1) = PS(t) + body(t)  is instantiated at the index
    terms the code / contract actually uses (no quantified recurrence: no matching loops)."""
    c = cur()
    K = z3.Int("k!ps")
    c.quiet += 1
    try:
        bt = _term(to_real(body(SI(K))))
    finally:
        c.quiet -= 1
    key = bt.sexpr()
    reg = c.ghost.setdefault("prefix_sum", {})
    if key not in reg:
        S = c.fresh_fun("psum", [I], R)
        c.assume(SB(S(0) == 0))
        if nonneg:
            # a sum of non-negative summands is non-negative (needs induction: stated with the definition)
            c.assume(SB(z3.ForAll([K], z3.Implies(K >= 0, S(K) >= 0), patterns=[S(K)])))
        reg[key] = (S, set())
    S, done = reg[key]

    def inst(t):
        """recurrence instances around index term t"""
        for u in (t, z3.simplify(t - 1)):
            h = u.hash()
            if h in done:
                continue
            done.add(h)
            bu = z3.substitute(bt, (K, u))
            norm3_axioms(bu)
            f = z3.Implies(u >= 0, S(z3.simplify(u + 1)) == S(u) + bu)
            if nonneg:
                f = z3.And(f, z3.Implies(u >= 0, S(z3.simplify(u + 1)) >= S(u)))
            cur().axiom(f, "psum.rec")

    def PS(k):
        t = z3.simplify(_term(k)) if not isinstance(k, int) else z3.IntVal(k)
        ctx = cur()
        if not ctx.quiet and not ctx.generic:
            inst(t)
        return wrap(S(t))
    PS.fn = S
    return PS


def spec_cumsum(x):
    """cumsum(x)[k] = x[0] + ... + x[k] = PS(k+1)"""
    g = x._cell[0]
    PS = prefix_sum(lambda k: g(k))
    return SArr(x.shape, lambda q: PS(q + 1), "real")


def path_D(pos):
    """spec: travelled path length from point 0 to point k of a point sequence `pos(k) -> 3-vector`:
    D(k) = sum_{j<k} |pos(j) - pos(j+1)|, i.e. D(0) = 0, D(k+1) = D(k) + |pos(k+1) - pos(k)|"""
    return prefix_sum(lambda j: _norm_c(CArr([pos(j)[i] - pos(j + 1)[i] for i in range(3)])), nonneg=True)


def spec_sum(x, n):
    g = x._cell[0]
    return prefix_sum(lambda k: g(k))(n)


def spec_median(x):
    c = cur()
    r = fresh("real", "median")
    lo, hi = _extremum(x, False), _extremum(x, True)
    c.assume(sand(lo <= r, r <= hi))
    c.ghost.setdefault("median_of", []).append((r, x))
    return r


def filtered_indices(n, pred):
    """increasing SArr of exactly the indices k in [0,n) with pred(k) (trusted contract of where/argwhere
    and the meaning of a filtering loop).  Axioms: range, strictly increasing, sound, complete."""
    c = cur()
    m = fresh("int", "nsel")
    f = c.fresh_fun("sel", [I], I)
    a, b, k = z3.Int("a!fi"), z3.Int("b!fi"), z3.Int("k!fi")
    nt, mt = _term(n), _term(m)
    c.quiet += 1
    try:
        pf = _term(pred(SI(f(a))))
        pk = _term(pred(SI(k)))
    finally:
        c.quiet -= 1
    c.assume(sand(0 <= m, m <= n))
    c.assume(SB(z3.ForAll([a], z3.Implies(z3.And(0 <= a, a < mt), z3.And(0 <= f(a), f(a) < nt, pf)),
                          patterns=[f(a)])))
    c.assume(SB(z3.ForAll([a, b], z3.Implies(z3.And(0 <= a, a < b, b < mt), f(a) < f(b)),
                          patterns=[z3.MultiPattern(f(a), f(b))])))
    # consequences of 'strictly increasing within [0, n)' that need induction (stated, not derived, here):
    # sel(a) >= a, and the selection of *all* indices is the identity list
    c.assume(SB(z3.ForAll([a], z3.Implies(z3.And(0 <= a, a < mt), z3.And(f(a) >= a, z3.Implies(mt == nt, f(a) == a))),
                          patterns=[f(a)])))
    inv = c.fresh_fun("selinv", [I], I)
    c.assume(SB(z3.ForAll([k], z3.Implies(z3.And(0 <= k, k < nt, pk),
                                          z3.And(0 <= inv(k), inv(k) < mt, f(inv(k)) == k)),
                          patterns=[sym.tr(SI(k))])))
    return SArr((m, ), lambda q: wrap(f(_term(q))), "int")


# ---- linalg ---------------------------------------------------------------------

def det(a):
    if isinstance(a, _np.ndarray) and a.dtype != object:
        return float(_np.linalg.det(a))
    a = _c(a)
    n = a.shape[0]
    if a.shape != (n, n):
        raise OutOfReach("det of non-square")
    if n == 1:
        return a[0, 0]
    if n == 2:
        return a[0, 0] * a[1, 1] - a[0, 1] * a[1, 0]
    r = 0
    for j in range(n):
        minor = _np.delete(_np.delete(_np.asarray(a), 0, axis=0), j, axis=1).view(CArr)
        term = a[0, j] * det(minor)
        r = r + term if j % 2 == 0 else r - term
    return r


class _Linalg(_Stub):
    def norm(self, x, axis=None):
        """trusted: 2-norm of a vector / Frobenius norm of a matrix = sqrt(sum of squares)"""
        _use("numpy.linalg.norm")
        if isinstance(x, SArrT) and axis is None:
            # Frobenius norm over a (d, n) array: sqrt of the sum over the n columns of the squared column norms
            g = x.base._cell[0]
            d = x.shape[0]

            def sq(k):
                r = 0
                row = g(k)
                for i in range(d):
                    r = r + row[i] * row[i]
                return r
            return ssqrt(prefix_sum(sq, nonneg=True)(x.shape[1]))
        if isinstance(x, SArr):
            if axis == 1 and x.ndim == 2:
                g = x._cell[0]
                return SArr((x.shape[0], ), lambda k: _norm_c(g(k)), "real")
            if axis is None and x.ndim == 1:
                return ssqrt(spec_sum(x * x, x.shape[0]))
            raise OutOfReach("norm over symbolic extent")
        if axis is not None:
            raise OutOfReach("norm(axis) on concrete array")
        if is_sym(x) or isinstance(x, (int, Fraction, float)):
            return sabs(x)
        return _norm_c(_c(x))

    def det(self, a):
        _use("numpy.linalg.det")
        return det(a)

    def svd(self, a):
        """trusted: a = u diag(d) v, u and v orthogonal, d sorted non-increasing, >= 0"""
        _use("numpy.linalg.svd")
        a = _c(a)
        m = a.shape[0]
        if a.shape != (m, m):
            raise OutOfReach("svd of non-square")
        u = sym.sym_matrix("svd_u", (m, m))
        v = sym.sym_matrix("svd_v", (m, m))
        d = sym.sym_matrix("svd_d", (m, ))
        c = cur()
        eye = _np.eye(m, dtype=int).astype(object)
        c.assume(sym.eq_all(_np.dot(u.T, u), eye))
        c.assume(sym.eq_all(_np.dot(u, u.T), eye))
        c.assume(sym.eq_all(_np.dot(v.T, v), eye))
        c.assume(sym.eq_all(_np.dot(v, v.T), eye))
        for i in range(m):
            c.assume(d[i] >= 0)
            if i:
                c.assume(d[i - 1] >= d[i])
        dm = _np.zeros((m, m), dtype=int).astype(object)
        for i in range(m):
            dm[i, i] = d[i]
        c.assume(sym.eq_all(_np.dot(_np.dot(u, dm), v), a))
        # orthogonal matrices have determinant +1 or -1 (a consequence of u^T u = I, stated for the solver)
        for q in (u, v):
            dq = det(q)
            c.assume(sor(dq == 1, dq == -1))
        c.ghost["svd"] = (a, u, d, v)
        return u, d, v


def _norm_c(v):
    """Euclidean / Frobenius norm.  3-vectors: uninterpreted norm3(a, b, c) with ground-instantiated axioms
    (non-negative, even, zero at zero; norm3^2 = a^2+b^2+c^2 only on request).  Other shapes: sqrt of the sum of
    squares with the radicand in sum-of-monomials normal form."""
    v = _c(v)
    if v.shape == (3, ) and sym.has_ctx() and any(is_sym(e) for e in v.flat):
        return norm3(v[0], v[1], v[2])
    s = 0
    for e in v.flat:
        s = s + e * e
    if is_sym(s) and sym.has_ctx():
        s = wrap(z3.simplify(s.t, som=True))
    return ssqrt(s, square_axiom=False)


def _norm3_fn():
    return uf("norm3", R, R, R, R)


def norm3(a, b, c_):
    f = _norm3_fn()
    args = [z3.simplify(_term(to_real(x))) for x in (a, b, c_)]
    y = f(*args)
    norm3_axioms(y)
    return wrap(y)


def norm3_axioms(term):
    """ground instances of the norm3 axioms for every norm3 application inside `term`"""
    c = cur()
    f = _norm3_fn()
    stack = [term]
    seen = set()
    while stack:
        t = stack.pop()
        if t.get_id() in seen:
            continue
        seen.add(t.get_id())
        if z3.is_quantifier(t):
            continue
        if z3.is_app(t):
            if t.decl().eq(f):
                a0, a1, a2 = t.children()
                neg = f(z3.simplify(-a0), z3.simplify(-a1), z3.simplify(-a2))
                c.axiom(z3.And(t >= 0, t == neg, z3.Implies(z3.And(a0 == 0, a1 == 0, a2 == 0), t == 0),
                               z3.Implies(t == 0, z3.And(a0 == 0, a1 == 0, a2 == 0))), "norm3")
            stack.extend(t.children())


def norm3_square(term):
    """on request: norm3(a,b,c)^2 = a^2 + b^2 + c^2 for the norm3 applications inside `term` (nonlinear)"""
    c = cur()
    f = _norm3_fn()
    stack = [term]
    while stack:
        t = stack.pop()
        if z3.is_app(t):
            if t.decl().eq(f):
                a0, a1, a2 = t.children()
                c.axiom(t * t == a0 * a0 + a1 * a1 + a2 * a2, "norm3.sq")
            stack.extend(t.children())


def atan2(y, x):
    """math.atan2 as an uninterpreted function with instantiated axioms: range (-pi, pi]; atan2(0, x>0) = 0;
    atan2(y, x) depends on the direction only: atan2(r*y, r*x) = atan2(y, x) is NOT assumed (instantiate on request)"""
    if not sym.has_ctx():
        import math
        return math.atan2(float(y), float(x))
    if not is_sym(y) and not is_sym(x):
        if sym.cnum(y) == 0 and sym.cnum(x) > 0:
            return 0
    ty, tx = _term(to_real(y)), _term(to_real(x))
    f = uf("atan2", R, R, R)
    r = f(ty, tx)
    pi = sym.pi_axiom()
    c = cur()
    c.axiom(z3.And(r > -pi.t, r <= pi.t), "atan2.range")
    c.axiom(z3.Implies(z3.And(ty == 0, tx > 0), r == 0), "atan2.zero")
    c.ghost.setdefault("atan2_terms", []).append((ty, tx, r))
    return wrap(r)


class _Math(_Stub):
    def sqrt(self, x):
        _use("math.sqrt")
        return ssqrt(x)

    def atan2(self, y, x):
        _use("math.atan2")
        return atan2(y, x)

    @property
    def pi(self):
        return sym.pi_axiom()


# ---- scipy.spatial.transform.Rotation -------------------------------------------

def angle_of(r):
    """spec: geodesic angle of a rotation matrix, angle(R) = arccos((tr R - 1)/2) in [0, pi].
    Uninterpreted in tr R with instantiated axioms: range, angle = 0 <=> tr = 3, angle = pi <=> tr = -1,
    strictly decreasing in the trace (instantiated pairwise for the traces seen on this path)."""
    r = _c(r)
    tr = r[0, 0] + r[1, 1] + r[2, 2]
    return angle_of_trace(tr)


def angle_of_trace(tr):
    if not sym.has_ctx():
        import math
        return math.acos(max(-1.0, min(1.0, (float(tr) - 1.0) / 2.0)))
    c = cur()
    pi = sym.pi_axiom()
    t = _term(to_real(tr))
    f = uf("angle_of_trace", R, R)
    y = f(t)
    c.axiom(z3.And(y >= 0, y <= pi.t), "angle.range")
    c.axiom(z3.And((y == 0) == (t >= 3), (y == pi.t) == (t <= -1)), "angle.ends")
    c.ghost.setdefault("angle_traces", []).append(t)
    return wrap(y)


def angle_monotone(tr1, tr2):
    """on request: the angle is strictly decreasing in the trace on [-1, 3] (instance for two given traces)"""
    c = cur()
    f = uf("angle_of_trace", R, R)
    t, t2 = _term(to_real(tr1)), _term(to_real(tr2))
    y, y2 = f(t), f(t2)
    c.axiom(z3.Implies(z3.And(t <= 3, t2 <= 3, t >= -1, t2 >= -1),
                       z3.And((t < t2) == (y > y2), (t == t2) == (y == y2))), "angle.mono")


class _RotObj:
    def __init__(self, m):
        self.m = m

    def as_rotvec(self):
        """trusted: rotvec = axis * angle with |rotvec| = angle(R); components uninterpreted"""
        _use("scipy.Rotation.as_rotvec")
        c = cur()
        m = _c(self.m)
        f = [uf("rotvec%d" % i, *([R] * 9 + [R])) for i in range(3)]
        args = [_term(to_real(x)) for x in m.flat]
        v = CArr([wrap(f[i](*args)) for i in range(3)])
        ang = angle_of(m)
        n2 = v[0] * v[0] + v[1] * v[1] + v[2] * v[2]
        c.axiom(_term(n2 == ang * ang), "rotvec.norm")
        nrm = _norm_c(v)
        c.axiom(_term(nrm == ang), "rotvec.norm2")
        return v

    def as_matrix(self):
        return self.m

    def inv(self):
        return _RotObj(_c(self.m).T)

    def __mul__(self, o):
        return _RotObj(_np.dot(_np.asarray(_c(self.m)), _np.asarray(_c(o.m))).view(CArr))


class _RotVecObj:
    def __init__(self, v):
        self.v = _c(v)

    def as_matrix(self):
        """trusted: from_rotvec(v).as_matrix() = exp(hat(v)) -- uninterpreted 3x3 in SO(3);
        for v = theta * e_axis it is the elementary rotation R_axis(theta) (cos/sin uninterpreted
        with cos^2+sin^2 = 1)."""
        _use("scipy.Rotation.from_rotvec.as_matrix")
        v = self.v
        nz = [i for i in range(3) if not (sym._is_conc(v[i]) and sym.cnum(v[i]) == 0)]
        if len(nz) <= 1:
            a = nz[0] if nz else 0
            th = v[a]
            cs, sn = cos_sin(th)
            i, j = [(1, 2), (2, 0), (0, 1)][a]
            out = _np.eye(3, dtype=int).astype(object)
            out[i, i] = cs
            out[j, j] = cs
            out[i, j] = -sn
            out[j, i] = sn
            return out.view(CArr)
        m = _np.empty((3, 3), dtype=object)
        args = [_term(to_real(x)) for x in v.flat]
        for i in range(3):
            for j in range(3):
                m[i, j] = wrap(uf("exp%d%d" % (i, j), R, R, R, R)(*args))
        m = m.view(CArr)
        c = cur()
        c.axiom(_term(sym.eq_all(_np.dot(m.T, m), _np.eye(3, dtype=int).astype(object))), "exp.orth")
        c.axiom(_term(det(m) == 1), "exp.det")
        return m


def cos_sin(th):
    t = _term(to_real(th))
    cs, sn = uf("cos_", R, R)(t), uf("sin_", R, R)(t)
    cur().axiom(cs * cs + sn * sn == 1, "trig")
    if sym._is_conc(th) and sym.cnum(th) == 0:
        return 1, 0
    return wrap(cs), wrap(sn)


class _Rotation(_Stub):
    def from_matrix(self, m):
        _use("scipy.Rotation.from_matrix")
        if isinstance(m, (SArr, SSeq)):
            raise OutOfReach("Rotation.from_matrix on a stack of symbolic extent")
        return _RotObj(_c(m))

    def from_rotvec(self, v):
        _use("scipy.Rotation.from_rotvec")
        return _RotVecObj(v)


class _SST(_Stub):
    def __init__(self):
        super().__init__("scipy.spatial.transform")
        object.__setattr__(self, "Rotation", _Rotation("Rotation"))


np = NP()
math = _Math("math")
sst = _SST()
