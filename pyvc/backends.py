"""Back ends that discharge verification conditions.

 0. simplify      -- goal rewrites to true
 1. z3 5.x        -- hyps /\\ not goal unsat
 2. cvc5 (CLI)    -- takes z3's `unknown`s (same SMT-LIB text)
 3. poly          -- goal is an equality / conjunction of equalities between
                     polynomials; (a) expands to 0 (identity), or (b) reduces to 0
                     modulo a Groebner basis of the polynomial equalities among
                     the hypotheses (sympy); remainder 0 is a certificate.

`unknown` / timeout is *undecided*, never a refutation.
"""
from __future__ import annotations

import os
import signal
import subprocess
import tempfile
import time
from concurrent.futures import ProcessPoolExecutor

import z3

CVC5 = "/usr/bin/cvc5"


def vc_to_smt2(hyps, goal):
    s = z3.Solver()
    for h in hyps:
        s.add(h)
    s.add(z3.Not(goal))
    return s.to_smt2()


def _guarded_check(s, budget_ms):
    """decide the solver's assertions in a fresh z3 process that is killed when it overruns (z3's nonlinear core
    can exceed its own timeout by orders of magnitude, and an in-process call cannot be interrupted)"""
    if _z3_exe() is None:
        try:
            return s.check()
        except z3.Z3Exception:
            return z3.unknown
    r, _, _ = _z3_cli(s.to_smt2(), int(budget_ms), seeds=(0, ), model=False)
    return {"unsat": z3.unsat, "sat": z3.sat}.get(r, z3.unknown)


def _z3_exe():
    import shutil
    import sys
    for c in (os.path.join(os.path.dirname(sys.executable), "z3"), shutil.which("z3-new")):
        if c and os.path.exists(c):
            return c
    return None


def _z3_cli(smt2, timeout_ms, seeds=(0, 7, 23, 101), poll=None, model=True):
    """the full-budget z3 stage as a portfolio over random seeds, each attempt in a fresh z3 process (same 5.1.0
    engine as the python binding) that is killed when it overruns: first decisive answer wins"""
    exe = _z3_exe()
    if exe is None:
        return _z3_check(smt2, timeout_ms, seeds)
    t0 = time.time()
    per = max(1500, timeout_ms // len(seeds))
    with tempfile.NamedTemporaryFile("w", suffix=".smt2", delete=False, dir=os.environ.get("VERIF_TMP", None)) as f:
        f.write(smt2 + ("\n(get-model)\n" if model else "\n"))
        path = f.name
    info = ""
    killed = 0
    try:
        for n, seed in enumerate(seeds):
            budget = per if n < len(seeds) - 1 else max(per, timeout_ms - int((time.time() - t0) * 1000))
            cmd = [exe, "-smt2", "-t:%d" % budget, "smt.random_seed=%d" % seed, "sat.random_seed=%d" % seed, path]
            if poll is not None and poll.poll() == "unsat":
                return "cvc5-unsat", time.time() - t0, ""
            try:
                p = subprocess.run(cmd, capture_output=True, text=True, timeout=budget / 1000.0 * 2.0 + 5.0)
                out = (p.stdout or "").strip()
            except subprocess.TimeoutExpired:
                killed += 1
                info = "killed"
                continue
            head = out.split("\n", 1)[0].strip()
            if head == "unsat":
                return "unsat", time.time() - t0, "seed %d" % seed
            if head == "sat":
                return "sat", time.time() - t0, out[4:4000]
            info = out[:200]
            if (time.time() - t0) * 1000 > timeout_ms:
                break
    finally:
        try:
            os.unlink(path)
        except OSError:
            pass
    return "unknown", time.time() - t0, ("killed" if killed == len(seeds) else info)


def _z3_check(smt2, timeout_ms, seeds=(0, 7, 23, 101)):
    """z3 on the query, as a small portfolio over random seeds (quantifier instantiation order is sensitive to
    them): the first decisive answer wins; `unknown` only if every attempt is undecided"""
    t0 = time.time()
    info = ""
    per = max(1500, timeout_ms // len(seeds))
    for n, seed in enumerate(seeds):
        s = z3.Solver()
        s.set("timeout", per if n < len(seeds) - 1 else max(per, timeout_ms - int((time.time() - t0) * 1000)))
        s.set("random_seed", seed)
        if seed:
            s.set("smt.random_seed", seed)
        s.from_string(smt2)
        r = _guarded_check(s, per if n < len(seeds) - 1 else max(per, timeout_ms - int((time.time() - t0) * 1000)))
        if r == z3.unsat:
            return "unsat", time.time() - t0, "seed %d" % seed
        if r == z3.sat:
            try:
                m = s.model()
                txt = "\n".join("%s = %s" % (d.name(), m[d]) for d in m.decls())[:4000]
            except Exception as e:  # pragma: no cover
                txt = "model unavailable: %s" % e
            return "sat", time.time() - t0, txt
        info = s.reason_unknown()
        if (time.time() - t0) * 1000 > timeout_ms:
            break
    return "unknown", time.time() - t0, info


def _cvc5_check(smt2, timeout_ms):
    if not os.path.exists(CVC5):
        return "unknown", 0.0, "cvc5 not installed"
    txt = smt2
    if "(set-logic" not in txt:
        txt = "(set-logic ALL)\n" + txt
    with tempfile.NamedTemporaryFile("w", suffix=".smt2", delete=False,
                                     dir=os.environ.get("VERIF_TMP", None)) as f:
        f.write(txt)
        path = f.name
    t0 = time.time()
    try:
        p = subprocess.run([CVC5, "--lang=smt2", "--tlimit=%d" % timeout_ms, "--strings-exp", path],
                           capture_output=True, text=True, timeout=timeout_ms / 1000 + 5)
        out = p.stdout.strip().splitlines()
        r = out[0] if out else "unknown"
    except subprocess.TimeoutExpired:
        r = "unknown"
    finally:
        os.unlink(path)
    dt = time.time() - t0
    if r not in ("sat", "unsat"):
        r = "unknown"
    return r, dt, ""


class _Cvc5Job:
    """cvc5 on a query as a background process"""

    def __init__(self, smt2, timeout_ms):
        self.p = None
        self.path = None
        self.res = None
        if not os.path.exists(CVC5):
            self.res = "unknown"
            return
        txt = smt2 if "(set-logic" in smt2 else "(set-logic ALL)\n" + smt2
        with tempfile.NamedTemporaryFile("w", suffix=".smt2", delete=False, dir=os.environ.get("VERIF_TMP", None)) as f:
            f.write(txt)
            self.path = f.name
        self.deadline = time.time() + timeout_ms / 1000.0 + 5
        self.p = subprocess.Popen([CVC5, "--lang=smt2", "--tlimit=%d" % timeout_ms, "--strings-exp", self.path],
                                  stdout=subprocess.PIPE, stderr=subprocess.DEVNULL, text=True)

    def _collect(self):
        out = (self.p.stdout.read() or "").strip().splitlines()
        r = out[0].strip() if out else "unknown"
        self.res = r if r in ("sat", "unsat") else "unknown"

    def poll(self):
        if self.res is None and self.p.poll() is not None:
            self._collect()
        return self.res

    def wait(self):
        if self.res is not None:
            return self.res
        try:
            self.p.wait(timeout=max(0.1, self.deadline - time.time()))
            self._collect()
        except subprocess.TimeoutExpired:
            self.p.kill()
            self.res = "unknown"
        return self.res

    def close(self):
        if self.p is not None and self.p.poll() is None:
            self.p.kill()
        if self.p is not None:
            try:
                self.p.wait(timeout=5)
            except Exception:
                pass
        if self.path:
            try:
                os.unlink(self.path)
            except OSError:
                pass


class _Alarm(BaseException):
    pass


def _with_alarm(seconds, fn, *a):
    """fn(*a) under a SIGALRM budget; nests: an inner budget never outlives or cancels the enclosing one"""
    import signal

    def h(signum, frame):
        raise _Alarm()
    old = signal.signal(signal.SIGALRM, h)
    t_start = time.time()
    prev = signal.alarm(0)                      # seconds left of an enclosing budget (0: none)
    mine = int(seconds) if not prev else max(1, min(int(seconds), prev))
    signal.alarm(mine)
    try:
        return fn(*a)
    except _Alarm:
        if prev and time.time() - t_start >= prev - 0.5:
            # the enclosing budget is used up as well: let it see the alarm
            signal.signal(signal.SIGALRM, old)
            signal.alarm(1)
        return False, "timeout"
    finally:
        signal.alarm(0)
        signal.signal(signal.SIGALRM, old)
        if prev:
            left = prev - (time.time() - t_start)
            signal.alarm(max(1, int(left)))


def solve_many(payloads, workers=None, budget_s=None):
    """discharge many obligations in parallel, one forked child per obligation, each under a hard wall-clock limit
    (z3's nonlinear core and sympy can overrun every cooperative timeout by orders of magnitude; a child that
    exceeds the limit is killed and its obligation is `undecided`).  Children never fork again and the parent never
    runs a z3 query with a timeout before forking (z3's timer threads do not survive a fork)."""
    import pickle
    import select
    workers = workers or min(16, os.cpu_count() or 4)
    n = len(payloads)
    results = [None] * n
    pending = list(range(n))[::-1]
    running = {}          # read fd -> [idx, pid, deadline, chunks, t0]
    while pending or running:
        while pending and len(running) < workers:
            i = pending.pop()
            args = payloads[i]
            budget = budget_s if budget_s is not None else 4.0 * args[1] / 1000.0 + 120.0
            r, w = os.pipe()
            pid = os.fork()
            if pid == 0:
                try:
                    os.close(r)
                    try:
                        data = pickle.dumps(_solve_one(args))
                    except BaseException as e:     # noqa
                        import traceback
                        data = pickle.dumps(("undecided", "none", 0.0, "solver process failed: %r %s" % (
                            e, traceback.format_exc()[-600:])))
                    off = 0
                    while off < len(data):
                        off += os.write(w, data[off:off + 65536])
                finally:
                    os._exit(0)
            os.close(w)
            running[r] = [i, pid, time.time() + budget, [], time.time(), budget]
        ready, _, _ = select.select(list(running), [], [], 0.5)
        for r in ready:
            b = os.read(r, 1 << 20)
            if b:
                running[r][3].append(b)
                continue
            i, pid, _, chunks, t0, budget = running.pop(r)
            os.close(r)
            try:
                os.waitpid(pid, 0)
            except OSError:
                pass
            try:
                results[i] = pickle.loads(b"".join(chunks))
            except Exception:
                results[i] = ("undecided", "none", time.time() - t0, "solver process died")
        now = time.time()
        for r in [r for r, v in running.items() if v[2] < now]:
            i, pid, _, chunks, t0, budget = running.pop(r)
            try:
                os.kill(pid, signal.SIGKILL)
                os.waitpid(pid, 0)
            except OSError:
                pass
            os.close(r)
            results[i] = ("undecided", "none", now - t0, "hard wall-clock limit of %.0f s reached" % budget)
    return results


def _solve_one(args):
    return _solve_one_inner(args)


def _solve_one_inner(args):
    """smt2 text of (hyps, not goal) -> verdict"""
    smt2, t_z3, t_cvc5, use_cvc5, poly, derived = args[:6]
    t0 = time.time()
    try:
        import faulthandler as _fh, signal as _sg, sys as _sy
        _fh.register(_sg.SIGUSR1, file=_sy.stderr, all_threads=False)
    except Exception:
        pass
    if os.environ.get("PYVC_DEBUG_HANG"):
        import faulthandler, sys as _sys
        faulthandler.dump_traceback_later(int(os.environ["PYVC_DEBUG_HANG"]) - 30, exit=False, file=_sys.stderr)
    try:
        asserts = z3.parse_smt2_string(smt2)
    except z3.Z3Exception as e:
        raise RuntimeError("SMT-LIB round trip failed: %s" % str(e)[:400])
    hyps, goal = list(asserts[:-1]), asserts[-1].arg(0)
    if z3.is_quantifier(goal) and goal.is_forall():
        parts = _split_conj_hyp(goal)
        if 1 < len(parts) <= 40:
            goal = z3.And(*parts)
    if z3.is_and(goal) and any(z3.is_quantifier(c_) for c_ in goal.children()) and len(goal.children()) <= 40:
        # a conjunction with quantified conjuncts: every conjunct is its own obligation
        worst, be_all, info_all = "discharged", set(), []
        for c_ in goal.children():
            st, be, dt, info = _solve_one_inner((vc_to_smt2(hyps, c_), t_z3, t_cvc5, use_cvc5, poly, derived))
            be_all.add(be)
            if st == "refuted":
                return st, be, time.time() - t0, info
            if st != "discharged":
                worst = "undecided"
                info_all.append(info)
        return worst, "+".join(sorted(x for x in be_all if x)), time.time() - t0, "; ".join(info_all)[:300]
    # A => B as goal: A joins the hypotheses (for the polynomial back end)
    phyps, pgoal = list(hyps), goal
    while z3.is_implies(pgoal):
        ante = pgoal.arg(0)
        phyps += list(ante.children()) if z3.is_and(ante) else [ante]
        pgoal = pgoal.arg(1)
    base_hyps = [h for i, h in enumerate(phyps) if i not in set(derived)]
    try:
        if _prop_abstraction_unsat(hyps, goal):
            return "discharged", "prop", time.time() - t0, "propositional abstraction"
    except z3.Z3Exception:
        pass
    eq_goal = poly and _collect_eqs(pgoal) is not None
    nl_goal = _nonlinear(pgoal) if eq_goal else False
    # 1. polynomial identity (cheap when the terms are small)
    if eq_goal and len(smt2) < 400000:
        ok, how = _with_alarm(8, poly_discharge, phyps, pgoal, False)
        if ok:
            return "discharged", "poly", time.time() - t0, how
    # 2. a quick z3 attempt (most obligations are decided here); when hypotheses constrain nonlinear polynomials
    #    that the goal does not mention, first without them (sound: fewer hypotheses) -- they only mislead the
    #    arithmetic solver on goals that follow by linear reasoning and congruence
    quick = min(t_z3, 4000)
    gsy0 = _usyms(goal)
    lin0 = []
    for h0 in hyps:
        for h in _split_conj_hyp(h0):
            if not is_nl_constraint(h) or (_usyms(h) <= gsy0):
                lin0.append(h)
    if len(lin0) != len(hyps) and not nl_goal:
        rq, _, _ = _z3_cli(vc_to_smt2(lin0, goal), min(t_z3, 3000), seeds=(0, ), model=False)
        if rq == "unsat":
            return "discharged", "z3", time.time() - t0, "without nonlinear constraints"
    r, dt, info = _z3_cli(smt2, quick, seeds=(0, ))
    if r == "unsat":
        return "discharged", "z3", time.time() - t0, info
    if r == "sat":
        return "refuted", "z3", time.time() - t0, info
    # 2b. quantified polynomial equalities: Skolemise, instantiate, ideal membership
    tried_q = False
    if poly and z3.is_quantifier(goal) and _nonlinear(goal.body()):
        tried_q = True
        ok, how = _with_alarm(30, _poly_quantified, hyps, goal)
        if ok:
            return "discharged", "groebner", time.time() - t0, "instantiated at a Skolem index; " + how
    # 3. nonlinear equalities: Groebner bases (directly related hypotheses first)
    if eq_goal and nl_goal:
        ok, how = _with_alarm(25, poly_discharge, base_hyps, pgoal, True)
        if not ok and len(base_hyps) != len(phyps):
            ok, how = _with_alarm(25, poly_discharge, phyps, pgoal, True)
        if ok:
            return "discharged", "groebner", time.time() - t0, how
    # 4. stage A: without the hypotheses that constrain nonlinear polynomials (sound: fewer hypotheses), except those
    #    over the goal's own symbols
    gsy = _usyms(goal)
    lin_hyps = []
    for h0 in hyps:
        for h in _split_conj_hyp(h0):
            if not is_nl_constraint(h) or (_usyms(h) <= gsy):
                lin_hyps.append(h)
    if len(lin_hyps) != len(hyps):
        okA = _split_last(lin_hyps, goal, min(t_z3, 10000))
        if okA:
            return "discharged", "z3+split", time.time() - t0, okA
        rA, dtA, infoA = _z3_cli(vc_to_smt2(lin_hyps, goal), t_z3)
        if rA == "unsat":
            return "discharged", "z3", time.time() - t0, "without nonlinear constraints"
    ok = _split_last(hyps, goal, min(t_z3, 4000))
    if ok:
        return "discharged", "z3+split", time.time() - t0, ok
    # 5. quantified polynomial equalities: Skolemise, instantiate, ideal membership
    if poly and z3.is_quantifier(goal) and not tried_q:
        ok, how = _with_alarm(30, _poly_quantified, hyps, goal)
        if ok:
            return "discharged", "groebner", time.time() - t0, "instantiated at a Skolem index; " + how
    # 6. z3 with the full budget (seed portfolio)
    #    cvc5 works on the same query at the same time (both are external processes)
    cv = _Cvc5Job(smt2, t_cvc5) if use_cvc5 else None
    try:
        r, dt, info = _z3_cli(smt2, t_z3, poll=cv)
        if r == "unsat":
            return "discharged", "z3", time.time() - t0, info
        if r == "sat":
            return "refuted", "z3", time.time() - t0, info
        if r == "cvc5-unsat":
            return "discharged", "cvc5", time.time() - t0, ""
        ok = _split_last(hyps, goal, t_z3) if info != "killed" and not (cv and cv.poll() == "unsat") else None
        if ok:
            return "discharged", "z3+split", time.time() - t0, ok
        if cv is not None:
            r2 = cv.wait()
            if r2 == "unsat":
                return "discharged", "cvc5", time.time() - t0, ""
            if r2 == "sat":
                return "refuted", "cvc5", time.time() - t0, "cvc5 sat (z3: %s)" % info
    finally:
        if cv is not None:
            cv.close()
    if eq_goal and not nl_goal:
        ok, how = _with_alarm(30, poly_discharge, phyps, pgoal, True)
        if ok:
            return "discharged", "groebner", time.time() - t0, how
    return "undecided", "z3", time.time() - t0, info


def _split_last(hyps, goal, t_ms):
    g = goal
    pre = []
    while z3.is_implies(g):
        pre.append(g.arg(0))
        g = g.arg(1)
    if not (z3.is_quantifier(g) and g.is_forall()):
        return None
    n = g.num_vars()
    if n > 3:
        return None
    sk = [z3.Int("sk!%d" % i) for i in range(n)]
    body = z3.substitute_vars(g.body(), *reversed(sk))
    if not z3.is_implies(body):
        return None
    guard = body.arg(0)
    conj = list(guard.children()) if z3.is_and(guard) else [guard]
    uppers = []
    for cj in conj:
        # sk < H   (also printed as  not (H <= sk))
        if z3.is_lt(cj) and any(cj.arg(0).eq(v) for v in sk):
            uppers.append((cj.arg(0), cj.arg(1)))
        elif z3.is_gt(cj) and any(cj.arg(1).eq(v) for v in sk):
            uppers.append((cj.arg(1), cj.arg(0)))
    if not uppers:
        return None
    v, H = uppers[-1]
    cases = [[v == H - 1], [v < H - 1]]
    for extra in cases:
        s_ = z3.Solver()
        s_.set("timeout", t_ms)
        for h in hyps + pre:
            s_.add(h)
        for e in extra:
            s_.add(e)
        s_.add(z3.Not(body))
        if _guarded_check(s_, t_ms) != z3.unsat:
            return None
    return "case split on %s = %s - 1" % (v, str(H)[:40])


def _split_conj_hyp(h):
    """forall x. G => (c1 /\ ... /\ cn)  as  n hypotheses  forall x. G => ci  (and plain conjunctions likewise)"""
    if z3.is_and(h):
        out = []
        for c_ in h.children():
            out += _split_conj_hyp(c_)
        return out
    if z3.is_quantifier(h) and h.is_forall():
        b = h.body()
        g, concl = (b.arg(0), b.arg(1)) if z3.is_implies(b) else (None, b)
        if z3.is_and(concl) and concl.num_args() > 1:
            names = [z3.Const(h.var_name(i), h.var_sort(i)) for i in range(h.num_vars())]
            pats = []
            try:
                for i in range(h.num_patterns()):
                    pt = h.pattern(i)
                    pats.append(z3.substitute_vars(pt, *reversed(names)) if not z3.is_pattern(pt) else pt)
            except Exception:
                pats = []
            from . import sym as _sym
            out = []
            for c_ in concl.children():
                body = z3.substitute_vars(z3.Implies(g, c_) if g is not None else c_, *reversed(names))
                try:
                    out.append(_sym.forall_t(names, body))
                except z3.Z3Exception:
                    return [h]
            return out
    return [h]


def _arith_nl(t):
    """nonlinear multiplication at the arithmetic level of t (not inside arguments of uninterpreted functions)"""
    stack = [t]
    while stack:
        x = stack.pop()
        if not z3.is_app(x):
            continue
        k = x.decl().kind()
        if k == z3.Z3_OP_UNINTERPRETED:
            continue
        if k == z3.Z3_OP_MUL and sum(1 for c in x.children() if not (z3.is_rational_value(c) or
                                                                    z3.is_int_value(c))) >= 2:
            return True
        if k in (z3.Z3_OP_ADD, z3.Z3_OP_SUB, z3.Z3_OP_MUL, z3.Z3_OP_UMINUS, z3.Z3_OP_TO_REAL, z3.Z3_OP_ITE,
                 z3.Z3_OP_DIV, z3.Z3_OP_POWER):
            stack.extend(x.children())
    return False


def _simple(t):
    while z3.is_app(t) and t.decl().kind() == z3.Z3_OP_TO_REAL:
        t = t.arg(0)
    return z3.is_app(t) and t.decl().kind() == z3.Z3_OP_UNINTERPRETED


def is_nl_constraint(h):
    """hypothesis that constrains nonlinear polynomials (orthonormality, determinant, norm^2 = ...) rather than
    defining a value (v == polynomial).  Such hypotheses are left out in the first solving stage."""
    x = h
    for _ in range(4):
        if z3.is_quantifier(x):
            x = x.body()
        elif z3.is_implies(x):
            x = x.arg(1)
        else:
            break
    atoms = []
    stack = [x]
    while stack:
        y = stack.pop()
        if z3.is_and(y) or z3.is_or(y) or z3.is_not(y) or z3.is_implies(y):
            stack.extend(y.children())
        elif z3.is_quantifier(y):
            stack.append(y.body())
        else:
            atoms.append(y)
    for a in atoms:
        if z3.is_app(a) and a.num_args() == 2 and a.decl().kind() in (z3.Z3_OP_EQ, z3.Z3_OP_LE, z3.Z3_OP_GE,
                                                                      z3.Z3_OP_LT, z3.Z3_OP_GT):
            l, r = a.arg(0), a.arg(1)
            if not (z3.is_arith(l) and z3.is_arith(r)):
                continue
            if a.decl().kind() == z3.Z3_OP_EQ and (_simple(l) or _simple(r)):
                continue   # a definition
            if _arith_nl(l) or _arith_nl(r):
                return True
    return False


def _prop_abstraction_unsat(hyps, goal, timeout_ms=3000):
    """hyps /\ not goal unsatisfiable already when every theory atom is read as an opaque propositional variable
    (sound: a propositional contradiction is a contradiction).  Catches 'the goal is literally a hypothesis / branch
    condition' without touching arithmetic."""
    table = {}

    def ab(t):
        if z3.is_true(t) or z3.is_false(t):
            return t
        if z3.is_app(t) and t.decl().kind() in (z3.Z3_OP_AND, z3.Z3_OP_OR, z3.Z3_OP_NOT, z3.Z3_OP_IMPLIES,
                                                z3.Z3_OP_XOR):
            return t.decl()(*[ab(c) for c in t.children()])
        if z3.is_app(t) and t.decl().kind() in (z3.Z3_OP_EQ, z3.Z3_OP_IFF) and z3.is_bool(t.arg(0)):
            return ab(t.arg(0)) == ab(t.arg(1))
        if z3.is_app(t) and t.decl().kind() == z3.Z3_OP_ITE and z3.is_bool(t):
            return z3.If(ab(t.arg(0)), ab(t.arg(1)), ab(t.arg(2)))
        key = t.get_id()
        if key not in table:
            table[key] = z3.Bool("atom!%d" % len(table))
        return table[key]
    s_ = z3.Solver()
    s_.set("timeout", timeout_ms)
    for h in hyps:
        s_.add(ab(h))
    s_.add(z3.Not(ab(goal)))
    return _guarded_check(s_, timeout_ms) == z3.unsat


def _nonlinear(t):
    stack = [t]
    seen = set()
    while stack:
        x = stack.pop()
        if x.get_id() in seen:
            continue
        seen.add(x.get_id())
        if z3.is_app(x):
            k = x.decl().kind()
            if k == z3.Z3_OP_MUL and sum(1 for c in x.children() if not (z3.is_rational_value(c) or
                                                                        z3.is_int_value(c))) >= 2:
                return True
            if k in (z3.Z3_OP_DIV, z3.Z3_OP_POWER):
                return True
            stack.extend(x.children())
    return False


# ---------------------------------------------------------------------------
# polynomial back end

def _collect_eqs(goal):
    """goal as list of (lhs, rhs) equalities if it is a conjunction of equalities, else None"""
    if z3.is_true(goal):
        return []
    if z3.is_and(goal):
        out = []
        for c in goal.children():
            r = _collect_eqs(c)
            if r is None:
                return None
            out += r
        return out
    if z3.is_eq(goal) and goal.arg(0).sort().kind() in (z3.Z3_REAL_SORT, z3.Z3_INT_SORT):
        return [(goal.arg(0), goal.arg(1))]
    return None


class NotPoly(Exception):
    pass


def _to_sympy(t, symtab):
    import sympy
    k = t.decl().kind()
    if z3.is_rational_value(t):
        return sympy.Rational(t.numerator_as_long(), t.denominator_as_long())
    if z3.is_int_value(t):
        return sympy.Integer(t.as_long())
    ch = t.children()
    if k == z3.Z3_OP_ADD:
        return sympy.Add(*[_to_sympy(c, symtab) for c in ch])
    if k == z3.Z3_OP_MUL:
        return sympy.Mul(*[_to_sympy(c, symtab) for c in ch])
    if k == z3.Z3_OP_SUB:
        r = _to_sympy(ch[0], symtab)
        for c in ch[1:]:
            r = r - _to_sympy(c, symtab)
        return r
    if k == z3.Z3_OP_UMINUS:
        return -_to_sympy(ch[0], symtab)
    if k == z3.Z3_OP_TO_REAL:
        return _to_sympy(ch[0], symtab)
    if k == z3.Z3_OP_DIV:
        d = _to_sympy(ch[1], symtab)
        if d.is_number:
            if d == 0:
                raise NotPoly("division by zero constant")
            return _to_sympy(ch[0], symtab) / d
        # field semantics a/b = a * inv(b) with b*inv(b) = 1: only sound when b != 0 follows
        # from the hypotheses; the caller checks every recorded denominator with z3 first
        key = "inv:" + ch[1].sexpr()
        if key not in symtab:
            symtab[key] = sympy.Symbol("v%d" % len(symtab))
            symtab.setdefault("__denoms__", []).append((ch[1], d, symtab[key]))
        return _to_sympy(ch[0], symtab) * symtab[key]
    if k == z3.Z3_OP_POWER:
        e = _to_sympy(ch[1], symtab)
        if not (e.is_Integer and e >= 0):
            raise NotPoly("power")
        return _to_sympy(ch[0], symtab) ** e
    if k == z3.Z3_OP_UNINTERPRETED or k == z3.Z3_OP_ITE or True:
        # opaque atom: any other term is treated as an indeterminate (sound: an
        # identity over indeterminates holds for every value)
        key = t.sexpr()
        if key not in symtab:
            symtab[key] = sympy.Symbol("v%d" % len(symtab))
        return symtab[key]


def _poly_quantified(hyps, goal, max_hyp_eqs=60):
    """forall k. G(k) => eqs(k)  from hypotheses that include  forall j. Gh(j) => eqs_h(j):
    Skolemise k, instantiate the quantified equality hypotheses at the Skolem index (their guards are checked with
    z3 on the light hypotheses), then ideal membership on the ground polynomial equalities."""
    g = goal
    if not (z3.is_quantifier(g) and g.is_forall() and g.num_vars() == 1):
        return False, "not a single-variable universal goal"
    k0 = z3.Int("sk!poly")
    body = z3.substitute_vars(g.body(), k0)
    if not z3.is_implies(body):
        return False, "no guard"
    guard, concl = body.arg(0), body.arg(1)
    if _collect_eqs(concl) is None:
        return False, "conclusion is not a conjunction of equalities"
    flat = []
    for h in hyps:
        if z3.is_and(h) and any(z3.is_quantifier(c_) for c_ in h.children()):
            flat.extend(h.children())
        else:
            flat.append(h)
    hyps = flat
    light = [h for h in hyps if not z3.is_quantifier(h) and not is_nl_constraint(h) and not _arith_nl(h)]
    ground = [h for h in hyps if not z3.is_quantifier(h)]
    ground += list(guard.children()) if z3.is_and(guard) else [guard]
    light = light + (list(guard.children()) if z3.is_and(guard) else [guard])
    for h in hyps:
        if not (z3.is_quantifier(h) and h.is_forall() and h.num_vars() == 1):
            continue
        hb = z3.substitute_vars(h.body(), k0)
        if z3.is_implies(hb):
            gh, bh = hb.arg(0), hb.arg(1)
        else:
            gh, bh = z3.BoolVal(True), hb
        if _collect_eqs(bh) is None:
            # keep the equality conjuncts of a mixed conjunction
            if z3.is_and(bh):
                eqs_only = [c_ for c_ in bh.children() if _collect_eqs(c_) is not None]
                if not eqs_only:
                    continue
                bh = z3.And(*eqs_only)
            else:
                continue
        s_ = z3.Solver()
        s_.set("timeout", 2000)
        for x in light:
            s_.add(x)
        s_.add(z3.Not(gh))
        if _guarded_check(s_, 2000) == z3.unsat:
            ground.append(bh)
    return poly_discharge(ground, concl, True, max_hyp_eqs)


def _usyms(t):
    acc = set()
    stack = [t]
    seen = set()
    while stack:
        x = stack.pop()
        if x.get_id() in seen:
            continue
        seen.add(x.get_id())
        if z3.is_quantifier(x):
            stack.append(x.body())
        elif z3.is_app(x):
            if x.decl().kind() == z3.Z3_OP_UNINTERPRETED:
                acc.add(x.decl().name())
            stack.extend(x.children())
    return acc


def poly_discharge(hyps, goal, use_groebner=True, max_hyp_eqs=40, timeout_s=30):
    """returns (ok, how).  Only ever answers 'proved' (ok=True) or 'don't know'.
    With Groebner bases: first with the hypotheses that share a symbol with the goal, then with all."""
    if use_groebner and len(hyps) > 12:
        gs = _usyms(goal)
        direct = [h for h in hyps if not z3.is_quantifier(h) and (_usyms(h) & gs)]
        if 0 < len(direct) < len(hyps):
            ok, how = _poly_discharge(direct, goal, True, max_hyp_eqs, all_hyps=hyps)
            if ok:
                return ok, how
    return _poly_discharge(hyps, goal, use_groebner, max_hyp_eqs)


def _poly_discharge(hyps, goal, use_groebner=True, max_hyp_eqs=40, all_hyps=None):
    import sympy
    eqs = _collect_eqs(goal)
    if eqs is None:
        return False, "goal is not a conjunction of equalities"
    symtab = {}
    try:
        diffs = [sympy.expand(_to_sympy(a, symtab) - _to_sympy(b, symtab)) for a, b in eqs]
    except NotPoly as e:
        return False, str(e)
    if symtab.get("__denoms__") and not use_groebner:
        return False, "has symbolic denominators"
    diffs = [d for d in diffs if d != 0]
    if not diffs:
        return True, "identity"
    denoms = symtab.get("__denoms__", [])
    if not use_groebner:
        return False, "not an identity"
    inv_rel = []

    def nonzero(zt):
        # first with the quantifier-free, linear hypotheses only (fast), then with all of them
        every = all_hyps if all_hyps is not None else hyps
        light = [h for h in every if not z3.is_quantifier(h) and not is_nl_constraint(h) and not _arith_nl(h)]
        for hs in (light, every):
            s_ = z3.Solver()
            s_.set("timeout", 3000)
            for h in hs:
                s_.add(h)
            s_.add(zt == 0)
            if _guarded_check(s_, 3000) == z3.unsat:
                return True
        return False
    for zt, dpoly, invsym in denoms:
        if not nonzero(zt):
            return False, "denominator not provably non-zero"
        inv_rel.append(sympy.expand(dpoly * invsym - 1))
    # hypothesis equalities that are polynomial
    hyp_polys = []
    for h in hyps:
        he = _collect_eqs(h)
        if not he:
            continue
        for a, b in he:
            nd = len(symtab.get("__denoms__", []))
            try:
                p = sympy.expand(_to_sympy(a, symtab) - _to_sympy(b, symtab))
            except NotPoly:
                continue
            new_d = symtab.get("__denoms__", [])[nd:]
            if new_d:
                if not all(nonzero(zt) for zt, _, _ in new_d):
                    continue  # field semantics not justified for this hypothesis: drop it (sound)
                for zt, dpoly, invsym in new_d:
                    inv_rel.append(sympy.expand(dpoly * invsym - 1))
            if p != 0 and p.is_polynomial():
                hyp_polys.append(p)
    hyp_polys = inv_rel + hyp_polys
    symtab.pop("__denoms__", None)
    if not hyp_polys:
        return False, "no usable hypothesis equalities"
    return _ideal_membership(diffs, hyp_polys, max_hyp_eqs)


_GB_CACHE = {}


def _definitions_only(goals, polys, max_rounds=60):
    """substitute definitional hypotheses (v = expr with v linear, constant coefficient) everywhere.
    Returns a proof string if the goals vanish, else (goals', constraints') after the substitution."""
    import sympy
    goals = [g for g in goals if g != 0]
    rest = [q for q in polys if q != 0]
    table = {}
    progress = True
    rounds = 0
    while progress and rounds < max_rounds:
        progress = False
        rounds += 1
        for idx, p_ in enumerate(rest):
            if p_ == 0:
                continue
            try:
                pp = sympy.Poly(p_, *sorted(p_.free_symbols, key=lambda s_: s_.name))
            except Exception:
                continue
            pick = None
            for v in pp.gens:
                if pp.degree(v) != 1:
                    continue
                coef = pp.coeff_monomial(v)
                if coef == 0 or not sympy.sympify(coef).is_number:
                    continue
                restp = sympy.expand(p_ - coef * v)
                if v in restp.free_symbols:
                    continue
                pick = (v, sympy.expand(-restp / coef))
                break
            if pick is None:
                continue
            v, e = pick
            table[v] = e
            rest = [sympy.Integer(0) if j == idx else (sympy.expand(q.subs(v, e)) if v in q.free_symbols else q)
                    for j, q in enumerate(rest)]
            goals = [sympy.expand(g.subs(v, e)) if v in g.free_symbols else g for g in goals]
            goals = [g for g in goals if g != 0]
            progress = True
            if not goals:
                return "substitution of %d definitions" % len(table)
            break
    return goals, [q for q in rest if q != 0]


def _direct_attempt(goals, polys, max_hyp_eqs):
    import sympy
    goals = [g for g in goals if g != 0]
    if not goals:
        return "identity"
    gsyms0 = set().union(*[g.free_symbols for g in goals])
    direct = [q for q in polys if q != 0 and q.free_symbols and q.free_symbols <= gsyms0]
    if not direct or len(direct) > max_hyp_eqs:
        return None
    comps0 = []
    for q in direct:
        fs = set(q.free_symbols)
        merged = [c_ for c_ in comps0 if c_[0] & fs]
        for c_ in merged:
            comps0.remove(c_)
            fs |= c_[0]
        comps0.append((fs, [q] + [x for c_ in merged for x in c_[1]]))
    basis0 = []
    try:
        for fs, qs in comps0:
            key = tuple(sorted(str(q) for q in qs))
            if key not in _GB_CACHE:
                _GB_CACHE[key] = list(sympy.groebner(qs, *sorted(fs, key=lambda s_: s_.name), order="grevlex").exprs)
            basis0 += _GB_CACHE[key]
        gens0 = sorted(gsyms0, key=lambda s_: s_.name)
        if all(sympy.reduced(g, basis0, *gens0, order="grevlex")[1] == 0 for g in goals):
            return "groebner(%d direct hyps, %d components)" % (len(direct), len(comps0))
    except Exception:
        return None
    return None


def _ideal_membership(diffs, hyp_polys, max_hyp_eqs=80):
    """diffs all in the ideal generated by hyp_polys?  Steps: (1) eliminate variables that a hypothesis defines
    linearly (v = expr), (2) keep the hypotheses connected to the goal, (3) Groebner basis per connected
    component of the variable-sharing graph (bases of ideals in disjoint variables unite to a basis),
    (4) reduce the goal; remainder 0 is the certificate."""
    import sympy
    polys = [sympy.expand(p) for p in hyp_polys]
    goals = list(diffs)
    # (0b) definitions only: substitute every hypothesis of the form v = expr (v linear, constant coefficient)
    okd = _definitions_only(goals, polys)
    if isinstance(okd, str):
        return True, okd
    goals2, polys2 = okd
    # goals and constraints with the definitions substituted: now the constraints over the remaining symbols
    ok1 = _direct_attempt(goals2, polys2, max_hyp_eqs)
    if ok1:
        return True, "definitions substituted; " + ok1
    goals, polys = goals2, polys2
    if len(polys) > 60:
        return False, "too many hypothesis equalities for elimination (%d)" % len(polys)
    # (1) linear definitions
    for _round in range(200):
        done = True
        for idx, p in enumerate(polys):
            if p == 0:
                continue
            cand = None
            pp = sympy.Poly(p, *sorted(p.free_symbols, key=lambda s_: s_.name))
            for v in pp.gens:
                if pp.degree(v) != 1:
                    continue
                coef = pp.coeff_monomial(v)
                if coef == 0 or not sympy.sympify(coef).is_number:
                    continue
                rest = sympy.expand(p - coef * v)
                if v in rest.free_symbols:
                    continue
                # prefer definitions of derived values (a single linear variable)
                cand = (v, sympy.expand(-rest / coef))
                if len(rest.free_symbols) >= 1 or True:
                    break
            if cand is not None:
                v, e = cand
                polys = [sympy.Integer(0) if j == idx else
                         (sympy.expand(q.subs(v, e)) if v in sympy.sympify(q).free_symbols else sympy.sympify(q))
                         for j, q in enumerate(polys)]
                goals = [sympy.expand(g.subs(v, e)) if v in g.free_symbols else g for g in goals]
                done = False
                break
        if done:
            break
    polys = [q for q in polys if q != 0]
    goals = [g for g in goals if g != 0]
    if not goals:
        return True, "identity after substituting definitions"
    # (2) relevance: first only the hypotheses that talk about the goal's own symbols, then (below) transitively
    gsyms0 = set().union(*[g.free_symbols for g in goals])
    direct = [q for q in polys if q.free_symbols and q.free_symbols <= gsyms0]
    if direct and len(direct) <= max_hyp_eqs:
        try:
            comps0 = []
            for q in direct:
                fs = set(q.free_symbols)
                merged = [c_ for c_ in comps0 if c_[0] & fs]
                for c_ in merged:
                    comps0.remove(c_)
                    fs |= c_[0]
                comps0.append((fs, [q] + [x for c_ in merged for x in c_[1]]))
            basis0 = []
            for fs, qs in comps0:
                key = tuple(sorted(str(q) for q in qs))
                if key not in _GB_CACHE:
                    _GB_CACHE[key] = list(sympy.groebner(qs, *sorted(fs, key=lambda s_: s_.name), order="grevlex").exprs)
                basis0 += _GB_CACHE[key]
            gens0 = sorted(gsyms0, key=lambda s_: s_.name)
            if all(sympy.reduced(g, basis0, *gens0, order="grevlex")[1] == 0 for g in goals):
                return True, "groebner(%d direct hyps, %d components)" % (len(direct), len(comps0))
        except Exception:
            pass
    gsyms = set().union(*[g.free_symbols for g in goals])
    rel, rest = [], list(polys)
    changed = True
    while changed:
        changed = False
        for q in list(rest):
            if q.free_symbols & gsyms:
                rel.append(q)
                rest.remove(q)
                gsyms |= q.free_symbols
                changed = True
    if not rel:
        return False, "remainder non-zero (no related hypotheses)"
    if len(rel) > max_hyp_eqs:
        return False, "too many hypothesis equalities (%d)" % len(rel)
    # (3) components
    comps = []
    for q in rel:
        fs = set(q.free_symbols)
        merged = [c for c in comps if c[0] & fs]
        for c in merged:
            comps.remove(c)
            fs |= c[0]
        comps.append((fs, [q] + [x for c in merged for x in c[1]]))
    basis = []
    for fs, qs in comps:
        key = tuple(sorted(str(q) for q in qs))
        if key not in _GB_CACHE:
            gens_c = sorted(fs, key=lambda s_: s_.name)
            _GB_CACHE[key] = list(sympy.groebner(qs, *gens_c, order="grevlex").exprs)
        basis += _GB_CACHE[key]
    gens = sorted(gsyms, key=lambda s_: s_.name)
    try:
        for g in goals:
            _, rem = sympy.reduced(g, basis, *gens, order="grevlex")
            if rem != 0:
                return False, "remainder non-zero"
    except Exception as e:  # pragma: no cover
        return False, "sympy: %s" % e
    return True, "groebner(%d hyps, %d components)" % (len(rel), len(comps))


# ---------------------------------------------------------------------------

def relevant_hyps(hyps, goal):
    """hypotheses sharing (transitively) an uninterpreted symbol with the goal.
    Dropping hypotheses is always sound for proving."""
    def syms(t, acc):
        stack = [t]
        seen = set()
        while stack:
            x = stack.pop()
            if x.get_id() in seen:
                continue
            seen.add(x.get_id())
            if z3.is_quantifier(x):
                stack.append(x.body())
                continue
            if z3.is_app(x):
                d = x.decl()
                if d.kind() == z3.Z3_OP_UNINTERPRETED:
                    acc.add(d.name())
                stack.extend(x.children())
        return acc
    gs = syms(goal, set())
    hs = [(h, syms(h, set())) for h in hyps]
    rel = []
    changed = True
    while changed:
        changed = False
        for item in list(hs):
            h, s = item
            if not s or (s & gs):
                rel.append(h)
                hs.remove(item)
                if s - gs:
                    gs |= s
                    changed = True
    # keep original order
    ids = {h.get_id() for h in rel}
    return [h for h in hyps if h.get_id() in ids]


_POOL = None


def pool(workers=None):
    global _POOL
    if _POOL is None:
        _POOL = ProcessPoolExecutor(max_workers=workers or min(16, os.cpu_count() or 4))
    return _POOL


def _derived_idx(vc, hyps):
    ids = {vc.hyps[i].get_id() for i in getattr(vc, "derived", ())}
    return tuple(i for i, h in enumerate(hyps) if h.get_id() in ids)


def discharge_all(vcs, t_z3_ms=10000, t_cvc5_ms=10000, use_cvc5=True, parallel=True, poly=True, workers=None):
    """sets status/backend/time/detail on every VC"""
    jobs = []
    for vc in vcs:
        t0 = time.time()
        g = z3.simplify(vc.goal)
        if z3.is_true(g):
            vc.status, vc.backend, vc.time = "discharged", "simplify", time.time() - t0
            continue
        jobs.append(vc)
    if not jobs:
        return
    payload = []
    filtered = []
    for vc in jobs:
        hyps = relevant_hyps(vc.hyps, vc.goal)
        filtered.append(len(hyps) != len(vc.hyps))
        payload.append((vc_to_smt2(hyps, vc.goal), t_z3_ms, t_cvc5_ms, use_cvc5, poly, _derived_idx(vc, hyps)))
    if parallel:
        results = solve_many(payload, workers)
    else:
        results = [_solve_one(p) for p in payload]
    retry = []
    for vc, flt, (status, backend, dt, info) in zip(jobs, filtered, results):
        vc.status, vc.backend, vc.time, vc.detail = status, backend, dt, info
        # the relevance filter may have dropped a needed hypothesis (undecided), and a model found
        # under a subset of the hypotheses need not satisfy all of them (refuted): retry with all
        if flt and status in ("undecided", "refuted"):
            retry.append(vc)
    if retry:
        payload = [(vc_to_smt2(vc.hyps, vc.goal), t_z3_ms, t_cvc5_ms, use_cvc5, poly, _derived_idx(vc, vc.hyps))
                   for vc in retry]
        if parallel:
            results = solve_many(payload)
        else:
            results = [_solve_one(p) for p in payload]
        for vc, (status, backend, dt, info) in zip(retry, results):
            vc.time += dt
            vc.status, vc.backend, vc.detail = status, backend, info


def get_model(vc, timeout_ms=20000):
    s = z3.Solver()
    s.set("timeout", timeout_ms)
    for h in vc.hyps:
        s.add(h)
    s.add(z3.Not(vc.goal))
    if _guarded_check(s, timeout_ms) == z3.sat:
        return s.model()
    return None
