"""Loads modules of /repo for symbolic execution: reads the source *on every run*,
rewrites it mechanically (pyvc.transform), compiles it under its real file name
(so obligations carry real file:line), and executes it in a namespace whose
`numpy`, `math`, `scipy...Rotation`, `copy` and builtins are the symbolic /
trusted-contract versions.  Functions that have a sidecar contract are replaced,
*for their callers*, by that contract (modular verification)."""
from __future__ import annotations

import builtins as _bi
import hashlib
import importlib
import os
import sys
import types
from fractions import Fraction

import numpy as _np
import z3

from . import sym, npstub, transform
from .sym import (CArr, SArr, SArrT, SSeq, SB, SI, SR, S, OutOfReach, cur, fresh, sand, sor, snot, site, simplies,
                  _term, wrap)
from .engine import PathEnd
from .contract import REGISTRY, bind_args, C

REPO = os.environ.get("VERIF_REPO", "/repo")

UNDEF = type("UNDEF", (), {"__repr__": lambda s: "<undefined>"})()

# modules of evo that are used as they are (not symbolically loaded)
REAL_EVO = {"evo", "evo.tools.log", "evo.tools.settings", "evo.tools.settings_template", "evo.tools._typing"}


class LoopIter:
    def __init__(self, api, K, it, funcq, elem_mut=False):
        self.api, self.K, self.funcq = api, K, funcq
        self.elem_mut = elem_mut     # the body stores into the loop element (list elements are mutated in place)
        self.entry_get = None
        self.cur_elem = None
        self.raw = it
        self.concrete = True
        self.seq = None
        if isinstance(it, (SSeq, SArr)):
            n = sym.seq_len(it)
            if not isinstance(n, int):
                self.concrete = False
                self.seq = sym.as_seq(it)
        self.index = None

    def items(self):
        return self.raw

    def generic(self):
        e = self.seq.get(self.index)
        if self.elem_mut:
            import copy as _copy
            e = _copy.deepcopy(e)    # the body mutates this object; it is written back at the end of the iteration
            self.cur_elem = e
        return e


class API:
    """run-time support called by the rewritten code (`__pyvc__`)"""

    def __init__(self, loader, modname):
        self.loader = loader
        self.modname = modname

    @staticmethod
    def fl(text):
        return sym.frac_of_float(float(text))

    @staticmethod
    def div(a, b):
        if isinstance(a, (_np.ndarray, SArr)) or isinstance(b, (_np.ndarray, SArr)):
            return npstub.np.divide(a, b)
        if isinstance(a, (int, float, Fraction, S)) and isinstance(b, (int, float, Fraction, S)) \
                and not isinstance(a, bool):
            return sym.sdiv(a, b)
        return a / b

    # ---- comprehensions --------------------------------------------------
    def comp(self, K, elt, it, cond, kind):
        symbolic = isinstance(it, (SSeq, SArr)) and not isinstance(sym.seq_len(it), int)
        if not symbolic:
            if isinstance(it, SSeq):
                it = [it.get(i) for i in range(it.length())]
            out = []
            for x in it:
                if cond is None:
                    out.append(elt(x))
                else:
                    cnd = cond(x)
                    if bool(cnd):
                        out.append(elt(x))
            return out
        seq = sym.as_seq(it)
        n = seq.length()
        ctx = cur()
        # the element expression is evaluated once, now (comprehensions are eager), for a generic index k;
        # element q of the result is that value with k replaced by q.  Values created meanwhile are functions
        # of k and facts assumed meanwhile are generalised over k (PathCtx.enter_generic).
        k = SI(z3.Int(ctx._name("k!comp")))
        if cond is None:
            tok = ctx.enter_generic(k, sand(0 <= k, k < n))
            try:
                xk = seq.get(k)
                val = elt(xk)
            finally:
                ctx.exit_generic(tok)
            # [x for x in seq] holds the element objects of seq itself (ownership ghost)
            return SSeq(n, lambda q, val=val, k=k: sym.subst_val(val, k, q),
                        owners=seq.owners if val is xk else None)
        tok = ctx.enter_generic(k, sand(0 <= k, k < n))
        try:
            cv = cond(seq.get(k))
            cv = _b_bool(cv) if not isinstance(cv, (bool, SB)) else cv
        finally:
            ctx.exit_generic(tok)
        tok = ctx.enter_generic(k, sand(0 <= k, k < n, cv))
        try:
            val = elt(seq.get(k))
        finally:
            ctx.exit_generic(tok)
        # filter comprehension: result[m] = elt(seq[sel[m]]) with sel the increasing list of all k with cond
        sel = npstub.filtered_indices(n, lambda q, cv=cv, k=k: sym.subst_val(cv, k, q))
        r = SSeq(sel.shape[0], lambda q, val=val, k=k, sel=sel: sym.subst_val(val, k, sel.row(q)))
        r.filter_of = (seq, sel)
        return r

    # ---- loops ------------------------------------------------------------
    def iter_enter(self, K, it, funcq, elem_mut=False):
        if isinstance(it, dict):
            raise OutOfReach("iteration over dict object")
        L = LoopIter(self, K, it, funcq, elem_mut)
        if elem_mut and not L.concrete:
            if not isinstance(it, SSeq):
                raise OutOfReach("in-place mutation of the elements of a symbolic array in a loop")
            L.entry_get = it._get
        return L

    def _spec(self, L):
        q = "%s.%s" % (self.modname, L.funcq)
        con = REGISTRY.get(q)
        if con is None or L.K not in con.loops:
            raise OutOfReach("loop %d of %s has symbolic length and no invariant in the sidecar" % (L.K, q))
        return con, con.loops[L.K]

    def _inv(self, L, i, ns):
        con, spec = self._spec(L)
        v = types.SimpleNamespace(**{k: x for k, x in ns.items() if not k.startswith("__")})
        if L.elem_mut:
            v.elems = L.seq                       # the list whose elements the loop mutates (current content)
            v.old_elems = SSeq(L.seq.length(), L.entry_get)   # its content at loop entry
        ctx = cur()
        out = list(spec.inv(C(), i, v))
        return con, spec, out

    def loop_entry(self, K, L, loc):
        con, spec, clauses = self._inv(L, 0, loc)
        ctx = cur()
        for cl in clauses:
            ctx.prove("%s:loop%d:inv.entry:%s" % (con.name, K, cl[0]), cl[1], kind="inv.entry",
                      props=spec.props or con.props, role="aux", assume_after=False)

    def loop_fork(self, K):
        return cur().decide("loop%d" % K)

    def loop_havoc(self, K, L, mode, loc, names, attrs):
        con, spec = self._spec(L)
        ctx = cur()
        n = L.seq.length()
        ns = dict(loc)
        new = []
        if L.elem_mut:
            # the elements visited so far have been rewritten: the list content is arbitrary (constrained by inv)
            probe = npstub._probe_shape(L.seq)
            fresh_seq = sym.sym_seq("elems%d" % K, n, tuple(probe))
            L.seq._get = fresh_seq._get
        deferred = []
        for idx_, nm in enumerate(names):
            if nm not in loc:
                new.append(UNDEF)
                continue
            t = spec.types.get(nm)
            if callable(t) and getattr(t, "needs_ns", False):
                new.append(None)
                deferred.append((idx_, nm, t))
                continue
            v = self._havoc_value(nm, loc[nm], spec)
            ns[nm] = v
            new.append(v)
        # variables the invariant *defines* in terms of the others (e.g. last == ids[-1]): the local then is that
        # term, not a fresh symbol constrained to equal it
        for idx_, nm, t in deferred:
            v = t(C(), loc[nm], types.SimpleNamespace(**{k: x for k, x in ns.items() if not k.startswith("__")}))
            ns[nm] = v
            new[idx_] = v
        for obj, attr in attrs:
            if obj in loc and hasattr(loc[obj], attr):
                o = loc[obj]
                setattr(o, attr, self._havoc_value("%s.%s" % (obj, attr), getattr(o, attr), spec))
        if mode == "pres":
            i = fresh("int", "i!loop%d" % K)
            ctx.assume(sand(0 <= i, i < n))
            sym.mark_index(i)
            L.index = i
        else:
            i = n
            ctx.assume(n >= 0)
        _, _, clauses = self._inv(L, i, ns)
        for cl in clauses:
            ctx.assume(cl[1], tag="inv:" + cl[0])
        return tuple(new)

    def _havoc_value(self, nm, old, spec):
        t = spec.types.get(nm)
        if callable(t):
            return t(C(), old)
        if t == "keep":
            return old
        if t is None:
            if isinstance(old, bool) or isinstance(old, SB):
                t = "bool"
            elif isinstance(old, (int, SI)):
                t = "int"
            elif isinstance(old, (float, Fraction, SR)):
                t = "real"
            elif isinstance(old, CArr):
                return sym.sym_matrix(nm, old.shape)
            elif isinstance(old, SSeq):
                t = "list[%s]" % (old.elem_kind or "real")
            elif isinstance(old, list) and old and all(isinstance(e, CArr) and e.shape == (4, 4) for e in old):
                t = "list[mat4]"
            else:
                raise OutOfReach("loop-carried variable %s of type %s needs a declared type" %
                                 (nm, type(old).__name__))
        if t in ("real", "int", "bool"):
            return fresh(t, nm)
        if t == "list[mat4]":
            m = fresh("int", nm.replace(".", "_") + "_len")
            cur().assume(m >= 0)
            return sym.sym_seq(nm.replace(".", "_"), m, (4, 4))
        if t.startswith("list["):
            ek = t[5:-1]
            m = fresh("int", nm + "_len")
            cur().assume(m >= 0)
            if "," in ek:
                parts = [sym.sym_seq("%s_%d" % (nm, i), m, (), k.strip()) for i, k in enumerate(ek.split(","))]
                s = SSeq(m, lambda q, parts=parts: tuple(p.get(q) for p in parts), ek)
                return s
            s = sym.sym_seq(nm, m, (), ek)
            s.elem_kind = ek
            return s
        raise OutOfReach("havoc type %r" % (t, ))

    def loop_after(self, K, L, loc):
        if L.elem_mut:
            # write the (mutated) element back into the list
            prev, i_, elem = L.seq._get, L.index, L.cur_elem
            L.seq._get = lambda q, prev=prev, i_=i_, elem=elem: sym.ite_val(q == i_, elem, lambda: prev(q))
        con, spec, clauses = self._inv(L, L.index + 1, loc)
        ctx = cur()
        for cl in clauses:
            uses = None
            if len(cl) > 2 and cl[2] is not None:
                uses = set(cl[2]) | {cl[0]}
            ctx.prove("%s:loop%d:inv.pres:%s" % (con.name, K, cl[0]), cl[1], kind="inv.pres",
                      props=spec.props or con.props, role="aux", assume_after=False, only_inv=uses)
        raise PathEnd()


# ---------------------------------------------------------------------------
# builtins seen by the rewritten code

def _b_len(x):
    if hasattr(x, "__pyvc_len__"):
        return x.__pyvc_len__()
    if isinstance(x, (SSeq, SArr)):
        return sym.seq_len(x)
    return _bi.len(x)


def _b_int(x=0, *a):
    if isinstance(x, SI):
        return x
    if isinstance(x, SR):
        # trusted: int() truncates toward zero
        r = fresh("int", "trunc")
        rt, xt = r.t, x.t
        cur().assume(SB(z3.If(xt >= 0, z3.And(z3.ToReal(rt) <= xt, xt < z3.ToReal(rt) + 1),
                              z3.And(z3.ToReal(rt) >= xt, xt > z3.ToReal(rt) - 1))))
        cur().assume(SB(z3.IsInt(xt) == (z3.ToReal(rt) == xt)))    # consequence, stated for the solvers' benefit
        return r
    if isinstance(x, SB):
        return site(x, 1, 0)
    return _bi.int(x, *a)


def _b_float(x=0):
    if hasattr(x, "__pyvc_float__"):
        return x.__pyvc_float__()
    if isinstance(x, (SR, Fraction)):
        return x
    if isinstance(x, SI):
        return sym.to_real(x)
    if isinstance(x, (int, _np.integer)) and not isinstance(x, bool):
        return Fraction(int(x))
    if isinstance(x, CArr) and x.size == 1:
        return _b_float(x.flat[0])
    if isinstance(x, str):
        return sym.frac_of_float(_bi.float(x))
    return sym.frac_of_float(_bi.float(x))


def _b_bool(x=False):
    if isinstance(x, SB):
        return x
    if isinstance(x, (SR, SI)):
        return x != 0
    return _bi.bool(x)


def _b_range(*a):
    if any(isinstance(v, S) for v in a):
        if len(a) == 1:
            start, stop = 0, a[0]
        elif len(a) == 2:
            start, stop = a
        else:
            raise OutOfReach("symbolic range with step")
        return SSeq(sym.span(start, stop), lambda k: k + start, "int")
    return _bi.range(*a)


def _symlen(x):
    return isinstance(x, (SSeq, SArr)) and not isinstance(sym.seq_len(x), int)


def _b_zip(*xs):
    if any(_symlen(x) for x in xs):
        seqs = [sym.as_seq(x) for x in xs]
        n = seqs[0].length()
        for s in seqs[1:]:
            n = sym.smin2(n, s.length())
        return SSeq(n, lambda k: tuple(s.get(k) for s in seqs))
    return _bi.list(_bi.zip(*[(x if not isinstance(x, SSeq) else [x.get(i) for i in range(x.length())])
                              for x in xs]))


def _b_enumerate(x, start=0):
    if _symlen(x):
        s = sym.as_seq(x)
        return SSeq(s.length(), lambda k: (k + start, s.get(k)))
    return _bi.list(_bi.enumerate(x, start))


def _b_list(x=()):
    if isinstance(x, SSeq):
        return SSeq(x._len, x._get, x.elem_kind, owners=x.owners)
    if isinstance(x, SArr):
        return sym.as_seq(x)
    return _bi.list(x)


def _forall_seq(s):
    k = fresh("int", "k!all")
    ctx = cur()
    ctx.quiet += 1
    try:
        b = s.get(k)
    finally:
        ctx.quiet -= 1
    return SB(z3.ForAll([k.t], z3.Implies(z3.And(0 <= k.t, k.t < _term(s.length())), _term(_b_bool(b)))))


def _b_all(xs):
    if _symlen(xs):
        return _forall_seq(sym.as_seq(xs))
    return sand(*[_b_bool(x) if not isinstance(x, (bool, SB)) else x for x in xs])


def _b_any(xs):
    if _symlen(xs):
        s = sym.as_seq(xs)
        neg = SSeq(s.length(), lambda k: snot(_b_bool(s.get(k))))
        return snot(_forall_seq(neg))
    return sor(*[_b_bool(x) if not isinstance(x, (bool, SB)) else x for x in xs])


def _b_isinstance(x, cls):
    _map = {_b_int: int, _b_float: float, _b_bool: bool, _b_list: list}
    if isinstance(cls, tuple):
        cls = tuple(_map.get(k, k) if callable(k) and not isinstance(k, type) else k for k in cls)
    elif not isinstance(cls, type) and callable(cls):
        cls = _map.get(cls, cls)
    if cls is float or (isinstance(cls, tuple) and float in cls):
        if isinstance(x, (SR, Fraction)):
            return True
    if cls is int or (isinstance(cls, tuple) and int in cls):
        if isinstance(x, SI):
            return True
    if cls is bool and isinstance(x, SB):
        return True
    if cls is list or (isinstance(cls, tuple) and list in cls):
        if isinstance(x, SSeq):
            return True
    return _bi.isinstance(x, cls)


def _b_min(*a, **kw):
    if len(a) == 2 and any(isinstance(v, S) for v in a):
        return sym.smin2(a[0], a[1])
    return _bi.min(*a, **kw)


def _b_max(*a, **kw):
    if len(a) == 2 and any(isinstance(v, S) for v in a):
        return sym.smax2(a[0], a[1])
    return _bi.max(*a, **kw)


def _b_print(*a, **k):
    pass


class _Copy:
    """trusted: deepcopy returns an equal value that shares no mutable storage"""
    @staticmethod
    def deepcopy(x, memo=None):
        import copy as _copy
        npstub._use("copy.deepcopy")
        return _copy.deepcopy(x, memo)

    @staticmethod
    def copy(x):
        import copy as _copy
        return _copy.copy(x)


class SymPackage(types.ModuleType):
    def __init__(self, loader, name):
        super().__init__(name)
        self.__dict__["_loader"] = loader

    def __getattr__(self, a):
        if a.startswith("__"):
            raise AttributeError(a)
        try:
            return self.__dict__["_loader"].load(self.__name__ + "." + a)
        except ImportError:
            real = importlib.import_module(self.__name__)
            return getattr(real, a)


class _Scipy(types.ModuleType):
    pass


class Loader:
    def __init__(self, repo=REPO, overrides=None, real_modules=(), symbolic=()):
        self.repo = repo
        self.modules = {}
        self.sha = {}
        self.dropped = []
        self.loops = {}
        self.overrides = dict(overrides or {})   # module name -> replacement object (ghost libraries)
        self.real = (set(REAL_EVO) | set(real_modules)) - set(symbolic)
        self.originals = {}                       # qualname -> original function
        self.call_depth = 0
        self.cut_calls = True
        self.inline_only = set()
        self.used_contracts = set()
        scipy = _Scipy("scipy")
        import scipy as _real_scipy
        scipy.__version__ = _real_scipy.__version__
        scipy.spatial = _Scipy("scipy.spatial")
        scipy.spatial.transform = npstub.sst
        self.scipy = scipy

    # ---- import hook ------------------------------------------------------
    def _import(self, name, globals=None, locals=None, fromlist=(), level=0):
        if level != 0:
            raise OutOfReach("relative import")
        top = name.split(".")[0]
        if name in self.overrides:
            return self.overrides[name]
        if top == "numpy":
            return npstub.np
        if top == "math":
            return npstub.math
        if top == "copy":
            return _Copy
        if top == "scipy":
            if fromlist:
                m = self.scipy
                for part in name.split(".")[1:]:
                    m = getattr(m, part)
                return m
            return self.scipy
        if top == "evo":
            if name in self.real:
                return importlib.import_module(name) if fromlist else importlib.import_module("evo")
            if fromlist:
                return self.load(name)
            if "evo!pkg" not in self.modules:
                self.modules["evo!pkg"] = SymPackage(self, "evo")
            return self.modules["evo!pkg"]
        return _bi.__import__(name, globals, locals, fromlist, level)

    def _path(self, modname):
        rel = modname.replace(".", "/")
        p = os.path.join(self.repo, rel + ".py")
        if os.path.exists(p):
            return p, False
        p = os.path.join(self.repo, rel, "__init__.py")
        if os.path.exists(p):
            return p, True
        raise ImportError(modname)

    def builtins(self):
        d = dict(_bi.__dict__)
        d.update({"len": _b_len, "int": _b_int, "float": _b_float, "bool": _b_bool, "range": _b_range,
                  "zip": _b_zip, "enumerate": _b_enumerate, "list": _b_list, "all": _b_all, "any": _b_any,
                  "isinstance": _b_isinstance, "min": _b_min, "max": _b_max, "print": _b_print,
                  "__import__": self._import})
        d.update(self.overrides.get("builtins", {}))
        return d

    def load(self, modname):
        if modname in self.modules:
            return self.modules[modname]
        if modname in self.real:
            return importlib.import_module(modname)
        path, is_pkg = self._path(modname)
        if is_pkg and modname != "evo":
            pkg = SymPackage(self, modname)
            self.modules[modname] = pkg
            return pkg
        src = open(path).read()
        self.sha[os.path.relpath(path, self.repo)] = hashlib.sha256(src.encode()).hexdigest()
        tree, rw = transform.rewrite(src, path)
        self.dropped += rw.dropped
        self.loops[modname] = rw.loops
        code = compile(tree, path, "exec")
        if is_pkg:
            mod = SymPackage(self, modname)
        else:
            mod = types.ModuleType(modname)
        mod.__file__ = path
        mod.__dict__["__builtins__"] = self.builtins()
        mod.__dict__["__pyvc__"] = API(self, modname)
        self.modules[modname] = mod
        # classes look their module up in sys.modules (enum, abc, pickling): not needed; keep isolated
        exec(code, mod.__dict__)
        self._install_contracts(mod, modname)
        return mod

    # ---- contracts at call sites -------------------------------------------
    def _install_contracts(self, mod, modname):
        for q, con in REGISTRY.items():
            if not q.startswith(modname + "."):
                continue
            rest = q[len(modname) + 1:].split(".")
            owner = mod
            try:
                for part in rest[:-1]:
                    owner = getattr(owner, part)
                raw = owner.__dict__[rest[-1]] if isinstance(owner, type) else getattr(owner, rest[-1])
            except (AttributeError, KeyError):
                continue  # function no longer exists: reported by the check as a stale contract
            kind = None
            fn = raw
            if isinstance(raw, staticmethod):
                kind, fn = "static", raw.__func__
            elif isinstance(raw, classmethod):
                kind, fn = "class", raw.__func__
            elif isinstance(raw, property):
                kind, fn = "property", raw.fget
            self.originals[q] = fn
            if con.inline:
                continue
            w = self._wrapper(q, con, fn)
            if kind == "static":
                w = staticmethod(w)
            elif kind == "property":
                w = property(w, raw.fset, raw.fdel)
            setattr(owner, rest[-1], w)

    def _wrapper(self, q, con, fn):
        loader = self

        def wrapper(*args, **kwargs):
            if not sym.has_ctx() or not loader.cut_calls or q in loader.inline_only:
                return fn(*args, **kwargs)
            return loader.apply_contract(q, con, fn, args, kwargs)
        wrapper.__name__ = fn.__name__
        wrapper.__wrapped__ = fn
        return wrapper

    def apply_contract(self, q, con, fn, args, kwargs):
        ctx = cur()
        a = bind_args(fn, args, kwargs)
        c = C()
        self.used_contracts.add(q)
        for label, cond in con.pre(c, a):
            ctx.prove("pre:%s:%s" % (q, label), cond, kind="pre", props=con.props, role="aux")
        mod = self.modules[q.rsplit(".", 1)[0]] if q.rsplit(".", 1)[0] in self.modules else None
        for r in con.raises:
            w = (r.call_when or r.when)(c, a)
            if isinstance(w, (bool, _np.bool_)):
                if w:
                    ctx.ghost["raised:" + q] = r.label
                    raise self.exception_class(q, r.exc)("raised by contract %s:%s" % (q, r.label))
                continue
            wt = _term(w)
            can_raise = ctx._feasible(wt)
            if not can_raise:
                continue
            if ctx.generic or getattr(con, "callers_must_not_raise", False):
                # inside a comprehension element (or by the contract's choice): the caller has to establish that
                # the exception cannot occur
                ctx.prove("pre:%s:no_%s" % (q, r.label), snot(w), kind="pre", props=con.props, role="aux")
                continue
            if bool(w):
                ctx.ghost["raised:" + q] = r.label
                raise self.exception_class(q, r.exc)("raised by contract %s:%s" % (q, r.label))
        old = con.snapshot(c, a) if hasattr(con, "snapshot") else None
        res = con.result(c, a)
        posts = con.post(c, a, res) if old is None else con.post(c, a, res, old)
        for cl in posts:
            ctx.assume(cl.cond)
        return res

    def exception_class(self, q, name):
        parts = q.split(".")
        for i in range(len(parts) - 1, 0, -1):
            m = self.modules.get(".".join(parts[:i]))
            if m is not None and hasattr(m, name):
                return getattr(m, name)
        for m in list(self.modules.values()):
            if name in getattr(m, "__dict__", {}):
                return m.__dict__[name]
        return getattr(_bi, name)

    def original(self, q):
        modname = q
        while modname and modname not in self.modules:
            modname = modname.rsplit(".", 1)[0] if "." in modname else ""
            if modname:
                try:
                    self._path(modname)
                    self.load(modname)
                except ImportError:
                    continue
        if q in self.originals:
            return self.originals[q]
        # no contract registered: resolve directly
        parts = q.split(".")
        for i in range(len(parts) - 1, 0, -1):
            mn = ".".join(parts[:i])
            try:
                self._path(mn)
            except ImportError:
                continue
            obj = self.load(mn)
            for p in parts[i:]:
                obj = obj.__dict__[p] if isinstance(obj, type) and p in obj.__dict__ else getattr(obj, p)
            if isinstance(obj, staticmethod):
                obj = obj.__func__
            if isinstance(obj, property):
                obj = obj.fget
            return getattr(obj, "__wrapped__", obj)
        raise ImportError(q)
