"""bin/check <property id> [--tier quick|thorough] [--replay <file>]

exit 0  every obligation discharged (known findings still reproduce) and the bounded run is clean
exit 1  a property clause is refuted / a run-time contract fired on the real code (VIOLATION line)
exit 2  undecided obligations only (UNDECIDED lines, no VIOLATION)
exit 3  checker error (traceback, vacuous contract, zero obligations, library-contract conformance failure)
"""
from __future__ import annotations

import argparse
import types
import importlib
import json
import os
import random
import re
import sys
import time
import traceback
import warnings

warnings.filterwarnings("ignore", category=SyntaxWarning)

ROOT = os.environ.get("VERIF_ROOT", os.path.dirname(os.path.dirname(os.path.abspath(__file__))))
sys.path.insert(0, ROOT)

COMMON_ASSUMPTIONS = [
    "A1: machine floats are treated as mathematical reals (no rounding, overflow or NaN) in every discharged obligation; "
    "float literals are read as the exact decimals they are written as",
    "A2: trusted library contracts (pyvc/npstub.py, listed in coverage.trusted_base) for numpy/scipy/stdlib functions",
    "A3: numpy fixed-width integer overflow ignored (ints are mathematical)",
    "A4: Python semantics are CPython's own (the rewritten real code is executed by CPython on symbolic values); "
    "no monkey-patching of evo at run time",
    "A5: single-threaded execution",
    "A6: termination of library calls; termination of loops is not proved (for-loops over finite sequences terminate)",
    "the mechanical rewriting R1-R5 of pyvc/transform.py preserves meaning (loops cut by invariants, comprehensions as map/filter)",
    "bounded stand-ins (coverage.bounded) are never counted as proved",
]


def _safe(o):
    """JSON fallback that never evaluates repo code (str() of a symbolic trajectory would)"""
    try:
        import numpy as _np
        if isinstance(o, _np.ndarray):
            return o.tolist()
        if isinstance(o, (_np.floating, _np.integer)):
            return o.item()
    except Exception:
        pass
    return "<%s>" % type(o).__name__


def sanitize(s):
    return re.sub(r"[^A-Za-z0-9_.\-\[\]]+", "_", s)[:150]


def load_known():
    p = os.path.join(ROOT, "known_findings.json")
    if not os.path.exists(p):
        return {"findings": [], "fixed": []}
    return json.load(open(p))


class Session:
    def __init__(self, pid, tier, seed):
        self.pid, self.tier, self.seed = pid, tier, seed
        self.t0 = time.time()
        self.violations = []      # dicts: obligation, replay, found_input(bool), what
        self.undecided = []
        self.errors = []
        self.known_hits = []
        self.reports = []
        self.bounded = None


def run_check(pid, tier, seed):
    from pyvc import loader as ldr, verify, backends, contract, lemma as lem, npstub
    S = Session(pid, tier, seed)
    _clean_scratch()
    try:
        pm = importlib.import_module("props." + pid)
    except ModuleNotFoundError as e:
        print("no check for property %s (%s)" % (pid, e))
        return 3, S, None
    for sc in pm.SIDECARS:
        importlib.import_module(sc)
    known = load_known()
    kn = [k for k in known.get("findings", []) if k["property"] == pid]
    L = ldr.Loader(overrides=getattr(pm, "OVERRIDES", {}), symbolic=getattr(pm, "SYMBOLIC_MODULES", ()))
    from pyvc import session
    session._LOADER[0] = L
    t_z3 = 40000 if tier == "quick" else 120000
    funcs_ok, funcs_oor = [], []
    # ---- jobs: every (function, case) and every lemma is verified in its own worker process -------------------
    jobs = []
    for q in pm.FUNCTIONS:
        con = contract.REGISTRY.get(q)
        if con is None:
            S.errors.append("no contract registered for %s" % q)
            continue
        keep = getattr(pm, "CASE_FILTER", {}).get(q)
        for case in con.cases():
            if keep is not None and not keep(case):
                continue        # this property only needs some configurations of the function (the others: other checks)
            jobs.append((pid, "func", q, case, t_z3))
    for ln in getattr(pm, "LEMMAS", []):
        if ln not in lem.LEMMAS:
            S.errors.append("lemma %s not defined" % ln)
            continue
        jobs.append((pid, "lemma", ln, None, t_z3))
    jobs.append((pid, "bounded", tier, seed, t_z3))
    from concurrent.futures import ProcessPoolExecutor
    import multiprocessing as mp
    cores = min(16, max(1, (os.cpu_count() or 4)))
    inner = max(1, cores // max(1, len(jobs)))
    jobs = [j + (inner, ) for j in jobs]
    with ProcessPoolExecutor(max_workers=min(cores, len(jobs)), mp_context=mp.get_context("fork")) as pool:
        results = list(pool.map(_job, jobs, chunksize=1))
    all_vcs = []
    bres = None
    for job, r in zip(jobs, results):
        if job[1] == "bounded":
            if r.get("error"):
                S.errors.append("bounded: " + r["error"])
            bres = r.get("bres")
            continue
        rep = types.SimpleNamespace(**{k: v for k, v in r.items() if k != "vcs"})
        rep.vcs = [types.SimpleNamespace(**v) for v in r["vcs"]]
        S.reports.append(rep)
        if rep.error:
            S.errors.append("%s: %s" % (rep.label, rep.error))
        if rep.vacuous:
            S.errors.append("%s: contract is vacuous (hypotheses unsatisfiable)" % rep.label)
        if rep.out_of_reach:
            funcs_oor.append((rep.label, rep.out_of_reach))
        elif job[1] == "func":
            funcs_ok.append(rep.label)
        all_vcs += rep.vcs
        npstub.USED.update(r.get("used", []))
        L.sha.update(r.get("sha", {}))
        L.dropped += r.get("dropped", [])
    # extra obligations produced by property-specific analyses (AST scans ...)
    if hasattr(pm, "extra_obligations"):
        try:
            extra = pm.extra_obligations(L, S)
            backends.discharge_all([v for v in extra if v.status is None], t_z3_ms=t_z3, t_cvc5_ms=t_z3, use_cvc5=True, parallel=True)
            for vc in extra:
                all_vcs.append(types.SimpleNamespace(
                    name=vc.name, kind=vc.kind, role=vc.role, props=vc.props, where=vc.where, note=vc.note,
                    status=vc.status, backend=vc.backend, time=vc.time, detail=vc.detail, goal=str(vc.goal)[:300],
                    n_hyps=len(vc.hyps), func=vc.func, replay=None))
        except Exception as e:
            S.errors.append("extra_obligations: " + "".join(traceback.format_exception(type(e), e, e.__traceback__))[-2000:])
    # only obligations that serve this property
    vcs = [vc for vc in all_vcs if not vc.props or pid in vc.props]
    S.bounded = bres
    # ---- discharge every obligation (one pool over all of them) ----------------------------------------------
    todo = [vc for vc in vcs if vc.status is None]
    payload = [(vc.smt2, t_z3, t_z3, True, True, tuple(vc.derived)) for vc in todo]
    if payload:
        if True:
            res = backends.solve_many(payload, cores)
            retry = []
            for vc, (st, be, dt, info) in zip(todo, res):
                vc.status, vc.backend, vc.time, vc.detail = st, be, dt, info
                if getattr(vc, "filtered", False) and st in ("undecided", "refuted"):
                    retry.append(vc)
            if retry:
                res2 = backends.solve_many([(vc.smt2_full, t_z3, t_z3, True, True, tuple(vc.derived_full))
                                            for vc in retry], cores, budget_s=2.0 * t_z3 / 1000.0 + 60.0)
                for vc, (st, be, dt, info) in zip(retry, res2):
                    vc.time += dt
                    vc.status, vc.backend, vc.detail = st, be, info
    for vc in vcs:
        if vc.status == "refuted" and vc.func in contract.REGISTRY and getattr(vc, "smt2", None):
            try:
                vc.replay = replay_from_smt2(vc, contract)
            except Exception as e:
                vc.replay = {"error": "replay failed: %r" % e}
    # ---- verdicts ---------------------------------------------------------------
    expected_oor = dict(getattr(pm, "EXPECTED_OUT_OF_REACH", {}))
    for label, why in funcs_oor:
        base = label.split("[")[0]
        if label in expected_oor or base in expected_oor:
            continue
        S.undecided.append({"obligation": label, "why": "function out of reach of the verifier: " + why})
    import shutil as _sh
    _sh.rmtree(os.path.join(ROOT, "replays", pid), ignore_errors=True)       # replay files of earlier runs are stale
    os.makedirs(os.path.join(ROOT, "replays", pid), exist_ok=True)
    bviol = list(bres["violations"]) if bres else []
    for v in bviol:
        tag = v.get("tag", "")
        hit = [k for k in kn if k.get("tag") and tag.startswith(k["tag"])]
        if hit:
            S.known_hits.append((hit[0], v))
            continue
        path = os.path.join(ROOT, "replays", pid, sanitize("bounded_" + v["checker"] + "_" + tag) + ".json")
        json.dump({"property": pid, "kind": "bounded", "checker": v["checker"], "input": v["input"],
                   "failed": v["failed"], "tag": tag}, open(path, "w"), indent=1, default=_safe)
        S.violations.append({"obligation": "bounded:" + v["checker"] + ":" + tag, "replay": path, "found_input": True,
                             "what": v["failed"]})
    for vc in vcs:
        if vc.status == "discharged":
            continue
        hit = [k for k in kn if k.get("obligation") and vc.name.startswith(k["obligation"])]
        if vc.status == "refuted" and hit:
            S.known_hits.append((hit[0], {"vc": vc.name}))
            continue
        rp = vc.replay if vc.status == "refuted" else None
        if vc.status == "refuted" and vc.role in ("prop", "safety"):
            # replay: the verifier's counterexample against the real code; else a bounded search for a failing input
            found = None
            if rp and rp.get("holds") is False:
                found = {"checker": "__function__", "input": {"function": vc.func, "args": rp["input"],
                                                              "clause": rp.get("clause")},
                         "failed": ["clause %s is false on the real code; observed %s" % (rp.get("clause"), rp.get("observed"))]}
            elif hasattr(pm, "concretize"):
                try:
                    # the bounded search for a failing input is run once per check (it does not depend on the obligation
                    # unless the property module says so)
                    if getattr(pm, "CONCRETIZE_PER_OBLIGATION", False):
                        found = pm.concretize(vc, tier, seed)
                    else:
                        if "conc" not in S.__dict__:
                            S.conc = pm.concretize(vc, tier, seed)
                        found = S.conc
                except Exception as e:
                    found = None
                    S.errors.append("concretize(%s): %s" % (vc.name, e))
            path = os.path.join(ROOT, "replays", pid, sanitize(vc.name) + ".json")
            rec = {"property": pid, "kind": "obligation", "obligation": vc.name, "where": vc.where,
                   "function": vc.func, "solver": vc.backend, "solver_output": vc.detail, "note": vc.note,
                   "model_replay": rp}
            if found:
                rec.update({"checker": found["checker"], "input": found["input"], "failed": found["failed"]})
            json.dump(rec, open(path, "w"), indent=1, default=_safe)
            S.violations.append({"obligation": vc.name, "replay": path, "found_input": bool(found),
                                 "what": vc.detail[:300]})
        elif vc.status == "refuted":
            # auxiliary clause refuted: not a violation by itself (DESIGN 3.1); the property-level clauses that
            # depend on it are no longer established -> undecided unless the bounded run shows a real violation
            S.undecided.append({"obligation": vc.name, "why": "auxiliary clause refuted (%s)%s; dependent property "
                                "clauses rest on it" % (vc.backend, ", counterexample confirmed on the real code"
                                                        if rp and rp.get("holds") is False else ""),
                                "model": vc.detail[:500], "model_replay": rp})
        else:
            S.undecided.append({"obligation": vc.name, "why": "solver: %s" % (vc.detail or "unknown")[:200]})
    # known findings must still reproduce
    for k in kn:
        if not any(h[0] is k for h in S.known_hits):
            S.errors.append("known finding no longer reproduces (stale entry?): %s" % k.get("what"))
    if not vcs:
        S.errors.append("zero obligations generated")
    ev = write_evidence(pm, S, L, vcs, funcs_ok, funcs_oor, bres, npstub)
    # ---- output -------------------------------------------------------------------
    shown = set()
    for k, v in S.known_hits:
        if id(k) in shown:
            continue
        shown.add(id(k))
        print("KNOWN-FINDING: property=%s %s" % (pid, k.get("what")))
    for u in S.undecided:
        print("UNDECIDED property=%s obligation=%s (%s)" % (pid, u["obligation"], u["why"][:160]))
    for e in S.errors:
        print("CHECKER-ERROR property=%s %s" % (pid, e.strip().splitlines()[-1][:300]))
        sys.stderr.write(e + "\n")
    seen_v = set()
    for v in S.violations:
        if v["replay"] in seen_v:
            continue
        seen_v.add(v["replay"])
        print("VIOLATION property=%s replay=%s%s" % (pid, v["replay"], "" if v["found_input"] else " no-failing-input-found"))
    nd = sum(1 for vc in vcs if vc.status == "discharged")
    print("property=%s tier=%s obligations=%d discharged=%d undecided=%d violations=%d bounded_cases=%s wall=%.1fs" %
          (pid, tier, len(vcs), nd, len(S.undecided), len(S.violations), bres["cases"] if bres else 0,
           time.time() - S.t0))
    if S.violations:
        return 1, S, ev
    if S.errors:
        return 3, S, ev
    if S.undecided:
        return 2, S, ev
    return 0, S, ev


def _clean_scratch(own=False):
    """scratch directories .work/<name>_<pid>: remove this process' own ones, or those of processes that are gone"""
    import re
    import shutil
    base = os.path.join(ROOT, ".work")
    if not os.path.isdir(base):
        return
    for d in os.listdir(base):
        m = re.match(r"^.+_(\d+)$", d)
        if not m or not os.path.isdir(os.path.join(base, d)):
            continue
        pid = int(m.group(1))
        if (own and pid == os.getpid()) or (not own and not os.path.exists("/proc/%d" % pid)):
            shutil.rmtree(os.path.join(base, d), ignore_errors=True)


def _job(job):
    """worker: verify one function case / one lemma / run the bounded stand-in; returns plain data"""
    pid, kind, name, case, t_z3, inner = job
    import faulthandler, signal as _sig
    faulthandler.register(_sig.SIGUSR1, file=sys.stderr, all_threads=False)    # kill -USR1 <worker>: where is it?
    import warnings as _w
    _w.filterwarnings("ignore")
    from pyvc import loader as ldr, verify, backends, contract, lemma as lem, npstub, session
    pm = importlib.import_module("props." + pid)
    if kind == "bounded":
        try:
            return {"bres": pm.bounded(name, case) if hasattr(pm, "bounded") else None}
        except Exception as e:
            return {"bres": None, "error": "".join(traceback.format_exception(type(e), e, e.__traceback__))[-3000:]}
        finally:
            _clean_scratch(own=True)
    for sc in pm.SIDECARS:
        importlib.import_module(sc)
    L = ldr.Loader(overrides=getattr(pm, "OVERRIDES", {}), symbolic=getattr(pm, "SYMBOLIC_MODULES", ()))
    session._LOADER[0] = L
    import signal as _sg2

    class _ExploreTimeout(BaseException):
        pass

    def _on_alarm(signum, frame):
        raise _ExploreTimeout()
    budget = int(os.environ.get("PYVC_EXPLORE_BUDGET_S", "420" if t_z3 <= 40000 else "1800"))
    _sg2.signal(_sg2.SIGALRM, _on_alarm)
    _sg2.alarm(budget)
    try:
        return _job_body(pid, kind, name, case, L, verify, lem, contract, backends, npstub)
    except _ExploreTimeout:
        label = name if not case else "%s[%s]" % (name, ",".join("%s=%s" % kv for kv in sorted(case.items())))
        return {"label": label if kind == "func" else "lemma:" + name, "paths": 0,
                "out_of_reach": "symbolic exploration exceeded its budget of %d s" % budget, "error": None, "vacuous": False,
                "time": float(budget), "vcs": [], "used": sorted(npstub.USED), "sha": L.sha, "dropped": L.dropped, "case": case}
    finally:
        _sg2.alarm(0)


def _job_body(pid, kind, name, case, L, verify, lem, contract, backends, npstub):
    if kind == "func":
        con = contract.REGISTRY[name]
        label = name if not case else "%s[%s]" % (name, ",".join("%s=%s" % kv for kv in sorted(case.items())))
        rep = verify.verify_function(L, con, case=case, label=label)
        rep.case = case
        suffix = "" if not case else "[%s]" % ",".join("%s=%s" % kv for kv in sorted(case.items()))
        for vc in rep.vcs:
            vc.name = vc.name + suffix
    else:
        label = "lemma:" + name
        rep = lem.run_lemma(L, lem.LEMMAS[name])
    vcs = [vc for vc in rep.vcs if not vc.props or pid in vc.props]
    out = []
    import z3 as _z3
    for vc in vcs:
        g = _z3.simplify(vc.goal)
        trivial = _z3.is_true(g)
        hyps = backends.relevant_hyps(vc.hyps, vc.goal) if not trivial else []
        rec = {"name": vc.name, "kind": vc.kind, "role": vc.role, "props": list(vc.props), "where": vc.where,
               "note": vc.note, "status": "discharged" if trivial else None, "backend": "simplify" if trivial else None,
               "time": 0.0, "detail": "", "goal": str(vc.goal)[:300], "n_hyps": len(vc.hyps), "func": vc.func,
               "replay": None, "case": case if kind == "func" else None}
        if not trivial:
            rec["smt2"] = backends.vc_to_smt2(hyps, vc.goal)
            rec["derived"] = backends._derived_idx(vc, hyps)
            rec["filtered"] = len(hyps) != len(vc.hyps)
            if rec["filtered"]:
                rec["smt2_full"] = backends.vc_to_smt2(vc.hyps, vc.goal)
                rec["derived_full"] = backends._derived_idx(vc, vc.hyps)
        out.append(rec)
    return {"label": label, "paths": rep.paths, "out_of_reach": rep.out_of_reach, "error": rep.error,
            "vacuous": rep.vacuous, "time": rep.time, "vcs": out, "used": sorted(npstub.USED), "sha": L.sha,
            "dropped": L.dropped, "case": case}


def replay_from_smt2(vc, contract):
    """replay the solver's counter-model of a function-level obligation against the real code"""
    import z3
    from pyvc import replay as rpl, sym
    from pyvc.engine import PathCtx, Run
    con = contract.REGISTRY[vc.func]
    case = vc.case or {}
    txt = getattr(vc, "smt2_full", None) or vc.smt2
    s_ = z3.Solver()
    s_.set("timeout", 20000)
    s_.from_string(txt)
    if s_.check() != z3.sat:
        return None
    model = s_.model()
    run = Run(vc.func, None)
    ctx = PathCtx(run, [])
    old = sym._CUR[0]
    sym._CUR[0] = ctx
    try:
        sym_args = con.args(contract.C(), **case) if case else con.args(contract.C())
    finally:
        sym._CUR[0] = old
    return rpl.replay_function_vc(vc, con, sym_args, case, model=model)


def generic_replay(vc, contract, S):
    """replay the solver's counter-model of a function-level obligation against the real code"""
    from pyvc import replay as rpl, sym
    from pyvc.engine import PathCtx, Run
    con = contract.REGISTRY.get(vc.func)
    if con is None:
        return None
    case = {}
    for rep in S.reports:
        if vc in rep.vcs:
            case = getattr(rep, "case", None) or {}
            break
    try:
        run = Run(vc.func, None)
        ctx = PathCtx(run, [])
        old = sym._CUR[0]
        sym._CUR[0] = ctx
        try:
            sym_args = con.args(contract.C(), **case) if case else con.args(contract.C())
        finally:
            sym._CUR[0] = old
        return rpl.replay_function_vc(vc, con, sym_args, case)
    except Exception as e:
        return {"error": "replay failed: %r" % e}


def write_evidence(pm, S, L, vcs, funcs_ok, funcs_oor, bres, npstub):
    by_backend = {}
    solver_time = 0.0
    for vc in vcs:
        by_backend[vc.backend or "none"] = by_backend.get(vc.backend or "none", 0) + 1
        solver_time += vc.time or 0.0
    nd = sum(1 for vc in vcs if vc.status == "discharged")
    samples = []
    for vc in vcs[:6]:
        samples.append({"obligation": vc.name, "kind": vc.kind, "role": vc.role, "where": vc.where,
                        "n_hypotheses": vc.n_hyps, "goal": vc.goal, "status": vc.status,
                        "backend": vc.backend})
    kinds = {}
    for vc in vcs:
        kinds[vc.kind] = kinds.get(vc.kind, 0) + 1
    cov = {
        "obligations": len(vcs),
        "discharged": nd,
        "checker_cmd": "bin/check %s --tier %s" % (S.pid, S.tier),
        "trusted_base": sorted(set(getattr(pm, "TRUSTED", [])) | set(npstub.USED)),
        "functions_under_contract": funcs_ok,
        "out_of_reach_functions": [{"function": a, "reason": b} for a, b in funcs_oor],
        "lemmas": list(getattr(pm, "LEMMAS", [])),
        "by_backend": by_backend,
        "by_kind": kinds,
        "prop_clauses": sum(1 for vc in vcs if vc.role == "prop"),
        "solver_time_s": round(solver_time, 3),
        "slowest": [{"obligation": vc.name, "s": round(vc.time or 0.0, 1), "backend": vc.backend}
                    for vc in sorted(vcs, key=lambda v: -(v.time or 0.0))[:6]],
        "undecided": S.undecided,
        "known_findings": [k.get("what") for k, _ in S.known_hits],
        "samples": samples,
        "source_sha256": L.sha,
        "dropped_by_extraction": sorted(set(L.dropped))[:60],
        "rewritten_by_extraction": "R1-R5 of pyvc/transform.py (docstrings/annotations dropped; logger/print statements "
                                   "dropped; float literals exact; for-loops cut by invariants when the iterable is "
                                   "symbolic; comprehensions as map/filter)",
        "paths_explored": sum(r.paths for r in S.reports),
        "explanation": getattr(pm, "EXPLANATION", ""),
    }
    if bres:
        cov["bounded"] = {k: v for k, v in bres.items() if k not in ("violations", )}
        cov["bounded"]["label"] = "bounded stand-in: run-time evaluation of the same clauses on the real code; never counted as proved"
        cov["evaluations"] = bres["cases"]
        cov["distinct_nontrivial"] = bres.get("distinct_nontrivial", 0)
        cov["rule"] = bres.get("rule", "")
    ev = {
        "property_id": S.pid,
        "tier": S.tier,
        "seed": S.seed,
        "level": getattr(pm, "LEVEL", "proof"),
        "coverage": cov,
        "assumptions": COMMON_ASSUMPTIONS + list(getattr(pm, "ASSUMPTIONS", [])),
        "wall_s": round(time.time() - S.t0, 2),
        "violations": len(S.violations),
    }
    os.makedirs(os.path.join(ROOT, "evidence"), exist_ok=True)
    json.dump(ev, open(os.path.join(ROOT, "evidence", S.pid + ".json"), "w"), indent=1, default=_safe)
    return ev


def replay(pid, path):
    pm = importlib.import_module("props." + pid)
    rec = json.load(open(path))
    if "checker" not in rec:
        print("replay file names obligation %s; no concrete failing input was found:\n%s" %
              (rec.get("obligation"), rec.get("solver_output")))
        print("VIOLATION property=%s replay=%s no-failing-input-found" % (pid, path))
        return 1
    if rec["checker"] == "__function__":
        failed = replay_function_record(pm, rec)
    else:
        failed = pm.CHECKERS[rec["checker"]](rec["input"])
    if failed:
        print("replayed %s on the real code: %s" % (rec["checker"], failed))
        print("VIOLATION property=%s replay=%s" % (pid, path))
        return 1
    print("replay of %s: clause holds on the current tree" % rec["checker"])
    return 0


def replay_function_record(pm, rec):
    import types
    import numpy as np
    from pyvc import replay as rpl, contract
    for sc in pm.SIDECARS:
        importlib.import_module(sc)
    con = contract.REGISTRY[rec["input"]["function"]]
    args = {k: (np.array(v) if isinstance(v, list) else v) for k, v in rec["input"]["args"].items()}
    fn = rpl.real_function(con.name)
    import copy
    try:
        res = fn(**copy.deepcopy(args))
    except Exception as e:
        return ["real function raised %r" % e]
    a = types.SimpleNamespace(**args)
    for cl in con.post(contract.CC(), a, res):
        if cl.label == rec["input"]["clause"] and not bool(cl.cond):
            return ["clause %s is false on the real code (result %s)" % (cl.label, np.asarray(res).tolist() if not isinstance(res, (bool, float, int)) else res)]
    return []


def main():
    if os.environ.get("PYVC_DEBUG_HANG"):
        import faulthandler
        faulthandler.dump_traceback_later(int(os.environ["PYVC_DEBUG_HANG"]), exit=True, file=sys.stderr)
    ap = argparse.ArgumentParser()
    ap.add_argument("pid")
    ap.add_argument("--tier", default=os.environ.get("VERIF_TIER", "quick"), choices=["quick", "thorough"])
    ap.add_argument("--replay")
    a = ap.parse_args()
    seed = int(os.environ.get("VERIF_SEED", "0") or 0)
    os.environ.setdefault("VERIF_TMP", os.path.join(ROOT, ".work"))
    os.makedirs(os.environ["VERIF_TMP"], exist_ok=True)
    if a.replay:
        sys.exit(replay(a.pid, a.replay))
    try:
        code, S, ev = run_check(a.pid, a.tier, seed)
    except Exception as e:
        traceback.print_exc()
        print("CHECKER-ERROR property=%s %s" % (a.pid, e))
        sys.exit(3)
    sys.exit(code)


if __name__ == "__main__":
    main()
