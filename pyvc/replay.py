"""Counterexample replay: a refuted obligation's model is turned into concrete inputs, the *real* function of
/repo (real numpy, real evo import) is run on them and the failed clause is re-evaluated in concrete mode."""
from __future__ import annotations

import importlib
import types
from fractions import Fraction

import numpy as np
import z3

from . import sym, backends
from .contract import CC, C


def _val(model, t):
    v = model.eval(t, model_completion=True)
    if z3.is_rational_value(v):
        return float(Fraction(v.numerator_as_long(), v.denominator_as_long()))
    if z3.is_int_value(v):
        return v.as_long()
    if z3.is_true(v):
        return True
    if z3.is_false(v):
        return False
    if z3.is_algebraic_value(v):
        a = v.approx(20)
        return float(Fraction(a.numerator_as_long(), a.denominator_as_long()))
    raise ValueError("cannot concretise %s" % v)


def concretise(model, x, max_len=12):
    if isinstance(x, sym.S):
        return _val(model, x.t)
    if isinstance(x, sym.CArr):
        out = np.empty(x.shape, dtype=float)
        for idx in np.ndindex(x.shape):
            e = x[idx]
            out[idx] = _val(model, e.t) if isinstance(e, sym.S) else float(e)
        return out
    if isinstance(x, (sym.SArr, sym.SSeq)):
        n = sym.seq_len(x)
        n = _val(model, sym._term(n)) if isinstance(n, sym.S) else n
        if n > 200:
            raise ValueError("model length too large")
        rows = []
        for k in range(n):
            rows.append(concretise(model, x.row(k) if isinstance(x, sym.SArr) else x.get(k)))
        if isinstance(x, sym.SSeq):
            return rows
        return np.array(rows, dtype=float if x.kind == "real" else int)
    if isinstance(x, Fraction):
        return float(x)
    if isinstance(x, (list, tuple)):
        return type(x)(concretise(model, e) for e in x)
    return x


def real_function(q):
    parts = q.split(".")
    for i in range(len(parts) - 1, 0, -1):
        try:
            obj = importlib.import_module(".".join(parts[:i]))
        except ImportError:
            continue
        for p in parts[i:]:
            obj = getattr(obj, p)
        return obj
    raise ImportError(q)


def replay_function_vc(vc, con, sym_args, case, model=None):
    """returns dict(input=..., observed=..., clause=..., holds=bool) or None if the model cannot be replayed"""
    if model is None:
        model = backends.get_model(vc)
    if model is None:
        return None
    try:
        conc = {k: concretise(model, v) for k, v in sym_args.items()}
    except Exception as e:
        return {"error": "concretise: %s" % e}
    fn = real_function(con.name)
    a = types.SimpleNamespace(**conc)
    label = vc.name.split(":post:")[-1].split("[")[0] if ":post:" in vc.name else None
    import copy
    call_args = copy.deepcopy(conc)
    try:
        res = fn(**call_args)
        outcome = ("return", res)
    except Exception as e:
        outcome = ("raise", type(e).__name__ + ": " + str(e)[:200])
    rec = {"input": {k: (v.tolist() if isinstance(v, np.ndarray) else v) for k, v in conc.items()},
           "outcome": outcome[0],
           "observed": (outcome[1].tolist() if isinstance(outcome[1], np.ndarray) else repr(outcome[1])[:500])}
    cc = CC()
    try:
        if ":raises:" in vc.name:
            lab = vc.name.split(":raises:")[1].split(":")[0]
            whens = [r for r in con.raises if r.label in lab.split("+")]
            expected = any(bool(r.when(cc, a)) for r in whens)
            raised = outcome[0] == "raise" and any(outcome[1].startswith(r.exc) for r in whens)
            rec["clause"] = "raises %s iff condition" % lab
            rec["holds"] = (expected == raised)
        elif label is not None and outcome[0] == "return":
            for cl in con.post(cc, a, res):
                if cl.label == label:
                    rec["clause"] = label
                    rec["holds"] = bool(cl.cond)
                    break
            else:
                return {"error": "clause %s not found in concrete mode" % label, **rec}
        else:
            return {"error": "obligation kind not replayable generically", **rec}
    except Exception as e:
        return {"error": "concrete evaluation of the clause failed: %r" % e, **rec}
    return rec
