"""Verification of one function of /repo against its sidecar contract."""
from __future__ import annotations

import traceback
import types

import z3

from . import sym
from .sym import OutOfReach, cur, sand, sor, snot, SB
from .engine import Run, PathEnd
from .contract import C, Clause


class FuncReport:
    def __init__(self, name):
        self.name = name
        self.vcs = []
        self.paths = 0
        self.out_of_reach = None
        self.error = None
        self.vacuous = False
        self.time = 0.0
        self.outcomes = {}


def _is_repo_exception(e, loader):
    import evo
    return isinstance(e, evo.EvoException) or isinstance(e, (ValueError, ZeroDivisionError, IndexError, KeyError,
                                                              AssertionError, TypeError, AttributeError))


def verify_function(loader, con, case=None, label=None):
    """explore every path of the real function on the contract's symbolic inputs"""
    q = con.name
    rep = FuncReport(label or q)
    try:
        fn = loader.original(q)
    except Exception as e:
        rep.out_of_reach = "cannot load %s: %s" % (q, e)
        return rep
    c = C()
    case = case or {}

    def clause_props(cl):
        return cl.props if cl.props is not None else con.props

    def runner(ctx):
        args = con.args(c, **case) if case else con.args(c)
        a = types.SimpleNamespace(**args)
        for lab, cond in con.pre(c, a):
            ctx.assume(cond)
        old = con.snapshot(c, a) if hasattr(con, "snapshot") else None
        pre_when = {id(r): r.when(c, a) for r in con.raises if r.pre_state}

        def when_of(r):
            return pre_when[id(r)] if r.pre_state else r.when(c, a)
        try:
            res = fn(**args)
        except PathEnd:
            raise
        except OutOfReach:
            raise
        except sym.OutOfReach:
            raise
        except Exception as e:
            from .engine import Infeasible
            if isinstance(e, Infeasible):
                raise
            if not _is_repo_exception(e, loader):
                raise
            ename = type(e).__name__
            whens = [r for r in con.raises if r.exc == ename]
            if ename == "AssertionError" or not whens:
                if ename in ("TypeError", "AttributeError"):
                    tb = traceback.extract_tb(e.__traceback__)[-1]
                    raise OutOfReach("%s in symbolic execution at %s:%d: %s" % (ename, tb.filename, tb.lineno, e))
                ctx.prove("%s:raises:unexpected_%s" % (q, ename), False, kind="raises", props=con.props,
                          role="prop", note=str(e)[:200])
            else:
                w = sor(*[when_of(r) for r in whens])
                ctx.prove("%s:raises:%s:only_when" % (q, "+".join(r.label for r in whens)), w, kind="raises",
                          props=whens[0].props if whens[0].props is not None else con.props,
                          role=whens[0].role)
            if hasattr(con, "post_raise"):
                for cl in con.post_raise(c, a, e, old):
                    ctx.prove("%s:post_raise:%s" % (q, cl.label), cl.cond, kind="frame", props=clause_props(cl),
                              role=cl.role)
            return ("raise", ename)
        if hasattr(con, "hints"):
            # proof steps: proved first, then available as hypotheses of the clauses below
            for lab, cond in con.hints(c, a, res):
                ctx.prove("%s:hint:%s" % (q, lab), cond, kind="hint", props=con.props, role="aux")
        for r in con.raises:
            ctx.prove("%s:raises:%s:whenever" % (q, r.label), snot(when_of(r)), kind="raises",
                      props=r.props if r.props is not None else con.props, role=r.role)
        posts = con.post(c, a, res) if old is None else con.post(c, a, res, old)
        for cl in posts:
            ctx.prove("%s:post:%s" % (q, cl.label), cl.cond, kind="post", props=clause_props(cl), role=cl.role,
                      note=cl.note, assume_after=False)
        return ("return", None)

    run = Run(q, runner, safety_props=con.props, max_paths=con.max_paths)
    try:
        run.explore()
    except Exception as e:  # checker error
        rep.error = "".join(traceback.format_exception(type(e), e, e.__traceback__))[-3000:]
    rep.vcs = run.vcs
    for vc in rep.vcs:
        if label:
            vc.name = vc.name + "[" + label.split("[", 1)[-1] if "[" in label else vc.name
    rep.paths = run.path_no
    rep.out_of_reach = run.out_of_reach
    rep.time = getattr(run, "time", 0.0)
    rep.path_log = []
    for ctx, outcome in run.paths:
        rep.outcomes[outcome[0]] = rep.outcomes.get(outcome[0], 0) + 1
        rep.path_log.append((list(ctx.decisions), outcome))
    # vacuity canary: the hypotheses of some completed path must be satisfiable
    done = [ctx for ctx, o in run.paths if o[0] in ("return", "raise", "end")]
    if done and not rep.out_of_reach:
        ok = False
        for ctx in done[:3]:
            s = z3.Solver()
            s.set("timeout", 1000)
            for h in ctx.hyps:
                s.add(h)
            if s.check() != z3.unsat:
                ok = True
                break
        rep.vacuous = not ok
    return rep
