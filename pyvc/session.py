"""process-wide handle to the loader of the running check (contracts build symbolic objects of repo classes)"""
_LOADER = [None]


def loader():
    return _LOADER[0]
