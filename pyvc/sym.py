"""Symbolic values for pyvc.

Scalars wrap z3 terms (Real / Int / Bool) and overload Python's operators, so the
*real* evo code (compiled from /repo's AST) runs on them unchanged.  A symbolic
Bool used in a boolean context asks the engine to fork the path.

Numeric model (assumption A1): Python float == mathematical real.  A float
literal is read as the exact decimal it is written as (1e-3 == 1/1000).
"""
from __future__ import annotations

import itertools
from decimal import Decimal
from fractions import Fraction

import numpy as np
import z3

# --------------------------------------------------------------------------
# current path context (set by engine)
_CUR = [None]


def cur():
    c = _CUR[0]
    if c is None:
        raise RuntimeError("no active pyvc path context")
    return c


def has_ctx():
    return _CUR[0] is not None


class OutOfReach(Exception):
    """construct outside the supported subset: function cannot be verified (undecided)"""


# --------------------------------------------------------------------------
def frac_of_float(x: float) -> Fraction:
    if x != x or x in (float("inf"), float("-inf")):
        raise OutOfReach("non-finite float constant %r" % (x, ))
    return Fraction(Decimal(repr(float(x))))


def realval(x) -> z3.ArithRef:
    if isinstance(x, bool):
        x = int(x)
    if isinstance(x, (int, np.integer)):
        return z3.RealVal(int(x))
    if isinstance(x, Fraction):
        return z3.RealVal(str(x.numerator)) / z3.RealVal(str(x.denominator)) \
            if x.denominator != 1 else z3.RealVal(str(x.numerator))
    if isinstance(x, (float, np.floating)):
        return realval(frac_of_float(float(x)))
    raise TypeError("realval: %r" % (x, ))


def is_sym(x) -> bool:
    return isinstance(x, S)


def is_num(x) -> bool:
    return isinstance(x, (int, float, Fraction, np.integer, np.floating)) and not isinstance(x, bool) \
        or isinstance(x, (SR, SI))


class S:
    __slots__ = ("t", )
    __array_priority__ = 1000  # make numpy defer to us in mixed binary ops

    def __init__(self, t):
        self.t = t

    def __hash__(self):
        return hash(self.t)

    def __repr__(self):
        return "%s<%s>" % (type(self).__name__, z3.simplify(self.t))

    def __format__(self, spec):
        return repr(self)

    def __deepcopy__(self, memo):
        return self

    def __copy__(self):
        return self


def _term(x):
    """z3 term of a python / symbolic scalar (ints -> Int, floats -> Real)."""
    if isinstance(x, S):
        return x.t
    if isinstance(x, (bool, np.bool_)):
        return z3.BoolVal(bool(x))
    if isinstance(x, (int, np.integer)):
        return z3.IntVal(int(x))
    if isinstance(x, (float, np.floating, Fraction)):
        return realval(x)
    if isinstance(x, z3.ExprRef):
        return x
    raise OutOfReach("cannot lift %r (%s) to a term" % (x, type(x).__name__))


def _is_int_t(t):
    return z3.is_int(t)


def _real(t):
    return z3.ToReal(t) if z3.is_int(t) else t


def wrap(t):
    """wrap a z3 term into the matching symbolic scalar (numerals are folded back
    to python numbers so that concrete control flow stays concrete)"""
    if z3.is_bool(t):
        if z3.is_true(t):
            return True
        if z3.is_false(t):
            return False
        return SB(t)
    if z3.is_int(t):
        if z3.is_int_value(t):
            return t.as_long()
        return SI(t)
    if z3.is_real(t):
        if z3.is_rational_value(t):
            return Fraction(t.numerator_as_long(), t.denominator_as_long())
        return SR(t)
    raise OutOfReach("wrap: sort %s" % t.sort())


def cnum(x):
    """normalise a concrete python number: floats become exact Fractions (A1)"""
    if isinstance(x, (bool, np.bool_)):
        return int(x)
    if isinstance(x, (float, np.floating)):
        return frac_of_float(float(x))
    if isinstance(x, np.integer):
        return int(x)
    return x


def _is_conc(x):
    return isinstance(x, (int, float, Fraction, np.integer, np.floating, np.bool_))


def s_add(a, b):
    if _is_conc(a) and _is_conc(b):
        return cnum(a) + cnum(b)
    if _is_conc(a) and cnum(a) == 0:
        return b
    if _is_conc(b) and cnum(b) == 0:
        return a
    x, y, ints = _coerce2(a, b)
    return wrap(z3.simplify(x + y) if ints else x + y)


def s_sub(a, b):
    if _is_conc(a) and _is_conc(b):
        return cnum(a) - cnum(b)
    if _is_conc(b) and cnum(b) == 0:
        return a
    x, y, ints = _coerce2(a, b)
    if _is_conc(a) and cnum(a) == 0:
        return wrap(-y)
    return wrap(z3.simplify(x - y) if ints else x - y)


def s_mul(a, b):
    if _is_conc(a) and _is_conc(b):
        return cnum(a) * cnum(b)
    for u, v in ((a, b), (b, a)):
        if _is_conc(u):
            cu = cnum(u)
            if cu == 0:
                return 0
            if cu == 1:
                return v
            if cu == -1:
                return wrap(-_term(v))
    x, y, _ = _coerce2(a, b)
    return wrap(x * y)


def s_cmp(a, b, op):
    if _is_conc(a) and _is_conc(b):
        a, b = cnum(a), cnum(b)
        return {"<": a < b, "<=": a <= b, ">": a > b, ">=": a >= b, "==": a == b}[op]
    x, y, _ = _coerce2(a, b)
    if x.eq(y):
        return op in ("<=", ">=", "==")
    if op == "<":
        return SB(x < y)
    if op == "<=":
        return SB(x <= y)
    if op == ">":
        return SB(x > y)
    if op == ">=":
        return SB(x >= y)
    return SB(x == y)


def _coerce2(a, b):
    ta, tb = _term(a), _term(b)
    if z3.is_bool(ta):
        ta = z3.If(ta, z3.IntVal(1), z3.IntVal(0))
    if z3.is_bool(tb):
        tb = z3.If(tb, z3.IntVal(1), z3.IntVal(0))
    if z3.is_int(ta) and z3.is_int(tb):
        return ta, tb, True
    return _real(ta), _real(tb), False


class _Arith(S):
    __slots__ = ()

    def __add__(self, o):
        if isinstance(o, np.ndarray):
            return _ew(lambda a, b: s_add(b, a), o, self)
        if hasattr(o, "_pyvc_array"):
            return NotImplemented
        return s_add(self, o)

    def __radd__(self, o):
        if isinstance(o, np.ndarray):
            return _ew(s_add, o, self)
        return s_add(o, self)

    def __sub__(self, o):
        if isinstance(o, np.ndarray):
            return _ew(lambda a, b: s_sub(b, a), o, self)
        if hasattr(o, "_pyvc_array"):
            return NotImplemented
        return s_sub(self, o)

    def __rsub__(self, o):
        if isinstance(o, np.ndarray):
            return _ew(s_sub, o, self)
        return s_sub(o, self)

    def __mul__(self, o):
        if isinstance(o, np.ndarray):
            return _ew(lambda a, b: s_mul(b, a), o, self)
        if hasattr(o, "_pyvc_array"):
            return NotImplemented
        return s_mul(self, o)

    def __rmul__(self, o):
        if isinstance(o, np.ndarray):
            return _ew(s_mul, o, self)
        return s_mul(o, self)

    def __truediv__(self, o):
        if isinstance(o, np.ndarray) or hasattr(o, "_pyvc_array"):
            return NotImplemented
        return sdiv(self, o)

    def __rtruediv__(self, o):
        return sdiv(o, self)

    def __floordiv__(self, o):
        return sfloordiv(self, o)

    def __rfloordiv__(self, o):
        return sfloordiv(o, self)

    def __mod__(self, o):
        return smod(self, o)

    def __rmod__(self, o):
        return smod(o, self)

    def __neg__(self):
        return wrap(-self.t)

    def __pos__(self):
        return self

    def __abs__(self):
        return sabs(self)

    def __pow__(self, o):
        return spow(self, o)

    def __lt__(self, o):
        return s_cmp(self, o, "<")

    def __le__(self, o):
        return s_cmp(self, o, "<=")

    def __gt__(self, o):
        return s_cmp(self, o, ">")

    def __ge__(self, o):
        return s_cmp(self, o, ">=")

    def __eq__(self, o):
        if o is None or isinstance(o, str):
            return False
        if isinstance(o, np.ndarray) or hasattr(o, "_pyvc_array"):
            return NotImplemented
        if not (_is_conc(o) or isinstance(o, S)):
            return False
        return s_cmp(self, o, "==")

    def __ne__(self, o):
        r = self.__eq__(o)
        if r is NotImplemented:
            return r
        return snot(r)

    __hash__ = S.__hash__

    def __bool__(self):
        # truthiness of a number: x != 0
        return bool(self != 0)


class SR(_Arith):
    """symbolic real (models python float, A1)"""
    __slots__ = ()

    def __float__(self):
        raise OutOfReach("float() of a symbolic real reached CPython")

    def is_integer(self):
        return wrap(z3.IsInt(self.t))

    def __int__(self):
        raise OutOfReach("int() of symbolic real must go through the pyvc builtin")


class SI(_Arith):
    """symbolic (unbounded) integer"""
    __slots__ = ()

    def __index__(self):
        raise OutOfReach("symbolic integer used where CPython needs a concrete index")

    def __int__(self):
        raise OutOfReach("int() of symbolic int reached CPython")


class SB(S):
    __slots__ = ()

    def __bool__(self):
        return cur().branch(self.t)

    def __and__(self, o):
        return sand(self, o)

    __rand__ = __and__

    def __or__(self, o):
        return sor(self, o)

    __ror__ = __or__

    def __invert__(self):
        return snot(self)

    def __eq__(self, o):
        return wrap(self.t == _term(o))

    def __ne__(self, o):
        return wrap(self.t != _term(o))

    __hash__ = S.__hash__

    def all(self):
        return self

    def any(self):
        return self


# --------------------------------------------------------------------------
# scalar helper operations (work on python numbers and symbolic scalars)

def sand(*xs):
    ts = []
    for x in xs:
        if x is True:
            continue
        if x is False:
            return False
        ts.append(_term(x))
    return wrap(z3.And(*ts)) if ts else True


def sor(*xs):
    ts = []
    for x in xs:
        if x is False:
            continue
        if x is True:
            return True
        ts.append(_term(x))
    return wrap(z3.Or(*ts)) if ts else False


def snot(x):
    if isinstance(x, (bool, np.bool_)):
        return not x
    return wrap(z3.Not(_term(x)))


def simplies(a, b):
    if isinstance(a, (bool, np.bool_)):
        return b if a else True
    if isinstance(b, (bool, np.bool_)):
        return True if b else snot(a)
    return SB(z3.Implies(_term(a), _term(b)))


def site(c, a, b):
    """if-then-else on scalars"""
    if isinstance(c, (bool, np.bool_)):
        return a if c else b
    ta, tb = _term(a), _term(b)
    if z3.is_bool(ta) or z3.is_bool(tb):
        return wrap(z3.If(c.t, ta, tb))
    ta, tb, _ = _coerce2(a, b)
    return wrap(z3.If(c.t, ta, tb))


def sdiv(a, b):
    if _is_conc(a) and _is_conc(b):
        a, b = cnum(a), cnum(b)
        if b == 0:
            raise ZeroDivisionError("division by zero")
        return Fraction(a) / Fraction(b)
    if _is_conc(b):
        cb = cnum(b)
        if cb == 0:
            raise ZeroDivisionError("division by zero")
        if cb == 1:
            return to_real(a)
        return s_mul(to_real(a), Fraction(1) / Fraction(cb))
    ta, tb = _real(_term(a)), _real(_term(b))
    cur().safety("safe.div", SB(tb != 0))
    return wrap(ta / tb)


def sfloordiv(a, b):
    ta, tb, ints = _coerce2(a, b)
    if not ints:
        raise OutOfReach("floor division on reals")
    cur().safety("safe.div", wrap(tb > 0), note="floor division modelled for positive divisors only")
    return wrap(ta / tb)


def smod(a, b):
    ta, tb, ints = _coerce2(a, b)
    if not ints:
        raise OutOfReach("modulo on reals")
    cur().safety("safe.div", wrap(tb > 0), note="modulo modelled for positive divisors only")
    return wrap(ta % tb)


def sabs(a):
    if isinstance(a, np.ndarray):
        return abs(a)
    if not is_sym(a):
        return abs(a)
    return wrap(z3.If(a.t >= 0, a.t, -a.t))


def spow(a, e):
    if isinstance(e, (int, np.integer)) and not isinstance(e, bool):
        if e == 0:
            return 1
        if e < 0:
            return sdiv(1, spow(a, -e))
        r = a
        for _ in range(int(e) - 1):
            r = r * a
        return r
    raise OutOfReach("power with exponent %r" % (e, ))


def smin2(a, b):
    return site(a <= b, a, b)


def smax2(a, b):
    return site(a >= b, a, b)


# uninterpreted real functions with instantiated axioms --------------------------
_UF = {}


def uf(name, *sorts):
    key = (name, ) + tuple(str(s) for s in sorts)
    if key not in _UF:
        _UF[key] = z3.Function(name, *sorts)
    return _UF[key]


R = z3.RealSort()
I = z3.IntSort()
B = z3.BoolSort()


def to_real(x):
    return wrap(_real(_term(x)))


def ssqrt(x, square_axiom=True):
    """sqrt as an uninterpreted function; axioms instantiated at this ground term (sqrt(t)^2 = t only on request:
    it makes the query nonlinear)"""
    if not has_ctx():
        import math
        return math.sqrt(float(x))
    if not is_sym(x):
        f = Fraction(x) if not isinstance(x, float) else frac_of_float(x)
        if f < 0:
            raise ValueError("math domain error")
        # exact rational square roots stay exact
        import math
        n, d = f.numerator, f.denominator
        rn, rd = math.isqrt(n), math.isqrt(d)
        if rn * rn == n and rd * rd == d:
            return Fraction(rn, rd)
        x = SR(realval(f))
    t = _real(x.t)
    y = uf("sqrt", R, R)(t)
    c = cur()
    if square_axiom:
        if known(wrap(t >= 0), deep=True) is True:
            c.axiom(y >= 0, "sqrt")
            c.axiom(y * y == t, "sqrt.sq")
        else:
            c.axiom(z3.Implies(t >= 0, z3.And(y >= 0, y * y == t)), "sqrt")
    c.axiom(z3.Implies(t == 0, y == 0), "sqrt.zero")
    tq = z3.Real("t!sqrt")
    c.axiom_global(z3.ForAll([tq], uf("sqrt", R, R)(tq) >= 0, patterns=[uf("sqrt", R, R)(tq)]), "sqrt.nonneg")
    c.note_uf("sqrt", t)
    return wrap(y)


def scbrt(x):
    if not has_ctx():
        return float(np.cbrt(float(x)))
    t = _real(_term(x))
    y = uf("cbrt", R, R)(t)
    cur().axiom(z3.And(y * y * y == t, z3.Implies(t > 0, y > 0), z3.Implies(t < 0, y < 0),
                       z3.Implies(t == 0, y == 0)), "cbrt")
    return wrap(y)


PI = z3.Real("pi_const")


def pi_axiom():
    if not has_ctx():
        import math
        return math.pi
    cur().axiom(z3.And(PI > z3.RealVal("3.14159265358979"), PI < z3.RealVal("3.14159265358980")), "pi")
    return SR(PI)


def fresh(kind, name):
    return cur().fresh(kind, name)


# --------------------------------------------------------------------------
# concrete-shape arrays: numpy object arrays of scalars (python numbers / S)

class CArr(np.ndarray):
    """numpy ndarray(dtype=object) holding python numbers or symbolic scalars.

    Indexing, slicing (views), transposition, reshaping, in-place stores, dot
    and element-wise arithmetic are numpy's own; only reductions that numpy
    cannot do on objects are overridden."""
    _pyvc_array = True

    def __new__(cls, data):
        a = np.empty(np.shape(data), dtype=object)
        if a.shape == ():
            a[()] = data
        elif a.size == 0:
            pass
        else:
            src = np.asarray(data, dtype=object) if not isinstance(data, np.ndarray) else data
            it = np.nditer(a, flags=["multi_index", "refs_ok"], op_flags=["writeonly"])
            for _ in it:
                a[it.multi_index] = _norm_scalar(src[it.multi_index])
        return a.view(cls)

    def __array_finalize__(self, obj):
        pass

    def __deepcopy__(self, memo):
        return self.copy().view(CArr)

    # comparisons produce CArr of SB / bool ---------------------------------
    def _cmp(self, o, f):
        o_ = o
        if isinstance(o, (list, tuple)):
            o_ = carr(o)
        out = np.empty(np.broadcast(self, np.asarray(o_, dtype=object)).shape, dtype=object)
        bs, bo = np.broadcast_arrays(np.asarray(self), np.asarray(o_, dtype=object))
        for idx in np.ndindex(out.shape):
            out[idx] = f(bs[idx], bo[idx])
        return out.view(CArr)

    def __eq__(self, o):
        return self._cmp(o, lambda a, b: a == b)

    def __ne__(self, o):
        return self._cmp(o, lambda a, b: a != b)

    def __lt__(self, o):
        return self._cmp(o, lambda a, b: a < b)

    def __le__(self, o):
        return self._cmp(o, lambda a, b: a <= b)

    def __gt__(self, o):
        return self._cmp(o, lambda a, b: a > b)

    def __ge__(self, o):
        return self._cmp(o, lambda a, b: a >= b)

    __hash__ = None

    def __and__(self, o):
        return self._cmp(o, lambda a, b: sand(a, b))

    def __or__(self, o):
        return self._cmp(o, lambda a, b: sor(a, b))

    def __invert__(self):
        return carr([snot(x) for x in self.flat]).reshape(self.shape)

    def __truediv__(self, o):
        return self._cmp(o, sdiv)

    def __rtruediv__(self, o):
        return self._cmp(o, lambda a, b: sdiv(b, a))

    def __pow__(self, e):
        return carr([spow(x, e) for x in self.flat]).reshape(self.shape)

    def __abs__(self):
        return carr([sabs(x) for x in self.flat]).reshape(self.shape)

    def __bool__(self):
        if self.size != 1:
            raise ValueError("The truth value of an array with more than one element is ambiguous.")
        return bool(self.flat[0])

    # reductions -----------------------------------------------------------
    def all(self, axis=None):
        if axis is not None:
            raise OutOfReach("all(axis)")
        return sand(*list(self.flat))

    def any(self, axis=None):
        if axis is not None:
            raise OutOfReach("any(axis)")
        return sor(*list(self.flat))

    def sum(self, axis=None):
        if axis is None:
            r = 0
            for x in self.flat:
                r = r + x
            return r
        return np.add.reduce(np.asarray(self), axis=axis).view(CArr)

    def mean(self, axis=None):
        if axis is None:
            return sdiv(self.sum(), self.size)
        s = self.sum(axis=axis)
        return (s / self.shape[axis])

    def max(self, axis=None):
        if axis is not None:
            raise OutOfReach("max(axis)")
        r = self.flat[0]
        for x in list(self.flat)[1:]:
            r = smax2(r, x)
        return r

    def min(self, axis=None):
        if axis is not None:
            raise OutOfReach("min(axis)")
        r = self.flat[0]
        for x in list(self.flat)[1:]:
            r = smin2(r, x)
        return r

    def transpose(self, *a):
        return np.ndarray.transpose(self, *a)

    def tolist(self):
        return np.ndarray.tolist(self)


def _norm_scalar(x):
    if isinstance(x, (np.floating, )):
        return frac_of_float(float(x))
    if isinstance(x, float):
        return frac_of_float(x)
    if isinstance(x, np.integer):
        return int(x)
    if isinstance(x, np.bool_):
        return bool(x)
    return x


def carr(data):
    if isinstance(data, CArr):
        return data
    return CArr(data)


def is_carr(x):
    return isinstance(x, CArr)


def sym_matrix(name, shape, kind="real"):
    """fresh symbolic concrete-shape array"""
    a = np.empty(shape, dtype=object)
    for idx in np.ndindex(*shape):
        a[idx] = fresh(kind, name + "_" + "_".join(str(i) for i in idx))
    return a.view(CArr)


def eq_all(a, b):
    """element-wise equality of two same-shape arrays (or scalars), as one Bool"""
    if isinstance(a, np.ndarray) or isinstance(b, np.ndarray):
        a = np.asarray(a, dtype=object)
        b = np.asarray(b, dtype=object)
        if a.shape != b.shape:
            a, b = np.broadcast_arrays(a, b)
        return sand(*[_norm_scalar(x) == _norm_scalar(y) for x, y in zip(a.flat, b.flat)])
    return a == b


# --------------------------------------------------------------------------
# symbolic-length sequences and arrays (pull representation)

class _Own:
    """token naming one allocation of element objects (ownership ghost of SSeq)"""


class SSeq:
    """sequence with symbolic (or concrete) length: len term + element function.
    Elements may be any python / symbolic value (scalars, CArr matrices, tuples).
    Immutable except append (used for lists built in loops, returns via rebinding
    self._get/_len so python aliasing of list objects is kept)."""
    _pyvc_seq = True

    def __init__(self, length, get, elem_kind=None, name=None, owners=None):
        self._len = length
        self._get = get
        self.elem_kind = elem_kind
        self.name = name
        # ownership ghost: the allocation(s) the element *objects* belong to.  A slice / list() / identity
        # comprehension of a list holds the same element objects; deepcopy and computed elements are new ones.
        self.owners = owners if owners is not None else frozenset([_Own()])

    def __deepcopy__(self, memo):
        return SSeq(self._len, self._get, self.elem_kind, self.name)

    def length(self):
        return self._len

    def get(self, k):
        return self._get(k)

    def __len__(self):
        n = self._len
        if isinstance(n, int):
            return n
        raise OutOfReach("len() of symbolic sequence reached CPython")

    def __bool__(self):
        return bool(self._len > 0)

    def __getitem__(self, k):
        if isinstance(k, slice):
            return slice_seq(self, k)
        if isinstance(k, (int, SI, np.integer)):
            n = self._len
            if is_sym(k) or is_sym(n):
                kk = norm_index(k, n)
                cur().safety("safe.index", sand(0 <= kk, kk < n))
                mark_index(kk)
                return self._get(kk)
            kk = k + n if k < 0 else k
            if not (0 <= kk < n):
                raise IndexError("list index out of range")
            return self._get(kk)
        raise OutOfReach("SSeq index %r" % (k, ))

    def __setitem__(self, k, x):
        if not isinstance(k, (int, SI, np.integer)):
            raise OutOfReach("slice store into symbolic list")
        n, g = self._len, self._get
        kk = site(k < 0, k + n, k) if is_sym(k) else (k + n if k < 0 else k)
        cur().safety("safe.index", sand(0 <= kk, kk < n))

        def get(q, kk=kk, g=g, x=x):
            return ite_val(q == kk, x, lambda: g(q))
        self._get = get

    def append(self, x):
        n, g = self._len, self._get

        def get(k, n=n, g=g, x=x):
            return ite_val(k == n, x, lambda: g(k))
        self._get = get
        self._len = n + 1

    def __iter__(self):
        n = self._len
        if isinstance(n, int):
            return iter([self._get(i) for i in range(n)])
        raise OutOfReach("iteration over a symbolic-length sequence outside a cut loop/comprehension")

    def concrete(self):
        return isinstance(self._len, int)

    def tolist(self):
        return self


def ite_val(c, a, b_thunk):
    """ite over arbitrary values; b is lazy"""
    if isinstance(c, (bool, np.bool_)):
        return a if c else b_thunk()
    b = b_thunk()
    return ite_any(c, a, b)


def ite_any(c, a, b):
    if isinstance(c, (bool, np.bool_)):
        return a if c else b
    if isinstance(a, tuple):
        return tuple(ite_any(c, x, y) for x, y in zip(a, b))
    if isinstance(a, np.ndarray) or isinstance(b, np.ndarray):
        a = np.asarray(a, dtype=object)
        b = np.asarray(b, dtype=object)
        out = np.empty(a.shape, dtype=object)
        for idx in np.ndindex(a.shape):
            out[idx] = site(c, a[idx], b[idx])
        return out.view(CArr)
    return site(c, a, b)


def known(cond, deep=False):
    """True / False when the path hypotheses decide `cond` (quick solver query, no fork), else None.
    deep: also ask with the quantified hypotheses (slower)"""
    if isinstance(cond, (bool, np.bool_)):
        return bool(cond)
    if not has_ctx():
        return None
    c = cur()
    t = _term(cond)
    if not c._feasible(z3.Not(t)):
        return True
    if not c._feasible(t):
        return False
    if deep:
        return c._decide_full(t, 1500)
    return None


def clip(v, n):
    """max(0, min(v, n)) with the case distinctions resolved by the path hypotheses where possible"""
    lo = known(v >= 0)
    hi = known(v <= n)
    if lo is True and hi is True:
        return v
    if hi is False:
        return n
    if lo is False:
        return 0
    return smax2(0, smin2(v, n))


def mark_index(k):
    """an index term the code reads at: available as an instantiation trigger for quantified contract clauses"""
    if is_sym(k) and has_ctx():
        c = cur()
        if not c.quiet:
            c.axiom(tr(k), "tr")


def norm_index(k, n):
    """python's negative-index rule; the case distinction is resolved by the path hypotheses where possible"""
    if not is_sym(k):
        return k + n if k < 0 else k
    neg = known(k < 0, deep=True)
    if neg is False:
        return k
    if neg is True:
        return k + n
    return site(k < 0, k + n, k)


def slice_bounds(sl, n):
    """python slice semantics for step 1 (and symbolic bounds): returns (start, stop) clipped to [0,n]"""
    if sl.step not in (None, 1):
        raise OutOfReach("slice step %r on symbolic sequence" % (sl.step, ))

    def norm(v, default):
        if v is None:
            return default
        if is_sym(v) or is_sym(n):
            v2 = site(v < 0, v + n, v) if is_sym(v) else (v + n if v < 0 else v)
            return clip(v2, n)
        v2 = v + n if v < 0 else v
        return max(0, min(v2, n))
    start = norm(sl.start, 0)
    stop = norm(sl.stop, n)
    return start, stop


def span(start, stop):
    if is_sym(start) or is_sym(stop):
        k = known(stop >= start)
        if k is True:
            return stop - start
        if k is False:
            return 0
        return smax2(0, stop - start)
    return max(0, stop - start)


def slice_seq(seq, sl):
    n = seq.length()
    start, stop = slice_bounds(sl, n)
    ln = span(start, stop)
    return SSeq(ln, lambda k: seq.get(k + start), seq.elem_kind, owners=seq.owners)


def seq_len(x):
    if isinstance(x, SSeq):
        return x.length()
    if hasattr(x, "_pyvc_sarr"):
        return x.shape[0]
    return len(x)


def as_seq(x):
    """view any iterable python/symbolic container as (length, get)"""
    if isinstance(x, SSeq):
        return x
    if hasattr(x, "_pyvc_sarr"):
        return SSeq(x.shape[0], lambda k: x.row(k), None)
    if isinstance(x, np.ndarray):
        lst = [x[i] for i in range(x.shape[0])]
        return SSeq(len(lst), lambda k: _pick(lst, k))
    if isinstance(x, (list, tuple)):
        lst = list(x)
        return SSeq(len(lst), lambda k: _pick(lst, k))
    if isinstance(x, range):
        if x.step != 1:
            lst = list(x)
            return SSeq(len(lst), lambda k: _pick(lst, k))
        return SSeq(max(0, x.stop - x.start), lambda k: k + x.start)
    raise OutOfReach("as_seq: %s" % type(x).__name__)


class _Dummy(int):
    """value of an unchecked (spec-side) read outside a concrete list: 0 that can also be subscripted"""

    def __getitem__(self, k):
        return self


def _pick(lst, k):
    if isinstance(k, (int, np.integer)):
        if not (0 <= k < len(lst)):
            return _Dummy(0)   # guarded by the caller
        return lst[k]
    if len(lst) == 0:
        raise OutOfReach("symbolic index into empty concrete list")
    r = lst[-1]
    for i in range(len(lst) - 2, -1, -1):
        r = ite_any(k == i, lst[i], r)
    return r


class SArr:
    """ndarray with symbolic extent along axis 0 (pull representation).

    shape = (n, d1, ..) with n an int term / int and the rest concrete ints.
    `cell` holds the element function; in-place operations replace it, so python
    aliasing of the array object behaves like numpy's (views share the cell)."""
    _pyvc_sarr = True
    _pyvc_array = True
    __array_priority__ = 2000

    def __init__(self, shape, get, kind="real", base=None):
        self.shape = tuple(shape)
        self._cell = [get] if base is None else base
        self.kind = kind
        self.version = 0

    def __deepcopy__(self, memo):
        g = self._cell[0]
        return SArr(self.shape, g, self.kind)

    def copy(self):
        return SArr(self.shape, self._cell[0], self.kind)

    @property
    def ndim(self):
        return len(self.shape)

    @property
    def size(self):
        r = self.shape[0]
        for d in self.shape[1:]:
            r = r * d
        return r

    @property
    def dtype(self):
        return np.dtype(float) if self.kind == "real" else np.dtype(int)

    def row(self, k):
        """element / sub-array at index k along axis 0 (no bounds obligation)"""
        return self._cell[0](k)

    def __len__(self):
        n = self.shape[0]
        if isinstance(n, int):
            return n
        raise OutOfReach("len() of symbolic array reached CPython")

    def _norm_index(self, k):
        n = self.shape[0]
        if is_sym(k) or is_sym(n):
            kk = norm_index(k, n)
            cur().safety("safe.index", sand(0 <= kk, kk < n))
            mark_index(kk)
            return kk
        kk = k + n if k < 0 else k
        if not (0 <= kk < n):
            raise IndexError("index %d is out of bounds for axis 0 with size %d" % (k, n))
        return kk

    def __getitem__(self, key):
        if isinstance(key, tuple):
            k0, rest = key[0], key[1:]
        else:
            k0, rest = key, ()
        if rest and all(isinstance(r, slice) and r == slice(None) for r in rest):
            rest = ()
        if isinstance(k0, (int, np.integer, SI)):
            r = self.row(self._norm_index(k0))
            if rest:
                r = r[rest if len(rest) > 1 else rest[0]]
            return r
        if isinstance(k0, slice):
            if k0.step not in (None, 1):
                raise OutOfReach("strided slice of symbolic array")
            start, stop = slice_bounds(k0, self.shape[0])
            ln = span(start, stop)
            cell = self._cell
            if rest:
                rr = rest if len(rest) > 1 else rest[0]
                probe_shape = np.empty(self.shape[1:])[rr].shape
                return SArr((ln, ) + probe_shape, lambda k: cell[0](k + start)[rr], self.kind)
            # a basic slice is a *view*: it reads the base's current content
            return SArr((ln, ) + self.shape[1:], lambda k: cell[0](k + start), self.kind)
        if isinstance(k0, (SSeq, SArr, list, np.ndarray)):
            if isinstance(k0, SArr) and k0.kind == "bool":
                raise OutOfReach("boolean mask indexing")
            ids = as_seq(k0)
            m = ids.length()
            cell = self._cell
            n = self.shape[0]
            # obligation: every index in range
            kq = fresh("int", "ix")
            mark_index(kq)
            cur().safety("safe.index", simplies(sand(0 <= kq, kq < m), _in_range(ids.get(kq), n)), quant=[kq])
            g0 = cell[0]  # fancy indexing copies: freeze current content

            def get(k, g0=g0, ids=ids, n=n):
                j = ids.get(k)
                if is_sym(j) or is_sym(n):
                    j = site(j < 0, j + n, j) if is_sym(j) else (j + n if j < 0 else j)
                elif j < 0:
                    j = j + n
                return g0(j)
            r = SArr((m, ) + self.shape[1:], get, self.kind)
            if rest:
                raise OutOfReach("fancy index with trailing index")
            return r
        raise OutOfReach("SArr index %r" % (key, ))

    def __setitem__(self, key, val):
        raise OutOfReach("element store into symbolic-length array")

    # arithmetic -----------------------------------------------------------
    def _bin(self, o, f, kind=None):
        cell = self._cell
        g = cell[0]
        if isinstance(o, SArr):
            go = o._cell[0]
            cur().safety("safe.shape", _shape_eq(self.shape, o.shape))
            return SArr(self.shape, lambda k: _ew(f, g(k), go(k)), kind or self.kind)
        if isinstance(o, (list, tuple)):
            o = carr(o)
        if isinstance(o, np.ndarray):
            if o.ndim >= self.ndim and o.size != 1:
                raise OutOfReach("broadcast of concrete array against symbolic extent")
            return SArr(self.shape, lambda k: _ew(f, g(k), o), kind or self.kind)
        return SArr(self.shape, lambda k: _ew(f, g(k), o), kind or self.kind)

    def __add__(self, o):
        return self._bin(o, lambda a, b: a + b)

    __radd__ = __add__

    def __sub__(self, o):
        return self._bin(o, lambda a, b: a - b)

    def __rsub__(self, o):
        return self._bin(o, lambda a, b: b - a)

    def __mul__(self, o):
        return self._bin(o, lambda a, b: a * b)

    __rmul__ = __mul__

    def __truediv__(self, o):
        return self._bin(o, sdiv)

    def __neg__(self):
        g = self._cell[0]
        return SArr(self.shape, lambda k: -g(k), self.kind)

    def __abs__(self):
        g = self._cell[0]
        return SArr(self.shape, lambda k: abs(g(k)), self.kind)

    def __pow__(self, e):
        g = self._cell[0]
        return SArr(self.shape, lambda k: _ew1(lambda a: spow(a, e), g(k)), self.kind)

    def _inplace(self, o, f):
        r = self._bin(o, f)
        self._cell[0] = r._cell[0]
        self.version += 1
        return self

    def __iadd__(self, o):
        return self._inplace(o, lambda a, b: a + b)

    def __isub__(self, o):
        return self._inplace(o, lambda a, b: a - b)

    def __imul__(self, o):
        return self._inplace(o, lambda a, b: a * b)

    def __lt__(self, o):
        return self._bin(o, lambda a, b: a < b, "bool")

    def __le__(self, o):
        return self._bin(o, lambda a, b: a <= b, "bool")

    def __gt__(self, o):
        return self._bin(o, lambda a, b: a > b, "bool")

    def __ge__(self, o):
        return self._bin(o, lambda a, b: a >= b, "bool")

    def __eq__(self, o):
        return self._bin(o, lambda a, b: a == b, "bool")

    def __ne__(self, o):
        return self._bin(o, lambda a, b: a != b, "bool")

    __hash__ = None

    def __and__(self, o):
        return self._bin(o, lambda a, b: sand(a, b), "bool")

    def __bool__(self):
        raise ValueError("The truth value of an array with more than one element is ambiguous.")

    @property
    def T(self):
        if self.ndim == 1:
            return self
        return SArrT(self)

    def transpose(self):
        return self.T

    def __iter__(self):
        n = self.shape[0]
        if isinstance(n, int):
            return iter([self.row(i) for i in range(n)])
        raise OutOfReach("iteration over symbolic array outside a cut loop/comprehension")

    def flatten(self):
        if self.ndim == 1:
            return self.copy()
        raise OutOfReach("flatten of 2-D symbolic array")

    def nonzero(self):
        """trusted: a.nonzero()[0] is the increasing list of all indices with a[k] != 0"""
        if self.ndim != 1:
            raise OutOfReach("nonzero of 2-D symbolic array")
        from . import npstub
        g = self._cell[0]
        r = npstub.filtered_indices(self.shape[0], lambda k: g(k) != 0)
        cur().ghost["nonzero_result"] = r
        return (r, )

    def argsort(self):
        """trusted: a.argsort() is a permutation `order` of 0..n-1 with a[order] non-decreasing"""
        if self.ndim != 1:
            raise OutOfReach("argsort of 2-D symbolic array")
        c = cur()
        n = self.shape[0]
        f = c.fresh_fun("order", [I], I)
        inv = c.fresh_fun("order_inv", [I], I)
        k, j = z3.Int("k!as"), z3.Int("j!as")
        nt = _term(n)
        g = self._cell[0]
        c.quiet += 1
        try:
            ak = _term(to_real(g(SI(f(k)))))
            aj = _term(to_real(g(SI(f(j)))))
        finally:
            c.quiet -= 1
        c.assume(SB(z3.ForAll([k], z3.Implies(z3.And(0 <= k, k < nt), z3.And(0 <= f(k), f(k) < nt, inv(f(k)) == k)),
                              patterns=[f(k)])))
        c.assume(SB(z3.ForAll([k], z3.Implies(z3.And(0 <= k, k < nt), z3.And(0 <= inv(k), inv(k) < nt, f(inv(k)) == k)),
                              patterns=[inv(k)])))
        c.assume(SB(z3.ForAll([k, j], z3.Implies(z3.And(0 <= k, k < j, j < nt), ak <= aj),
                              patterns=[z3.MultiPattern(f(k), f(j))])))
        r = SArr((n, ), lambda q: wrap(f(_term(q))), "int")
        r.perm_inverse = lambda q: wrap(inv(_term(q)))
        c.ghost["argsort_result"] = r
        return r

    def tolist(self):
        if self.ndim == 1:
            g = self._cell[0]
            return SSeq(self.shape[0], g, self.kind)
        raise OutOfReach("tolist of 2-D symbolic array")


class SArrT:
    """transpose view of a 2-D SArr: shape (d, n) -- symbolic extent on axis 1"""
    _pyvc_array = True
    _pyvc_sarrT = True
    __array_priority__ = 2000

    def __init__(self, base):
        self.base = base
        self.shape = (base.shape[1], base.shape[0])
        self.kind = base.kind

    @property
    def T(self):
        return self.base

    @property
    def ndim(self):
        return 2

    def __getitem__(self, key):
        if isinstance(key, tuple) and len(key) == 2:
            a, b = key
            if isinstance(a, slice) and a == slice(None):
                if isinstance(b, (int, SI, np.integer)):
                    return self.base[b]
                if isinstance(b, slice):
                    return SArrT(self.base[b])
        raise OutOfReach("SArrT index %r" % (key, ))

    def _bin(self, o, f):
        if isinstance(o, SArrT):
            return SArrT(self.base._bin(o.base, f))
        if isinstance(o, np.ndarray) and o.shape == (self.shape[0], 1):
            col = np.asarray(o).reshape(-1)
            g = self.base._cell[0]
            return SArrT(SArr(self.base.shape, lambda k: _ew(f, g(k), col.view(CArr)), self.kind))
        if is_num(o):
            return SArrT(self.base._bin(o, f))
        raise OutOfReach("arithmetic of a transposed symbolic array with %s" % type(o).__name__)

    def __sub__(self, o):
        return self._bin(o, lambda a, b: a - b)

    def __add__(self, o):
        return self._bin(o, lambda a, b: a + b)

    def __mul__(self, o):
        return self._bin(o, lambda a, b: a * b)

    __rmul__ = __mul__

    def mean(self, axis=None):
        """trusted: mean over the symbolic axis = (sum of the rows) / n, component-wise"""
        if axis != 1:
            raise OutOfReach("SArrT.mean(axis=%r)" % (axis, ))
        from . import npstub
        n = self.shape[1]
        cur().safety("pre.mean_nonempty", n > 0)
        g = self.base._cell[0]
        d = self.shape[0]
        return CArr([sdiv(npstub.prefix_sum(lambda k, i=i: g(k)[i])(n), n) for i in range(d)])

    def __eq__(self, o):
        raise OutOfReach("comparison on transposed symbolic array")

    __hash__ = None


def _in_range(j, n):
    return sand(-n <= j, j < n)


def _shape_eq(s1, s2):
    if len(s1) != len(s2):
        return False
    return sand(*[a == b for a, b in zip(s1, s2)])


def _ew(f, a, b):
    if isinstance(a, np.ndarray) or isinstance(b, np.ndarray):
        a_ = np.asarray(a, dtype=object)
        b_ = np.asarray(b, dtype=object)
        ba, bb = np.broadcast_arrays(a_, b_)
        out = np.empty(ba.shape, dtype=object)
        for idx in np.ndindex(ba.shape):
            out[idx] = f(ba[idx], bb[idx])
        return out.view(CArr)
    return f(a, b)


def _ew1(f, a):
    if isinstance(a, np.ndarray):
        out = np.empty(a.shape, dtype=object)
        for idx in np.ndindex(a.shape):
            out[idx] = f(a[idx])
        return out.view(CArr)
    return f(a)


_arr_counter = itertools.count()


def sym_array(name, n, inner=(), kind="real"):
    """fresh symbolic array input of shape (n,)+inner backed by an uninterpreted function"""
    sort = {"real": R, "int": I, "bool": B}[kind]
    f = cur().fresh_fun(name, [I] * (1 + len(inner)), sort)

    def get(k, f=f, inner=inner):
        kt = _term(k)
        if not inner:
            return wrap(f(kt))
        out = np.empty(inner, dtype=object)
        for idx in np.ndindex(*inner):
            out[idx] = wrap(f(kt, *[z3.IntVal(i) for i in idx]))
        return out.view(CArr)
    return SArr((n, ) + tuple(inner), get, kind)


def sym_seq(name, n, inner=(), kind="real"):
    a = sym_array(name, n, inner, kind)
    return SSeq(n, a._cell[0], kind, name)


def subst_val(v, k, q):
    """value v (computed for the generic index k) re-indexed at q"""
    if isinstance(v, S):
        return wrap(z3.substitute(v.t, (k.t, _term(q))))
    if isinstance(v, np.ndarray):
        out = np.empty(v.shape, dtype=object)
        for idx in np.ndindex(v.shape):
            out[idx] = subst_val(v[idx], k, q)
        return out.view(CArr)
    if isinstance(v, tuple):
        return tuple(subst_val(x, k, q) for x in v)
    if isinstance(v, list):
        return [subst_val(x, k, q) for x in v]
    if v is None or isinstance(v, (int, float, Fraction, str, bool, np.integer, np.floating)):
        return v
    import enum
    if isinstance(v, enum.Enum):
        return v
    if isinstance(v, SSeq):
        g = v._get
        r = SSeq(subst_val(v._len, k, q) if is_sym(v._len) else v._len,
                 lambda j, g=g: subst_val(g(j), k, q), v.elem_kind, v.name, owners=v.owners)
        return r
    if isinstance(v, SArr):
        g = v._cell[0]
        shp = tuple(subst_val(d, k, q) if is_sym(d) else d for d in v.shape)
        return SArr(shp, lambda j, g=g: subst_val(g(j), k, q), v.kind)
    if isinstance(v, dict):
        return {kk: subst_val(x, k, q) for kk, x in v.items()}
    if hasattr(v, "__dict__") and type(v).__module__.startswith("evo."):
        # an object of a repo class built for the generic element: same fields, re-indexed
        o = object.__new__(type(v))
        for f, x in v.__dict__.items():
            o.__dict__[f] = subst_val(x, k, q)
        return o
    raise OutOfReach("comprehension element of type %s cannot be re-indexed" % type(v).__name__)


def auto_patterns(body, vars_):
    """instantiation patterns for a quantified body: applications of uninterpreted functions that take a bound
    variable directly as an argument (array reads a(k), ghost functions nn(i), list reads L(k)).  Returns a list
    suitable for z3.ForAll(patterns=...) -- one multi-pattern covering all bound variables -- or None."""
    vids = {v.get_id(): v for v in vars_}
    found = {}   # var id -> list of candidate terms
    # functions that are also applied to a *shifted* bound variable (a(k+1)): a pattern on a(k) would make every
    # instance produce a new matching term (matching loop), so they are not used as patterns
    shifted = set()
    stack = [body]
    seen = set()
    while stack:
        t = stack.pop()
        if t.get_id() in seen:
            continue
        seen.add(t.get_id())
        if z3.is_quantifier(t):
            continue
        if z3.is_app(t):
            if t.decl().kind() == z3.Z3_OP_UNINTERPRETED and t.num_args() > 0:
                for a in t.children():
                    if a.get_id() not in vids and not _closed(a, vids) and \
                            not (z3.is_app(a) and a.decl().kind() == z3.Z3_OP_UNINTERPRETED):
                        shifted.add(t.decl().name())
            stack.extend(t.children())
    stack = [body]
    seen = set()
    while stack:
        t = stack.pop()
        if t.get_id() in seen:
            continue
        seen.add(t.get_id())
        if z3.is_quantifier(t):
            continue
        if z3.is_app(t):
            if t.decl().kind() == z3.Z3_OP_UNINTERPRETED and t.num_args() > 0:
                direct = [a for a in t.children() if a.get_id() in vids]
                others_ok = all(a.get_id() in vids or (_closed(a, vids) and not _has_ite(a)) for a in t.children())
                if direct and others_ok and t.decl().name() not in shifted:
                    for a in direct:
                        found.setdefault(a.get_id(), []).append(t)
            stack.extend(t.children())
    if set(found) != set(vids):
        return None
    # single bound variable: every candidate is an alternative pattern (any matching read triggers the instance)
    if len(vids) == 1:
        vid = next(iter(vids))
        cands, seen_c = [], set()
        for t in sorted(found[vid], key=lambda x: (x.num_args(), str(x))):
            if t.get_id() not in seen_c:
                seen_c.add(t.get_id())
                cands.append(t)
        return cands[:16]
    # several variables: one multi-pattern with one candidate per variable
    pats = []
    used = set()
    for vid in vids:
        cands = sorted(found[vid], key=lambda x: (x.num_args(), str(x)))
        t = cands[0]
        if t.get_id() not in used:
            used.add(t.get_id())
            pats.append(t)
    try:
        return [z3.MultiPattern(*pats)] if len(pats) > 1 else [pats[0]]
    except z3.Z3Exception:
        return None


def _has_ite(t):
    stack = [t]
    while stack:
        x = stack.pop()
        if z3.is_app(x):
            if x.decl().kind() == z3.Z3_OP_ITE:
                return True
            stack.extend(x.children())
    return False


def _closed(t, vids):
    stack = [t]
    while stack:
        x = stack.pop()
        if x.get_id() in vids:
            return False
        if z3.is_app(x):
            stack.extend(x.children())
    return True


def _find_shift(body, v):
    """an argument `v + t` (t free of v) of an uninterpreted function application inside body -> t"""
    stack = [body]
    seen = set()
    vid = {v.get_id(): v}
    while stack:
        x = stack.pop()
        if x.get_id() in seen:
            continue
        seen.add(x.get_id())
        if z3.is_quantifier(x):
            continue
        if z3.is_app(x):
            if x.decl().kind() == z3.Z3_OP_UNINTERPRETED:
                for a in x.children():
                    if z3.is_int(a) and not _closed(a, vid) and a.get_id() != v.get_id():
                        d = z3.simplify(a - v)
                        if _closed(d, vid):
                            return d
            stack.extend(x.children())
    return None


def forall_t(vars_, body):
    """z3 ForAll with predictable patterns when available; a single bound variable that only occurs shifted
    (a(k + t)) is re-parametrised (k' = k + t) so that the array read becomes a direct pattern a(k')"""
    pats = auto_patterns(body, vars_)
    if not pats and len(vars_) == 1:
        v = vars_[0]
        d = _find_shift(body, v)
        if d is not None:
            v2 = z3.Int(str(v) + "_sh")
            body2 = z3.simplify(z3.substitute(body, (v, v2 - d)))
            pats2 = auto_patterns(body2, [v2])
            if pats2:
                try:
                    return z3.ForAll([v2], body2, patterns=pats2)
                except z3.Z3Exception:
                    pass
    if pats:
        try:
            return z3.ForAll(vars_, body, patterns=pats)
        except z3.Z3Exception:
            pass
    return z3.ForAll(vars_, body)


def tr(k):
    """trigger predicate (always true): gives quantified contract clauses a ground term per Skolem index, so that
    pattern-based instantiation of 'inverse / witness' axioms is predictable"""
    f = uf("tr", I, B)
    c = cur()
    q = z3.Int("k!tr")
    c.axiom_global(z3.ForAll([q], f(q), patterns=[f(q)]), "tr")
    c.axiom_global(f(z3.IntVal(0)), "tr0")
    return f(_term(k))
