"""Mechanical AST rewriting applied, on every run, to the source files read from /repo.

What is rewritten (nothing else; reported in the evidence as `dropped_by_extraction`
/ `rewritten_by_extraction`):

 R1  docstrings and annotations are dropped (annotated assignments keep their value);
 R2  expression statements `logger.<m>(...)`, `logging.<m>(...)`, `print(...)` are dropped;
 R3  float literals become exact rationals (`1e-3` -> Fraction(1, 1000));  `a / b`
     becomes `__pyvc__.div(a, b)` (true division on exact rationals, with a
     non-zero-divisor obligation when symbolic)   [numeric model A1];
 R4  `for T in IT: BODY` keeps its text for concrete iterables and gets the
     standard invariant cut for iterables of symbolic length:
         entry VC;  fork { havoc assigned vars; assume INV(i) & i < len; T = IT[i]; BODY; VC INV(i+1); stop }
                         { havoc assigned vars; assume INV(len) }
     (`continue` ends the generic iteration, `break` leaves the loop with the
     state of the generic iteration, `return` returns from it);
 R5  single-generator list comprehensions / generator expressions become
     `__pyvc__.comp(lambda T: ELT, IT, lambda T: COND)` -- the map/filter meaning
     of the comprehension -- evaluated natively when IT is concrete.
"""
from __future__ import annotations

import ast
import copy


def _names_assigned(stmts):
    out = []

    class V(ast.NodeVisitor):
        def visit_Name(self, n):
            if isinstance(n.ctx, (ast.Store, ast.Del)) and n.id not in out:
                out.append(n.id)

        def visit_FunctionDef(self, n):
            if n.name not in out:
                out.append(n.name)

        def visit_Lambda(self, n):
            pass

        def visit_ListComp(self, n):
            pass

        visit_GeneratorExp = visit_SetComp = visit_DictComp = visit_ListComp
    for s in stmts:
        V().visit(s)
    return out


_MUTATORS = {"append", "extend", "insert", "pop", "remove", "sort", "reverse", "update", "clear", "setdefault"}


def _names_mutated(stmts):
    """local names whose object is mutated in place inside stmts: x.append(..), x[..] = .., x += .."""
    out = []

    class V(ast.NodeVisitor):
        def _add(self, n):
            if isinstance(n, ast.Name) and n.id not in out:
                out.append(n.id)

        def visit_Call(self, n):
            if isinstance(n.func, ast.Attribute) and n.func.attr in _MUTATORS:
                self._add(n.func.value)
            self.generic_visit(n)

        def visit_Assign(self, n):
            for t in n.targets:
                if isinstance(t, ast.Subscript):
                    self._add(t.value)
            self.generic_visit(n)

        def visit_AugAssign(self, n):
            if isinstance(n.target, ast.Subscript):
                self._add(n.target.value)
            self.generic_visit(n)

        def visit_FunctionDef(self, n):
            pass

        def visit_Lambda(self, n):
            pass
    for s_ in stmts:
        V().visit(s_)
    return out


def _attr_assigned(stmts):
    """attributes `name.attr` that are (re)bound or mutated by subscript-store inside stmts"""
    out = []

    class V(ast.NodeVisitor):
        def _tgt(self, t):
            if isinstance(t, ast.Attribute) and isinstance(t.value, ast.Name):
                key = (t.value.id, t.attr)
                if key not in out:
                    out.append(key)
            elif isinstance(t, ast.Subscript):
                self._tgt(t.value)
            elif isinstance(t, (ast.Tuple, ast.List)):
                for e in t.elts:
                    self._tgt(e)

        def visit_Assign(self, n):
            for t in n.targets:
                self._tgt(t)
            self.generic_visit(n)

        def visit_AugAssign(self, n):
            self._tgt(n.target)
            self.generic_visit(n)

        def visit_Call(self, n):
            # obj.attr.append(...) mutates the attribute's object
            f = n.func
            if isinstance(f, ast.Attribute) and f.attr in _MUTATORS and isinstance(f.value, ast.Attribute) \
                    and isinstance(f.value.value, ast.Name):
                key = (f.value.value.id, f.value.attr)
                if key not in out:
                    out.append(key)
            self.generic_visit(n)
    for s in stmts:
        V().visit(s)
    return out


class _LoopCtl(ast.NodeTransformer):
    """inside the generic iteration: continue -> break (out of the once-loop),
    break -> flag + break.  Nested loops keep their own control flow."""

    def __init__(self, flag):
        self.flag = flag

    def visit_For(self, n):
        return n

    visit_While = visit_For
    visit_FunctionDef = visit_For
    visit_Lambda = visit_For

    def visit_Continue(self, n):
        return ast.copy_location(ast.Break(), n)

    def visit_Break(self, n):
        a = ast.Assign(targets=[ast.Name(id=self.flag, ctx=ast.Store())], value=ast.Constant(True))
        return [ast.copy_location(a, n), ast.copy_location(ast.Break(), n)]


def _target_names(t):
    if isinstance(t, ast.Name):
        return [t.id]
    if isinstance(t, (ast.Tuple, ast.List)):
        r = []
        for e in t.elts:
            x = _target_names(e)
            if x is None:
                return None
            r += x
        return r
    return None


class Rewriter(ast.NodeTransformer):
    def __init__(self, filename):
        self.filename = filename
        self.dropped = []
        self.func_stack = []
        self.loop_ord = {}   # id(node) -> ordinal within function
        self.comp_ord = {}
        self.loops = []      # (func qualname, ordinal, lineno)

    # ---- numbering (source order, per function) --------------------------
    def _number(self, fn):
        k = 0
        c = 0
        for n in ast.walk(fn):
            pass
        nodes = [n for n in ast.walk(fn) if isinstance(n, (ast.For, ast.ListComp, ast.GeneratorExp))]
        # exclude nodes belonging to nested function defs (numbered on their own)
        nested = set()
        for n in ast.walk(fn):
            if n is not fn and isinstance(n, (ast.FunctionDef, ast.AsyncFunctionDef)):
                for m in ast.walk(n):
                    nested.add(id(m))
        nodes = [n for n in nodes if id(n) not in nested]
        nodes.sort(key=lambda n: (n.lineno, n.col_offset))
        for n in nodes:
            if isinstance(n, ast.For):
                self.loop_ord[id(n)] = k
                k += 1
            else:
                self.comp_ord[id(n)] = c
                c += 1

    def visit_FunctionDef(self, node):
        self._number(node)
        self.func_stack.append(node.name)
        # names bound in this function (parameters and assignment targets): only those can be loop-carried locals
        bound = set(a.arg for a in node.args.args + node.args.kwonlyargs + node.args.posonlyargs)
        bound |= set(_names_assigned(node.body))
        self.local_stack = getattr(self, "local_stack", []) + [bound]
        # R1
        node.returns = None
        for a in node.args.args + node.args.kwonlyargs + node.args.posonlyargs:
            a.annotation = None
        if node.args.vararg:
            node.args.vararg.annotation = None
        if node.args.kwarg:
            node.args.kwarg.annotation = None
        if node.body and isinstance(node.body[0], ast.Expr) and isinstance(node.body[0].value, ast.Constant) \
                and isinstance(node.body[0].value.value, str):
            node.body = node.body[1:] or [ast.Pass()]
        self.generic_visit(node)
        self.func_stack.pop()
        self.local_stack.pop()
        return node

    def visit_ClassDef(self, node):
        self.func_stack.append(node.name)
        if node.body and isinstance(node.body[0], ast.Expr) and isinstance(node.body[0].value, ast.Constant) \
                and isinstance(node.body[0].value.value, str):
            node.body = node.body[1:] or [ast.Pass()]
        self.generic_visit(node)
        self.func_stack.pop()
        return node

    def visit_AnnAssign(self, node):
        self.generic_visit(node)
        if node.value is None:
            return ast.copy_location(ast.Pass(), node)
        return ast.copy_location(ast.Assign(targets=[node.target], value=node.value), node)

    # ---- R2 ---------------------------------------------------------------
    def visit_Expr(self, node):
        v = node.value
        if isinstance(v, ast.Call):
            f = v.func
            if isinstance(f, ast.Attribute) and isinstance(f.value, ast.Name) and f.value.id in ("logger", "logging") \
                    and f.attr in ("debug", "info", "warning", "error", "critical", "exception"):
                self.dropped.append("%s:%d logger.%s" % (self.filename, node.lineno, f.attr))
                return ast.copy_location(ast.Pass(), node)
            if isinstance(f, ast.Name) and f.id == "print":
                self.dropped.append("%s:%d print" % (self.filename, node.lineno))
                return ast.copy_location(ast.Pass(), node)
        self.generic_visit(node)
        return node

    # ---- R3 ---------------------------------------------------------------
    def visit_Constant(self, node):
        if isinstance(node.value, float):
            call = ast.Call(func=ast.Attribute(value=ast.Name(id="__pyvc__", ctx=ast.Load()), attr="fl",
                                               ctx=ast.Load()),
                            args=[ast.Constant(repr(node.value))], keywords=[])
            return ast.copy_location(call, node)
        return node

    def visit_BinOp(self, node):
        self.generic_visit(node)
        if isinstance(node.op, ast.Div):
            call = ast.Call(func=ast.Attribute(value=ast.Name(id="__pyvc__", ctx=ast.Load()), attr="div",
                                               ctx=ast.Load()),
                            args=[node.left, node.right], keywords=[])
            return ast.copy_location(call, node)
        return node

    # ---- R5 ---------------------------------------------------------------
    def _comp(self, node, kind):
        if len(node.generators) != 1 or node.generators[0].is_async:
            self.generic_visit(node)
            return node
        gen = node.generators[0]
        names = _target_names(gen.target)
        if names is None:
            self.generic_visit(node)
            return node
        K = self.comp_ord.get(id(node), -1)
        self.generic_visit(node)

        def mk_lambda(body):
            if isinstance(gen.target, ast.Name):
                return ast.Lambda(args=ast.arguments(posonlyargs=[], args=[ast.arg(arg=gen.target.id)],
                                                     kwonlyargs=[], kw_defaults=[], defaults=[]), body=body)
            if all(isinstance(e, ast.Name) for e in gen.target.elts):
                inner = ast.Lambda(args=ast.arguments(posonlyargs=[], args=[ast.arg(arg=n) for n in names],
                                                      kwonlyargs=[], kw_defaults=[], defaults=[]), body=body)
                call = ast.Call(func=inner, args=[ast.Starred(value=ast.Name(id="__e", ctx=ast.Load()),
                                                              ctx=ast.Load())], keywords=[])
                return ast.Lambda(args=ast.arguments(posonlyargs=[], args=[ast.arg(arg="__e")], kwonlyargs=[],
                                                     kw_defaults=[], defaults=[]), body=call)
            return None
        elt = mk_lambda(node.elt)
        if elt is None:
            return node
        if gen.ifs:
            cond_body = gen.ifs[0] if len(gen.ifs) == 1 else ast.BoolOp(op=ast.And(), values=list(gen.ifs))
            cond = mk_lambda(cond_body)
        else:
            cond = ast.Constant(None)
        call = ast.Call(func=ast.Attribute(value=ast.Name(id="__pyvc__", ctx=ast.Load()), attr="comp",
                                           ctx=ast.Load()),
                        args=[ast.Constant(K), elt, gen.iter, cond, ast.Constant(kind)], keywords=[])
        return ast.copy_location(call, node)

    def visit_ListComp(self, node):
        return self._comp(node, "list")

    def visit_GeneratorExp(self, node):
        return self._comp(node, "gen")

    # ---- R4 ---------------------------------------------------------------
    def visit_For(self, node):
        K = self.loop_ord.get(id(node))
        if K is None or not self.func_stack or node.orelse:
            self.generic_visit(node)
            return node
        self.generic_visit(node)
        self.loops.append((".".join(self.func_stack), K, node.lineno))
        tnames = _target_names(node.target)
        if tnames is None:
            return node
        assigned = [n for n in _names_assigned(node.body) if n not in tnames and not n.startswith("__")]
        bound = self.local_stack[-1] if getattr(self, "local_stack", None) else set()
        for n in _names_mutated(node.body):
            if n not in assigned and n not in tnames and n != "self" and n in bound:
                assigned.append(n)
        attrs = _attr_assigned(node.body)
        it = "__it%d" % K
        brk = "__brk%d" % K
        conc = ast.For(target=copy.deepcopy(node.target),
                       iter=ast.Call(func=ast.Attribute(value=ast.Name(id=it, ctx=ast.Load()), attr="items",
                                                        ctx=ast.Load()), args=[], keywords=[]),
                       body=copy.deepcopy(node.body), orelse=[])
        cut_body = [_LoopCtl(brk).visit(copy.deepcopy(s)) for s in node.body]
        flat = []
        for s in cut_body:
            flat.extend(s if isinstance(s, list) else [s])
        cut_body = flat
        names_tuple = ast.Tuple(elts=[ast.Constant(n) for n in assigned], ctx=ast.Load())
        attrs_tuple = ast.Tuple(elts=[ast.Tuple(elts=[ast.Constant(a), ast.Constant(b)], ctx=ast.Load())
                                      for a, b in attrs], ctx=ast.Load())

        def api(name, *args):
            return ast.Call(func=ast.Attribute(value=ast.Name(id="__pyvc__", ctx=ast.Load()), attr=name,
                                               ctx=ast.Load()), args=list(args), keywords=[])
        loc = ast.Call(func=ast.Name(id="locals", ctx=ast.Load()), args=[], keywords=[])
        itn = ast.Name(id=it, ctx=ast.Load())

        def havoc(mode):
            call = api("loop_havoc", ast.Constant(K), itn, ast.Constant(mode), loc, names_tuple, attrs_tuple)
            if not assigned:
                return ast.Expr(value=call)
            tgt = ast.Tuple(elts=[ast.Name(id=n, ctx=ast.Store()) for n in assigned], ctx=ast.Store())
            return ast.Assign(targets=[tgt], value=call)
        pres = [
            havoc("pres"),
            ast.Assign(targets=[copy.deepcopy(node.target)],
                       value=ast.Call(func=ast.Attribute(value=itn, attr="generic", ctx=ast.Load()), args=[],
                                      keywords=[])),
            ast.Assign(targets=[ast.Name(id=brk, ctx=ast.Store())], value=ast.Constant(False)),
            ast.For(target=ast.Name(id="__once", ctx=ast.Store()), iter=ast.Tuple(elts=[ast.Constant(0)],
                                                                                   ctx=ast.Load()),
                    body=cut_body, orelse=[]),
            ast.If(test=ast.UnaryOp(op=ast.Not(), operand=ast.Name(id=brk, ctx=ast.Load())),
                   body=[ast.Expr(value=api("loop_after", ast.Constant(K), itn, loc))], orelse=[]),
        ]
        cut = [
            ast.Expr(value=api("loop_entry", ast.Constant(K), itn, loc)),
            ast.If(test=api("loop_fork", ast.Constant(K)), body=pres, orelse=[havoc("exit")]),
        ]
        elem_mut = any(n in tnames for n in _names_mutated(node.body))
        new = [
            ast.Assign(targets=[ast.Name(id=it, ctx=ast.Store())],
                       value=api("iter_enter", ast.Constant(K), node.iter,
                                 ast.Constant(".".join(self.func_stack)), ast.Constant(elem_mut))),
            ast.If(test=ast.Attribute(value=itn, attr="concrete", ctx=ast.Load()), body=[conc], orelse=cut),
        ]
        for n in new:
            ast.copy_location(n, node)
            for sub in ast.walk(n):
                if not hasattr(sub, "lineno"):
                    ast.copy_location(sub, node)
        return new


def rewrite(source, filename):
    tree = ast.parse(source, filename)
    rw = Rewriter(filename)
    # module docstring
    if tree.body and isinstance(tree.body[0], ast.Expr) and isinstance(tree.body[0].value, ast.Constant) \
            and isinstance(tree.body[0].value.value, str):
        tree.body = tree.body[1:]
    tree = rw.visit(tree)
    ast.fix_missing_locations(tree)
    return tree, rw
