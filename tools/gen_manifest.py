#!/usr/bin/env python3
"""Regenerates MANIFEST.json from the property modules under props/ (python3 tools/gen_manifest.py)."""
import importlib, json, os, sys, warnings
warnings.filterwarnings("ignore")
ROOT = os.path.dirname(os.path.dirname(os.path.abspath(__file__)))
sys.path.insert(0, ROOT)
ALL = ["C%02d" % i for i in range(1, 21)]
PENDING = "check not built yet (engine slice pending, see DESIGN.md section 8); no claim is made"
checks, na = [], []
for pid in ALL:
    if not os.path.exists(os.path.join(ROOT, "props", pid + ".py")):
        na.append({"property_id": pid, "reason": PENDING})
        continue
    src = open(os.path.join(ROOT, "props", pid + ".py")).read()
    ns = {}
    # read the declarative header without importing heavy dependencies
    import ast
    tree = ast.parse(src)
    for node in tree.body:
        if isinstance(node, ast.Assign) and len(node.targets) == 1 and isinstance(node.targets[0], ast.Name) \
                and node.targets[0].id in ("LEVEL", "LEVEL_TEXT", "LEVEL_NOTE", "TECHNIQUE", "DESIGN_REF", "NOT_APPLICABLE"):
            try:
                ns[node.targets[0].id] = ast.literal_eval(node.value)
            except Exception:
                pass
    if ns.get("NOT_APPLICABLE"):
        na.append({"property_id": pid, "reason": ns["NOT_APPLICABLE"]})
        continue
    checks.append({
        "property_id": pid,
        "quick_cmd": "bin/check %s --tier quick" % pid,
        "thorough_cmd": "bin/check %s --tier thorough" % pid,
        "evidence_file": "evidence/%s.json" % pid,
        "replay_cmd_template": "bin/check %s --replay {path}" % pid,
        "engine": "pyvc",
        "level_claimed": {"category": ns.get("LEVEL", "proof"),
                          "text": ns.get("LEVEL_TEXT", ""),
                          "design_ref": ns.get("DESIGN_REF", "DESIGN.md section 5, " + pid)},
        "level_note": ns.get("LEVEL_NOTE", ""),
        "technique": ns.get("TECHNIQUE", "contract-based deductive verification: sidecar contracts on the real functions, "
                                         "VCs generated from /repo's AST by symbolic execution (pyvc), discharged by z3/cvc5/Groebner"),
    })
man = {
    "version": 1,
    "setup_cmd": "bin/setup",
    "hooks": {"guard": "EVO_VERIF", "enable": "no hooks are needed: contracts are sidecar files under /verif/contracts and "
              "the run-time layer wraps functions from outside; EVO_VERIF is reserved and unused",
              "baseline_off_cmd": "cd /repo && /venv/bin/python -m pytest -ra -q -p no:cacheprovider --timeout=900 "
                                  "--continue-on-collection-errors",
              "source_commits": [], "add_only": True},
    "engines": [{"name": "pyvc", "path": "pyvc/", "serves_properties": [c["property_id"] for c in checks],
                 "kind_free_text": "VC generator for Python: re-reads /repo's source on every run, rewrites loops/"
                 "comprehensions mechanically, executes the real code on symbolic values (z3 terms), cuts calls by sidecar "
                 "contracts and loops by invariants; back ends z3 5.1, cvc5 1.0, sympy Groebner bases; plus run-time "
                 "evaluation of the same clauses on the real code as a labelled bounded stand-in"}],
    "checks": checks,
    "not_applicable": na,
    "notes": "exit codes of bin/check: 0 held, 1 violation (VIOLATION line), 2 undecided only, 3 checker error. "
             "fix: commits in /repo and known findings are listed in known_findings.json.",
}
json.dump(man, open(os.path.join(ROOT, "MANIFEST.json"), "w"), indent=1)
print("checks:", [c["property_id"] for c in checks], "n/a:", len(na))
