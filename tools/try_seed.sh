#!/bin/bash
# usage: tools/try_seed.sh <seed-name> <property id> [check ids...]
# applies /verif/seeded/<seed-name>/patch.diff to /repo, runs the quick checks, reverts /repo.
set -u
name=$1; shift
cd /verif
git -C /repo diff --quiet || { echo "/repo has local changes"; exit 2; }
git -C /repo apply /verif/seeded/$name/patch.diff || { echo "patch does not apply"; exit 2; }
for id in "$@"; do
  # the evidence file of the unchanged tree is kept: evidence must describe runs against /repo as committed
  cp evidence/$id.json .work/evidence_keep_$id.json 2>/dev/null
  bin/check $id > .work/seed_${name}_$id.log 2>&1
  rc=$?
  [ -f .work/evidence_keep_$id.json ] && mv .work/evidence_keep_$id.json evidence/$id.json
  echo "seed=$name check=$id exit=$rc  $(grep -c '^VIOLATION' .work/seed_${name}_$id.log) violation lines, $(grep -c '^UNDECIDED' .work/seed_${name}_$id.log) undecided"
  grep -E '^VIOLATION|^UNDECIDED' .work/seed_${name}_$id.log | head -4 | cut -c1-220
done
git -C /repo checkout -- .
git -C /repo status --short
