"""Driver for the bounded stand-in of C19: performs one settings operation of the real evo in this process with a
simulated kill (or a complete concurrent start) injected at the k-th file-system step.

usage: c19_driver.py <op> <mode> <k>      mode: crash | interleave | none
exit codes: 0 op completed, 17 killed at step k as requested, 3 step k was never reached (no more steps), other: failure
Prints one line per file-system step to stderr when C19_TRACE is set."""
import builtins
import io
import os
import pathlib
import subprocess
import sys

op, mode, k = sys.argv[1], sys.argv[2], int(sys.argv[3])
step = [0]
_real_open, _real_replace, _real_rename, _real_mkdir = builtins.open, os.replace, os.rename, pathlib.Path.mkdir
HOME = os.environ["HOME"]


class Kill(BaseException):
    pass


def at_step(what):
    step[0] += 1
    if os.environ.get("C19_TRACE"):
        sys.stderr.write("step %d: %s\n" % (step[0], what))
    if step[0] != k:
        return False
    if mode == "crash":
        return True
    if mode == "interleave":
        # a complete start of another evo process happens right here
        env = dict(os.environ)
        r = subprocess.run([sys.executable, "-c", "import evo.tools.settings as s; s.SETTINGS.plot_split"], env=env,
                           capture_output=True, text=True)
        if r.returncode != 0:
            sys.stderr.write("OTHER-PROCESS-FAILED: " + (r.stderr or "")[-600:] + "\n")
            os._exit(23)
    return False


def die():
    sys.stderr.flush()
    os._exit(17)


def in_home(p):
    try:
        return str(os.fspath(p)).startswith(HOME) or str(os.fspath(p)).startswith(os.environ.get("C19_WORK", "\0"))
    except TypeError:
        return False


class W:
    """file object whose every write is a file-system step; a kill in the middle of a write leaves half the data"""

    def __init__(self, f, name):
        self.f, self.name = f, name

    def write(self, s):
        if at_step("write %d bytes to %s" % (len(s), self.name)):
            self.f.write(s[:len(s) // 2])
            self.f.flush()
            die()
        n = self.f.write(s)
        self.f.flush()
        return n

    def truncate(self, *a):
        r = self.f.truncate(*a)
        self.f.flush()
        if at_step("truncate " + self.name):
            die()
        return r

    def __enter__(self):
        return self

    def __exit__(self, *a):
        self.f.close()
        return False

    def __getattr__(self, a):
        return getattr(self.f, a)


def open_(file, mode_="r", *a, **kw):
    if not in_home(file) or not any(c in mode_ for c in "wax+"):
        return _real_open(file, mode_, *a, **kw)
    if at_step("open(%s, %r) before" % (file, mode_)):
        die()
    f = _real_open(file, mode_, *a, **kw)
    if at_step("open(%s, %r) done" % (file, mode_)):
        die()
    return W(f, str(file))


def replace_(src, dst, *a, **kw):
    if at_step("replace(%s, %s) before" % (src, dst)):
        die()
    _real_replace(src, dst, *a, **kw)
    if at_step("replace done"):
        die()


def mkdir_(self, *a, **kw):
    if in_home(self) and at_step("mkdir %s before" % self):
        die()
    r = _real_mkdir(self, *a, **kw)
    if in_home(self) and at_step("mkdir done"):
        die()
    return r


builtins.open = open_
io.open = open_
os.replace = replace_
os.rename = replace_
pathlib.Path.mkdir = mkdir_

if op in ("first_start", "upgrade", "start"):
    import evo.tools.settings as s
    assert "plot_split" in s.SETTINGS
else:
    # the operation is an edit through evo_config; the start itself is not instrumented
    saved = (k, mode)
    k = -1
    import evo.tools.settings as s
    from evo import main_config
    import logging
    logging.disable(logging.CRITICAL)
    k = saved[0]
    step[0] = 0
    work = os.environ["C19_WORK"]
    argv = {"set": ["set", "plot_split", "plot_figsize", "5", "6"],
            "set_custom": ["set", "-c", os.path.join(work, "custom.json"), "plot_split", "plot_figsize", "5", "6"],
            "merge": ["set", "--merge", os.path.join(work, "other.json")],
            "merge_soft": ["set", "--merge", os.path.join(work, "other.json"), "--soft"],
            "reset": ["reset", "-y"],
            "reset_subset": ["reset", "-y", "plot_split", "plot_figsize"]}[op]
    sys.argv = ["evo_config"] + argv
    main_config.main()
if step[0] < k:
    sys.exit(3)
sys.exit(0)
