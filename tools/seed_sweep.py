"""run the bounded stand-ins of all checks for several seeds (false-alarm hunt on the unchanged tree)
usage: tools/seed_sweep.py [ids...] [--seeds 1 2 3]"""
import importlib
import json
import os
import sys
from concurrent.futures import ProcessPoolExecutor

sys.path.insert(0, os.path.join(os.path.dirname(__file__), ".."))
os.environ.setdefault("VERIF_ROOT", os.path.abspath(os.path.join(os.path.dirname(__file__), "..")))
os.environ.setdefault("MPLBACKEND", "Agg")


def one(job):
    pid, seed = job
    pm = importlib.import_module("props." + pid)
    known = json.load(open(os.path.join(os.environ["VERIF_ROOT"], "known_findings.json")))
    tags = [k["tag"] for k in known["findings"] if k["property"] == pid and k.get("tag")]
    try:
        r = pm.bounded("quick", seed)
    except Exception as e:
        return pid, seed, ["EXC %r" % e], 0
    if not r:
        return pid, seed, [], 0
    v = [x for x in r["violations"] if not any(x.get("tag", "").startswith(t) for t in tags)]
    return pid, seed, [(x["checker"], x["failed"][:2], x["input"]) for x in v[:3]], r["cases"]


if __name__ == "__main__":
    a = sys.argv[1:]
    seeds = [1, 2, 3]
    if "--seeds" in a:
        i = a.index("--seeds")
        seeds = [int(x) for x in a[i + 1:]]
        a = a[:i]
    ids = a or sorted(f[:-3] for f in os.listdir(os.path.join(os.environ["VERIF_ROOT"], "props")) if f.startswith("C") and f.endswith(".py"))
    jobs = [(p, s) for p in ids for s in seeds]
    with ProcessPoolExecutor(max_workers=14) as ex:
        for pid, seed, v, n in ex.map(one, jobs):
            print(pid, "seed", seed, "cases", n, "OK" if not v else "VIOLATIONS %s" % json.dumps(v, default=str)[:600], flush=True)
