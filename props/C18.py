"""C18 -- config edits keep keys, types, user values; generated configs equal their args."""
import json
import os
import shutil
import subprocess
import sys

import numpy as np

from pyvc import bounded as B
from props import pipeline as P
from contracts import settingsfs as _sf

ID = "C18"
LEVEL = "proof"
LEVEL_TEXT = ("evo_config's set_config is verified over opaque value tokens (observables: is-a-number, numeric value, "
              "lower() == true/false/[]/none, leading dash) for 14 argument-list shapes and a settings document with the real "
              "key set and symbolic bool/int/float values: key set unchanged, only named keys change, booleans stay booleans "
              "(explicit true/false or toggle), lists stay lists, numeric tokens become int (integral) or float; generate: one "
              "entry per option, flags, integers kept integers, negative numbers are values, multi-value options lists; "
              "merge_dicts soft/hard; reset(subset) and the version upgrade (values kept, default keys added); the locked "
              "SettingsContainer refuses unknown parameters; update_existing_keys never adds keys; merge_config: config over "
              "command line, package settings overridden on existing keys only, nothing written.  Operation histories on real "
              "files and the generate <-> argparse round trip: bounded stand-in.")
LEVEL_NOTE = ("tokens are opaque strings with the listed observables (trusted: they agree with Python's float()/str.lower()); "
              "argument lists enumerated by shape (up to 5 tokens), not by length; json round trip of the document trusted; "
              "plot_seaborn_palette's special case and 'inf'/'nan' tokens are outside the verified shapes")
SIDECARS = ["contracts.settingsfs", "contracts.config"]
OVERRIDES = _sf.OVERRIDES
SYMBOLIC_MODULES = _sf.SYMBOLIC
S, MC = "evo.tools.settings.", "evo.main_config."
FUNCTIONS = [MC + "set_config", MC + "generate", S + "merge_dicts", S + "reset", S + "update_if_outdated",
             S + "SettingsContainer.__setattr__", S + "SettingsContainer.update_existing_keys", "evo.entry_points.merge_config"]
LEMMAS = []
TRUSTED = ["float(token) / str.lower / str.startswith agree with the token observables", "json.dumps / json.loads round trip"]
ASSUMPTIONS = ["--merge of another file is a union by design: key-set invariance is claimed for set / reset / upgrade"]
EXPLANATION = "opaque tokens with symbolic observables; concrete key sets; symbolic values; ghost file system of C19"


# =====================================================================================================================
# bounded stand-in
# =====================================================================================================================
def _defaults():
    from evo.tools.settings_template import DEFAULT_SETTINGS_DICT
    return dict(DEFAULT_SETTINGS_DICT)


def _num(tok):
    try:
        f = float(tok)
    except ValueError:
        return None
    return int(f) if f == int(f) else f


def set_spec(doc, tokens):
    """what `evo_config set <tokens>` must do to a document -- from the property statement"""
    new = dict(doc)
    i, n = 0, len(tokens)
    while i < n:
        t = tokens[i]
        if t not in doc:
            i += 1
            continue
        j = i + 1
        vals = []
        while j < n and tokens[j] not in doc:
            vals.append(tokens[j])
            j += 1
        old = new[t]          # a key named twice is edited twice, in order
        if isinstance(old, bool):
            if vals and vals[-1].lower() in ("true", "false"):
                new[t] = vals[-1].lower() == "true"
            else:
                new[t] = not old
        elif vals:
            conv = [(_num(v) if _num(v) is not None else v) for v in vals]
            if isinstance(old, list):
                new[t] = [] if vals[0].lower() in ("[]", "none") else conv
            else:
                new[t] = conv[0]
        i = j
    return new


def _same_doc(a, b):
    if set(a) != set(b):
        return "key sets differ: %s" % sorted(set(a) ^ set(b))[:4]
    for k in a:
        if type(a[k]) is not type(b[k]) or a[k] != b[k]:
            return "value of %s: %r (%s) != %r (%s)" % (k, a[k], type(a[k]).__name__, b[k], type(b[k]).__name__)
    return None


def _rand_tokens(rng, doc):
    keys = list(doc)
    words = ["true", "False", "TRUE", "none", "[]", "abc", "x_y", "1", "2.5", "-3", "1e3", "0.0", "-0.25", "7.0", "Agg", "b"]
    out = []
    for _ in range(int(rng.integers(1, 5))):
        k = keys[int(rng.integers(len(keys)))]
        if k == "plot_seaborn_palette":
            continue
        out.append(k)
        for _ in range(int(rng.integers(0, 4))):
            out.append(words[int(rng.integers(len(words)))])
    if rng.random() < 0.2:
        out.insert(0, words[int(rng.integers(len(words)))])
    return out


def chk_history(inp):
    """a history of set / reset / merge / upgrade operations on real files, checked step by step against the model"""
    from evo import main_config
    from evo.tools import settings
    rng = np.random.default_rng(inp["seed"])
    d = P.workdir("C18")
    path = os.path.join(d, "settings_%d.json" % inp["seed"])
    other = os.path.join(d, "other_%d.json" % inp["seed"])
    vers = os.path.join(d, "version_%d" % inp["seed"])
    D = _defaults()
    settings.write_to_json_file(path, D) if hasattr(settings, "write_to_json_file") else None
    model = dict(D)
    f = []
    for step in range(inp["steps"]):
        op = ["set", "set", "set", "reset_subset", "reset_all", "merge_hard", "merge_soft", "upgrade"][int(rng.integers(8))]
        before = json.load(open(path))
        if op == "set":
            toks = _rand_tokens(rng, before)
            main_config.set_config(path, toks)
            model = set_spec(model, toks)
            what = "set %s" % toks
            named = {t for t in toks if t in before}
            after = json.load(open(path))
            for k in before:
                if k in after and isinstance(before[k], bool) and not isinstance(after[k], bool):
                    f.append("boolean_parameter_stays_boolean[%s] after %s: %r" % (k, what, after[k]))
                if k in after and isinstance(before[k], list) and not isinstance(after[k], list):
                    f.append("list_parameter_stays_a_list[%s] after %s: %r" % (k, what, after[k]))
                if k not in named and after.get(k, None) != before[k]:
                    f.append("changes_only_the_named_keys[%s] after %s" % (k, what))
            if set(after) != set(before):
                f.append("never_adds_or_removes_keys after %s" % what)
        elif op == "reset_subset":
            keys = [k for k in D if rng.random() < 0.1] + ["not_a_parameter"]
            settings.reset(destination=__import__("pathlib").Path(path), parameter_subset=keys)
            for k in keys:
                if k in D:
                    model[k] = D[k]
            what = "reset %s" % keys
        elif op == "reset_all":
            settings.reset(destination=__import__("pathlib").Path(path))
            model = dict(D)
            what = "reset"
        elif op in ("merge_hard", "merge_soft"):
            o = {k: (not v if isinstance(v, bool) else v) for k, v in D.items() if rng.random() < 0.1}
            o["extra_%d" % step] = step
            json.dump(o, open(other, "w"))
            main_config.merge_json_union(path, other, soft=(op == "merge_soft"))
            for k, v in o.items():
                if op == "merge_hard" or k not in model:
                    model[k] = v
            what = op
        else:
            # version upgrade: some default keys are missing in the stored document, the version file is stale
            doc = json.load(open(path))
            dropped = [k for k in D if rng.random() < 0.1]
            for k in dropped:
                doc.pop(k, None)
                model.pop(k, None)
            json.dump(doc, open(path, "w"))
            open(vers, "w").write("0.0.0")
            saved = (settings.DEFAULT_PATH, settings.USER_ASSETS_VERSION_PATH)
            settings.DEFAULT_PATH, settings.USER_ASSETS_VERSION_PATH = __import__("pathlib").Path(path), __import__("pathlib").Path(vers)
            try:
                import contextlib
                import io
                with contextlib.redirect_stdout(io.StringIO()):
                    settings.update_if_outdated()
            finally:
                settings.DEFAULT_PATH, settings.USER_ASSETS_VERSION_PATH = saved
            for k in D:
                if k not in model:
                    model[k] = D[k]
            what = "upgrade (missing %s)" % dropped[:3]
        got = json.load(open(path))
        e = _same_doc(got, model)
        if e:
            f.append("after step %d (%s): %s" % (step, what, e))
        if f:
            break
    return f


def _option_actions(parser):
    import argparse
    sub = None
    for a in parser._actions:
        if isinstance(a, argparse._SubParsersAction):
            sub = a
    p = sub.choices["tum"] if sub else parser
    acts = []
    for a in p._actions:
        longs = [o for o in a.option_strings if o.startswith("--")]
        if not longs or a.dest in ("help", "config") or isinstance(a, argparse._HelpAction):
            continue
        acts.append((longs[0], a))
    return acts


def chk_generate(inp):
    """evo_config generate <args> -> file; <command> -c file  ==  <command> <args>   (argparse namespaces compared)"""
    import argparse
    from evo import main_config, entry_points
    from evo import main_ape_parser, main_rpe_parser, main_traj_parser
    from evo.tools.settings import SETTINGS
    rng = np.random.default_rng(inp["seed"])
    mod = {"ape": main_ape_parser, "rpe": main_rpe_parser, "traj": main_traj_parser}[inp["cmd"]]
    parser = mod.parser()
    pos = {"ape": ["tum", "ref.tum", "est.tum"], "rpe": ["tum", "ref.tum", "est.tum"], "traj": ["tum", "a.tum", "b.tum"]}[inp["cmd"]]
    acts = _option_actions(parser)
    toks = []
    picked = set()
    for _ in range(inp["k"]):
        opt, a = acts[int(rng.integers(len(acts)))]
        if a.dest in picked or a.dest in ("no_warnings", ):
            continue
        picked.add(a.dest)
        if isinstance(a, (argparse._StoreTrueAction, argparse._StoreFalseAction)):
            if isinstance(a, argparse._StoreFalseAction):
                continue
            toks.append(opt)
            continue
        n = a.nargs if isinstance(a.nargs, int) else (2 if a.nargs in ("+", "*") else 1)
        vals = []
        for _ in range(n):
            if a.choices:
                vals.append(str(list(a.choices)[int(rng.integers(len(a.choices)))]))
            elif a.type is int:
                vals.append(str(int(rng.choice([0, 0, 1, -1, int(rng.integers(-3, 600))]))))
            elif a.type is float:
                vals.append(repr(float(rng.choice([0.01, -0.5, 2.0, 1e-3, -3.0, 12.25, 0.0, 0.0]))))
            else:
                vals.append(["name_a", "out.zip", "topic/x", "run_1"][int(rng.integers(4))])
        toks += [opt] + vals
    if not toks:
        return []
    d = P.workdir("C18")
    cfg = os.path.join(d, "gen_%d.json" % inp["seed"])
    json.dump(main_config.generate(toks), open(cfg, "w"))
    import contextlib
    import io
    try:
        with contextlib.redirect_stderr(io.StringIO()):
            direct = parser.parse_args(pos + toks)
    except SystemExit:
        return []          # argparse itself refuses this combination (mutually exclusive options)
    saved = dict(SETTINGS)
    try:
        via = entry_points.merge_config(parser.parse_args(pos + ["-c", cfg]))
    finally:
        for k, v in saved.items():
            SETTINGS[k] = v
    f = []
    dv, vv = vars(direct), vars(via)
    for k in dv:
        if k == "config":
            continue
        a, b = dv[k], vv.get(k, "<missing>")
        same = (a == b) and (type(a) is type(b) or not isinstance(a, (int, bool)) or isinstance(a, bool) == isinstance(b, bool))
        if isinstance(a, int) and not isinstance(a, bool) and not (isinstance(b, int) and not isinstance(b, bool)):
            same = False
        if not same:
            f.append("generated_config_has_the_effect_of_its_arguments[%s]: %r (%s) via config, %r (%s) directly; args %s" % (
                k, b, type(b).__name__, a, type(a).__name__, toks))
    extra = set(vv) - set(dv)
    if extra:
        f.append("generated_config_adds_unknown_arguments: %s from %s" % (sorted(extra), toks))
    return f


def chk_lock(inp):
    from evo.tools import settings
    c = settings.SettingsContainer(_defaults())
    keys = set(c.keys())
    f = []
    try:
        setattr(c, inp["name"], 1)
        if inp["name"] not in keys:
            f.append("unknown_parameter_cannot_be_added[%s]" % inp["name"])
    except settings.SettingsException:
        if inp["name"] in keys:
            f.append("existing parameter refused")
    c.update_existing_keys({"brand_new": 1, "plot_split": True})
    if set(c.keys()) != keys:
        f.append("update_existing_keys_never_adds_a_key")
    return f


CHECKERS = {"history": chk_history, "generate": chk_generate, "lock": chk_lock}


def _cases(tier, seed):
    rng = np.random.default_rng(seed + 1818)
    for it in range(60 if tier == "quick" else 1500):
        yield ("history", {"seed": int(rng.integers(0, 10**9)), "steps": 8 if tier == "quick" else 20})
    for it in range(240 if tier == "quick" else 6000):
        yield ("generate", {"seed": int(rng.integers(0, 10**9)), "cmd": ["ape", "rpe", "traj"][it % 3], "k": 1 + it % 6})
    for nm in ("plot_split", "brand_new_parameter", "__locked__x", "plot_figsize"):
        yield ("lock", {"name": nm})


def bounded(tier, seed):
    return B.run(CHECKERS, _cases(tier, seed),
                 rule="histories of 8 (thorough: 20) random set / reset(subset) / reset / merge(hard, soft) / upgrade operations on "
                      "real files over the 50 settings keys with token lists mixing keys, true/false/none/[] in any case, "
                      "integers, floats, negatives, exponents and words, compared step by step with a model written from the "
                      "property; generate -> -c round trip for random argument lists built from the typed options of the "
                      "evo_ape / evo_rpe / evo_traj parsers (flags, ints, floats incl. negative, choices, multi-value)",
                 bounds={"seed": seed})


def concretize(vc, tier, seed):
    r = bounded("quick", seed + 1)
    if r["violations"]:
        v = r["violations"][0]
        return {"checker": v["checker"], "input": v["input"], "failed": v["failed"]}
    return None
