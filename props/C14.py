"""C14 -- plane projection puts every pose into the plane, leaves planar poses unchanged."""
import copy
import math

import numpy as np

from pyvc import bounded as B

ID = "C14"
LEVEL = "proof"
LEVEL_TEXT = ("PosePath3D.project is verified for trajectories of any length, the three planes and both storage modes (loop "
              "invariant over the in-place rewritten pose list): zero out-of-plane coordinate, in-plane coordinates unchanged, "
              "orientation a pure rotation about the plane normal (valid rigid-body pose), count/order/timestamps unchanged, "
              "cached views flushed, second projection refused.  'Planar poses are left unchanged' is a lemma over "
              "euler_from_matrix('sxyz') and so3_exp for XY, YZ and for XZ with |heading| <= 90 deg; XZ beyond 90 deg is the "
              "recorded finding F3.")
LEVEL_NOTE = ("floats as reals; trusted: scipy exp about a coordinate axis = elementary rotation, atan2/sqrt/cos/sin axioms "
              "(cos(atan2(s,c)) = c, sin(atan2(s,c)) = s on the unit circle); known finding: XZ projection of planar poses with "
              "|heading| > 90 deg")
SIDECARS = ["contracts.lie_algebra", "contracts.geometry", "contracts.filters", "contracts.umeyama", "contracts.trajectory",
            "contracts.lemmas_traj"]
FUNCTIONS = ["evo.core.trajectory.PosePath3D.project"]
LEMMAS = ["projection_fixes_planar_poses_xy", "projection_fixes_planar_poses_yz",
          "projection_fixes_planar_poses_xz_forward_headings"]
TRUSTED = ["scipy Rotation.from_rotvec(theta * e_axis).as_matrix() = R_axis(theta)", "math.atan2 / math.sqrt axioms",
           "cos(atan2(s, c)) = c and sin(atan2(s, c)) = s for c^2 + s^2 = 1"]
ASSUMPTIONS = ["gimbal-lock attitudes and float behaviour of the Euler extraction: bounded stand-in"]
EXPLANATION = "element-mutating loop cut by an invariant over the rewritten list; planar fixpoint as a trigonometric lemma"

AXIS = {"xy": 2, "xz": 1, "yz": 0}


def _Raxis(a, phi):
    c, s = math.cos(phi), math.sin(phi)
    if a == 2:
        return np.array([[c, -s, 0], [s, c, 0], [0, 0, 1.0]])
    if a == 1:
        return np.array([[c, 0, s], [0, 1.0, 0], [-s, 0, c]])
    return np.array([[1.0, 0, 0], [0, c, -s], [0, s, c]])


def chk_project(inp):
    from evo.core.trajectory import PoseTrajectory3D, Plane, TrajectoryException
    rng = np.random.default_rng(inp["seed"])
    n = inp["n"]
    poses = []
    for k in range(n):
        p = B.rand_se3(rng, inp.get("rot_kind"), tmag=(-2, 3))
        if inp.get("gimbal") and k % 2:
            p[:3, :3] = _Raxis(2, rng.uniform(-3, 3)) @ _Raxis(1, math.pi / 2 * (1 if k % 4 == 1 else -1)) @ _Raxis(0, rng.uniform(-3, 3))
        if inp.get("flat_positions"):
            # positions already exactly in the plane, attitudes genuinely 3-D (2-D localiser with an IMU attitude; seed C14-c)
            p[AXIS[inp["plane"]], 3] = 0.0
        poses.append(p)
    ts = np.cumsum(rng.uniform(0.05, 0.2, size=n))
    t = PoseTrajectory3D(poses_se3=[p.copy() for p in poses], timestamps=ts.copy())
    if not inp.get("from_poses", True):
        t = PoseTrajectory3D(t.positions_xyz.copy(), t.orientations_quat_wxyz.copy(), ts.copy())
    if inp.get("read_first"):
        _ = t.positions_xyz, t.orientations_quat_wxyz
    plane = Plane(inp["plane"])
    a = AXIS[inp["plane"]]
    t.project(plane)
    f = []
    new = np.array(t.poses_se3)
    old = np.array(poses)
    if len(new) != n or not np.array_equal(t.timestamps, ts):
        f.append("count_order_timestamps_unchanged")
        return f
    o = [i for i in range(3) if i != a]
    if not np.all(new[:, a, 3] == 0):
        f.append("out_of_plane_coordinate_zero")
    if not np.allclose(new[:, o, 3], old[:, o, 3], atol=1e-9 * max(1.0, np.abs(old[:, :3, 3]).max())):
        f.append("in_plane_coordinates_unchanged")
    for k in range(n):
        R = new[k][:3, :3]
        if not (abs(R[a, a] - 1) < 1e-9 and np.allclose(R[a, o], 0, atol=1e-9) and np.allclose(R[o, a], 0, atol=1e-9)
                and np.allclose(R.T @ R, np.eye(3), atol=1e-9) and abs(np.linalg.det(R) - 1) < 1e-9):
            f.append("orientation_is_a_pure_rotation_about_the_normal (pose %d)" % k)
            break
    if not t.check()[0]:
        f.append("still_valid_rigid_body_poses (check())")
    if not np.allclose(t.positions_xyz, new[:, :3, 3]) or len(t.orientations_quat_wxyz) != n:
        f.append("views_consistent_after_projection")
    else:
        # the orientation seen through the quaternion view is the projected one as well
        from evo.core import transformations as tr
        for k in range(n):
            if not np.allclose(tr.quaternion_matrix(t.orientations_quat_wxyz[k])[:3, :3], new[k][:3, :3], atol=1e-7):
                f.append("orientation_is_a_pure_rotation_about_the_normal (quaternion view of pose %d is not the projected "
                         "orientation)" % k)
                break
    try:
        t.project(plane)
        f.append("second_projection_refused")
    except TrajectoryException:
        pass
    return f


def chk_planar(inp):
    """a pose already in the plane (any heading in (-pi, pi]) is left unchanged"""
    from evo.core.trajectory import PosePath3D, Plane
    a = AXIS[inp["plane"]]
    phi = inp["heading"]
    p = np.eye(4)
    p[:3, :3] = _Raxis(a, phi)
    pos = np.array(inp["pos"], dtype=float)
    pos[a] = 0.0
    p[:3, 3] = pos
    t = PosePath3D(poses_se3=[p.copy(), p.copy()])
    t.project(Plane(inp["plane"]))
    if not np.allclose(t.poses_se3[0], p, atol=1e-9):
        region = "backward_heading" if (inp["plane"] == "xz" and math.cos(phi) < 0) else "heading"
        return ["planar_pose_unchanged[%s,%s] heading %.6f rad: max entry change %.3g" %
                (inp["plane"], region, phi, float(np.abs(np.array(t.poses_se3[0]) - p).max()))]
    return []


CHECKERS = {"project": chk_project, "planar": chk_planar}


def _cases(tier, seed):
    rng = np.random.default_rng(seed + 1414)
    yield ("planar", {"plane": "xz", "heading": 2.0, "pos": [1.0, 0.0, 2.0]})      # documented witness of F3
    for plane in ("xy", "xz", "yz"):
        step = 1 if tier == "thorough" else 3
        for deg in range(-179, 181, step):
            yield ("planar", {"plane": plane, "heading": math.radians(deg), "pos": rng.normal(size=3) * 10})
        for _ in range(40 if tier == "quick" else 2000):
            yield ("planar", {"plane": plane, "heading": float(rng.uniform(-math.pi, math.pi)), "pos": rng.normal(size=3) * 100})
    K = 120 if tier == "quick" else 4000
    for it in range(K):
        yield ("project", {"seed": int(rng.integers(0, 10**9)), "n": int(rng.integers(1, 40)), "plane": ["xy", "xz", "yz"][it % 3],
                           "from_poses": bool(it % 2), "read_first": bool(it % 4 < 2), "gimbal": it % 5 == 0,
                           "flat_positions": it % 4 == 3,
                           "rot_kind": [None, "uniform", "nearpi", "tiny", "axis"][it % 5]})


def bounded(tier, seed):
    return B.run(CHECKERS, _cases(tier, seed),
                 rule="planar poses with every heading on a %d-degree grid in (-180, 180] plus random, three planes; general 3-D "
                      "poses incl. gimbal-lock attitudes (pitch +-90 deg) and positions already in the plane under 3-D attitudes, both storage modes, cached views read before / not; "
                      "validity via check()" % (1 if tier == "thorough" else 3), bounds={"seed": seed})


def concretize(vc, tier, seed):
    r = bounded("quick", seed + 1)
    vs = [v for v in r["violations"] if "backward_heading" not in v.get("tag", "")]
    if vs:
        v = vs[0]
        return {"checker": v["checker"], "input": v["input"], "failed": v["failed"]}
    return None
