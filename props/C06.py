"""C06 -- writing and re-reading any supported format is lossless."""
import io
import json
import os

import numpy as np

from pyvc import bounded as B
from props import pipeline as P
from contracts import overwrite as _ow

ID = "C06"
LEVEL = "proof"
LEVEL_TEXT = ("the text round trip is the composition of three verified / trusted links: (1) the TUM and KITTI writers hand "
              "numpy.savetxt one row per pose, in order, holding the trajectory's own values, and leave the format at >= 17 "
              "significant digits (verified: clause every_value_written_with_at_least_17_significant_digits reads the fmt that "
              "reaches savetxt); (2) IEEE-754: float(text(x)) = x for 17 significant digits (trusted axiom); (3) the readers "
              "put float(token) of every row into the same slots, one pose per row in file order (verified, C07 contracts).  "
              "Result archives, pandas conversion, negative zero, extreme magnitudes, unicode, path/handle variants: bounded "
              "stand-in comparing bit patterns.  ROS bag export: not exercised (the installed rosbags cannot write bags the way "
              "evo calls it), listed as unverified.")
LEVEL_NOTE = ("round-trip axiom for 17 significant digits trusted; json / numpy.save / zipfile / pandas trusted and exercised by "
              "the bounded stand-in only; bag export unverified")
SIDECARS = ["contracts.lie_algebra", "contracts.geometry", "contracts.filters", "contracts.umeyama", "contracts.trajectory",
            "contracts.overwrite", "contracts.fileio"]
OVERRIDES = _ow.OVERRIDES
FI = "evo.tools.file_interface."
FUNCTIONS = [FI + "write_tum_trajectory_file", FI + "write_kitti_poses_file", FI + "read_tum_trajectory_file",
             FI + "read_kitti_poses_file"]
LEMMAS = []
TRUSTED = ["IEEE-754 round trip: a double printed with 17 significant decimal digits is read back identically",
           "numpy.savetxt / numpy.save / numpy.load / json / zipfile / pandas (exercised by the bounded stand-in)"]
ASSUMPTIONS = ["ROS1/ROS2 bag export and import: unverified (cannot run in this environment)",
               "assumed contract of csv_read_matrix (token matrix of the data lines)"]
EXPLANATION = "writer rows + format parameter (verified) o IEEE round trip (trusted) o reader slots (verified)"


def _bits(a):
    return np.ascontiguousarray(np.asarray(a, dtype=np.float64)).view(np.uint64)


def _same_bits(a, b):
    a, b = np.asarray(a, dtype=np.float64), np.asarray(b, dtype=np.float64)
    return a.shape == b.shape and np.array_equal(_bits(a), _bits(b))


def _nasty(rng, shape, kind):
    if kind == "digits":
        return rng.random(shape) * 10.0 ** rng.integers(-3, 6, size=shape) * rng.choice([-1.0, 1.0], size=shape)
    if kind == "extreme":
        return rng.random(shape) * 10.0 ** rng.integers(-300, 300, size=shape) * rng.choice([-1.0, 1.0], size=shape)
    if kind == "negzero":
        x = rng.normal(size=shape)
        x[rng.random(shape) < 0.3] = -0.0
        x[rng.random(shape) < 0.1] = 0.0
        return x
    if kind == "ulp":
        return np.nextafter(rng.integers(-1000, 1000, size=shape).astype(float), rng.choice([-np.inf, np.inf], size=shape))
    return rng.normal(size=shape)


def _traj(rng, n, kind, stamps=True):
    from evo.core.trajectory import PoseTrajectory3D, PosePath3D
    xyz = _nasty(rng, (n, 3), kind)
    q = rng.normal(size=(n, 4))
    q /= np.linalg.norm(q, axis=1, keepdims=True)
    if kind == "negzero":
        q[0] = [1.0, -0.0, 0.0, -0.0]
    mode = int(rng.integers(0, 4))
    if mode == 0:
        ts = 1.6e9 + np.cumsum(rng.integers(1, 10**9, size=n)) * 1e-9          # epoch stamps with nanosecond fractions
    elif mode == 1:
        ts = np.cumsum(rng.random(n))                                           # relative stamps with all 53 bits in use
    elif mode == 2:
        ts = 1.6e9 + np.cumsum(rng.random(n))                                   # epoch stamps computed in float64
    else:
        ts = np.cumsum(rng.random(n)) * 10.0 ** float(rng.integers(-12, 3))     # very small / sub-nanosecond steps
    return PoseTrajectory3D(xyz, q, ts) if stamps else PosePath3D(xyz, q)


def chk_tum(inp):
    from evo.tools import file_interface as fi
    rng = np.random.default_rng(inp["seed"])
    t = _traj(rng, inp["n"], inp["kind"])
    d = P.workdir("C06")
    if inp["handle"]:
        buf = io.StringIO()
        fi.write_tum_trajectory_file(buf, t)
        buf.seek(0)
        r = fi.read_tum_trajectory_file(buf)
    else:
        p = os.path.join(d, "t_%d.tum" % inp["seed"])
        fi.write_tum_trajectory_file(p, t)
        r = fi.read_tum_trajectory_file(p)
    f = []
    if r.num_poses != t.num_poses:
        return ["same_number_of_poses %d != %d" % (r.num_poses, t.num_poses)]
    for nm, a, b in (("timestamp", t.timestamps, r.timestamps), ("coordinate", t.positions_xyz, r.positions_xyz),
                     ("quaternion_component", t.orientations_quat_wxyz, r.orientations_quat_wxyz)):
        if not _same_bits(a, b):
            k = int(np.argmax(_bits(a).ravel() != _bits(b).ravel()))
            f.append("TUM:identical_float64_%s (first difference at flat index %d: %r -> %r)" % (
                nm, k, float(np.asarray(a).ravel()[k]), float(np.asarray(b).ravel()[k])))
    return f


def chk_kitti(inp):
    from evo.tools import file_interface as fi
    from evo.core.trajectory import PosePath3D
    rng = np.random.default_rng(inp["seed"])
    n = inp["n"]
    poses = []
    for k in range(n):
        p = np.eye(4)
        p[:3, :4] = _nasty(rng, (3, 4), inp["kind"])
        poses.append(p)
    t = PosePath3D(poses_se3=poses)
    d = P.workdir("C06")
    if inp["handle"]:
        buf = io.StringIO()
        fi.write_kitti_poses_file(buf, t)
        buf.seek(0)
        r = fi.read_kitti_poses_file(buf)
    else:
        p = os.path.join(d, "k_%d.kitti" % inp["seed"])
        fi.write_kitti_poses_file(p, t)
        r = fi.read_kitti_poses_file(p)
    if r.num_poses != n:
        return ["same_number_of_poses"]
    if not _same_bits(np.array(t.poses_se3)[:, :3, :], np.array(r.poses_se3)[:, :3, :]):
        return ["KITTI:identical_float64_matrix_entries"]
    return []


def chk_result(inp):
    from evo.tools import file_interface as fi
    from evo.core import result
    rng = np.random.default_rng(inp["seed"])
    r = result.Result()
    info = {"title": "APE w.r.t. translation part (m) äöü 中文 \U0001F916", "ref_name": "ref/α.tum", "label": "x"}
    r.add_info(info)
    stats = {k: float(v) for k, v in zip(["rmse", "mean", "median", "std", "min", "max", "sse"], _nasty(rng, (7, ), inp["kind"]))}
    r.add_stats(stats)
    arrays = {"error_array": _nasty(rng, (inp["n"], ), inp["kind"]), "timestamps": 1.6e9 + np.cumsum(rng.random(inp["n"])),
              "alignment_transformation_sim3": _nasty(rng, (4, 4), "digits")}
    if inp["seed"] % 2:
        # names are arbitrary strings: dots, a common prefix before the first dot
        arrays["error_array.trans"] = _nasty(rng, (inp["n"], ), inp["kind"])
        arrays["error_array.rot.v2"] = _nasty(rng, (3, ), inp["kind"])
    for k, v in arrays.items():
        r.add_np_array(k, v)
    trajs = {}
    if inp["with_traj"]:
        trajs = {"traj_est": _traj(rng, inp["n"], inp["kind"]), "path_ref": _traj(rng, inp["n"], inp["kind"], stamps=False)}
        if inp["seed"] % 2:
            trajs["estimate.txt"] = _traj(rng, inp["n"], inp["kind"])
            trajs["poses.v2"] = _traj(rng, inp["n"], inp["kind"], stamps=False)
        for k, v in trajs.items():
            r.add_trajectory(k, v)
    d = P.workdir("C06")
    if inp["handle"]:
        buf = io.BytesIO()
        fi.save_res_file(buf, r)
        buf.seek(0)
        back = fi.load_res_file(buf, load_trajectories=inp["with_traj"])
    else:
        p = os.path.join(d, "r_%d.zip" % inp["seed"])
        if os.path.exists(p):
            os.remove(p)
        fi.save_res_file(p, r)
        back = fi.load_res_file(p, load_trajectories=inp["with_traj"])
    f = []
    if back.info != info:
        f.append("result:info_strings_identical (unicode)")
    if set(back.stats) != set(stats) or any(not _same_bits(stats[k], back.stats[k]) for k in stats if k in back.stats):
        f.append("result:identical_float64_statistics")
    if set(back.np_arrays) != set(arrays) or any(not _same_bits(arrays[k], back.np_arrays[k]) for k in arrays if k in back.np_arrays):
        f.append("result:identical_float64_error_values_and_arrays")
    if inp["with_traj"]:
        if set(back.trajectories) != set(trajs):
            f.append("result:embedded_trajectories_present %s" % sorted(back.trajectories))
        else:
            for k, t in trajs.items():
                b = back.trajectories[k]
                if type(b) is not type(t) or not _same_bits(t.positions_xyz, b.positions_xyz) or (
                        hasattr(t, "timestamps") and not _same_bits(t.timestamps, b.timestamps)):
                    f.append("result:embedded_trajectory_identical[%s]" % k)
                elif hasattr(t, "timestamps") and not _same_bits(t.orientations_quat_wxyz, b.orientations_quat_wxyz):
                    f.append("result:embedded_trajectory_quaternions_identical[%s]" % k)
                elif not hasattr(t, "timestamps") and not _same_bits(np.array(t.poses_se3)[:, :3, :], np.array(b.poses_se3)[:, :3, :]):
                    f.append("result:embedded_path_matrices_identical[%s]" % k)
    elif back.trajectories:
        f.append("result:no_trajectories_loaded_unless_requested")
    return f


def chk_pandas(inp):
    from evo.tools import pandas_bridge as pb
    from evo.core.trajectory import PoseTrajectory3D, PosePath3D
    rng = np.random.default_rng(inp["seed"])
    t = _traj(rng, inp["n"], inp["kind"], stamps=inp["stamps"])
    b = pb.df_to_trajectory(pb.trajectory_to_df(t))
    f = []
    if type(b) is not type(t) or b.num_poses != t.num_poses:
        return ["pandas:same_kind_and_number_of_poses (%s -> %s)" % (type(t).__name__, type(b).__name__)]
    if not _same_bits(t.positions_xyz, b.positions_xyz) or not _same_bits(t.orientations_quat_wxyz, b.orientations_quat_wxyz):
        f.append("pandas:identical_float64_coordinates_and_quaternions")
    if inp["stamps"] and not _same_bits(t.timestamps, b.timestamps):
        f.append("pandas:identical_float64_timestamps")
    return f


CHECKERS = {"tum": chk_tum, "kitti": chk_kitti, "result": chk_result, "pandas": chk_pandas}
KINDS = ["digits", "extreme", "negzero", "ulp", "normal"]


def _cases(tier, seed):
    rng = np.random.default_rng(seed + 606)
    K = 1 if tier == "quick" else 15
    # the large files exceed 1 MiB also in the quick tier (a size-dependent reader path must be exercised: seed C06-c)
    big = [100000] if tier == "thorough" else [12000]
    kbig = 40000 if tier == "thorough" else 6000
    for it in range(100 * K):
        n = int(rng.integers(1, 200)) if it else big[0]
        yield ("tum", {"seed": int(rng.integers(0, 10**9)), "n": n, "kind": KINDS[it % 5], "handle": it % 3 == 1})
    for it in range(60 * K):
        yield ("kitti", {"seed": int(rng.integers(0, 10**9)), "n": int(rng.integers(1, 120)) if it else kbig, "kind": KINDS[it % 5],
                         "handle": it % 3 == 1})
    for it in range(50 * K):
        yield ("result", {"seed": int(rng.integers(0, 10**9)), "n": int(rng.integers(1, 150)), "kind": KINDS[it % 5],
                          "with_traj": it % 2 == 0, "handle": it % 4 == 1})
    for it in range(50 * K):
        yield ("pandas", {"seed": int(rng.integers(0, 10**9)), "n": int(rng.integers(1, 150)), "kind": KINDS[it % 5], "stamps": it % 3 != 0})


def bounded(tier, seed):
    return B.run(CHECKERS, _cases(tier, seed),
                 rule="write -> read of TUM files, KITTI files, result archives (with / without embedded trajectories) and the pandas "
                      "conversion, path and handle variants; values with all 17 significant digits, magnitudes 1e-300..1e+300, "
                      "negative zero, one-ulp neighbours of integers, epoch timestamps with nanosecond fractions, unicode info "
                      "strings; 1..200 poses plus one TUM file of %s poses and one KITTI file of %s poses read through their paths "
                      "(both larger than 1 MiB); compared bit for bit (uint64 view)" % (
                          ("100000", "40000") if tier == "thorough" else ("12000", "6000")),
                 bounds={"seed": seed})


def concretize(vc, tier, seed):
    r = bounded("quick", seed + 1)
    if r["violations"]:
        v = r["violations"][0]
        return {"checker": v["checker"], "input": v["input"], "failed": v["failed"]}
    return None
