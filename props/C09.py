"""C09 -- Lie-group helpers satisfy the group laws on all of SO(3), SE(3) and Sim(3)."""
import math

import numpy as np

from pyvc import bounded as B

ID = "C09"
LEVEL = "proof"
LEVEL_TEXT = ("every function of evo/core/lie_algebra.py named by the property is verified for all inputs against a sidecar "
              "contract (VCs from the real AST), and the group laws (P*P^-1=I, rel(A,B)=A^-1*B, rel(A,A)=I, Sim(3) inverse and "
              "scale, hat/vee, membership accept/reject classes, range/symmetry/bi-invariance of the angle) are lemmas over those "
              "contracts discharged by z3/cvc5/Groebner; exp/log, triangle inequality and floating-point behaviour near 0 and pi "
              "are bounded stand-ins only")
LEVEL_NOTE = ("floats as reals (A1); trusted: scipy Rotation (|rotvec| = arccos((tr R-1)/2)), numpy allclose/det/power; "
              "bounded part: 3200 (quick) random group elements incl. angles within 1e-12 of 0 and pi")
SIDECARS = ["contracts.lie_algebra", "contracts.lemmas_lie"]
M = "evo.core.lie_algebra."
FUNCTIONS = [M + f for f in ("hat", "vee", "se3_inverse", "relative_se3", "relative_so3", "sim3_scale",
                             "sim3_inverse", "is_so3", "is_se3", "is_sim3", "so3_log_angle")]
LEMMAS = ["hat_vee_inverse", "se3_inverse_is_group_inverse", "relative_se3_laws", "relative_so3_laws",
          "se3_closed_under_product", "sim3_scale_recovered", "sim3_inverse_is_inverse",
          "membership_accepts_genuine", "membership_accepts_sim3", "membership_rejects",
          "membership_rejects_scaled", "angle_metric_laws", "angle_zero_for_equal",
          "angle_bi_invariant"]
TRUSTED = ["scipy Rotation.from_matrix(R).as_rotvec(): |rotvec| = arccos((tr R - 1)/2)  [bounded-checked vs mpmath]",
           "scipy Rotation.from_rotvec(v).as_matrix() in SO(3)", "numpy.power(x, 1/3) = real cube root for x > 0",
           "numpy.allclose(a, b, atol) <=> |a-b| <= atol + 1e-5|b|", "numpy.linalg.det = cofactor expansion"]
ASSUMPTIONS = [
    "exp/log mutual inverse, hat/vee with return_skew, the triangle inequality and 'zero only for equal rotations' of "
    "the angle are statements about scipy / arccos: bounded stand-in only (coverage.bounded)",
    "is_sim3 with non-positive determinant (NaN cube root) is covered by the bounded run only",
]
EXPLANATION = ("every listed function of evo/core/lie_algebra.py is executed symbolically (real AST) against its sidecar "
               "contract; the group laws are lemmas over those contracts discharged by z3 / Groebner bases")


def _lie():
    from evo.core import lie_algebra
    return lie_algebra


def chk_exp_log(inp):
    lie = _lie()
    R = np.array(inp["R"])
    fails = []
    v = lie.so3_log(R)
    R2 = lie.so3_exp(v)
    if not B.rel_close(R, R2, 1e-9):
        fails.append("exp(log(R))==R max err %.3g" % np.abs(R - R2).max())
    ang = float(np.linalg.norm(v))
    if not (0.0 <= ang <= math.pi + 1e-12):
        fails.append("angle_range %r" % ang)
    a2 = lie.so3_log_angle(R)
    if abs(a2 - ang) > 1e-12:
        fails.append("so3_log_angle==|so3_log| %r %r" % (a2, ang))
    c = (np.trace(R) - 1) / 2
    ref = math.acos(max(-1.0, min(1.0, c)))
    # conditioning of arccos near 0 and pi: compare cosines when the angle is ill-conditioned
    if abs(math.cos(a2) - max(-1.0, min(1.0, c))) > 1e-9 and abs(a2 - ref) > 1e-7:
        fails.append("angle==arccos((tr-1)/2) %r %r" % (a2, ref))
    if ang < math.pi - 1e-6:
        v2 = lie.so3_log(lie.so3_exp(v))
        if not B.rel_close(v, v2, 1e-9, scale=max(1.0, ang)):
            fails.append("log(exp(v))==v")
    sk = lie.so3_log(R, return_skew=True)
    if not np.array_equal(lie.vee(sk), v) or not np.array_equal(lie.hat(v), sk):
        fails.append("hat/vee with return_skew")
    return fails


def chk_hat_vee(inp):
    lie = _lie()
    v = np.array(inp["v"])
    f = []
    if not np.array_equal(lie.vee(lie.hat(v)), v):
        f.append("vee(hat(v))==v")
    m = lie.hat(v)
    if not np.array_equal(lie.hat(lie.vee(m)), m):
        f.append("hat(vee(m))==m")
    if not np.array_equal(m, -m.T):
        f.append("hat(v) skew")
    return f


def chk_se3(inp):
    lie = _lie()
    P, Q = np.array(inp["P"]), np.array(inp["Q"])
    f = []
    inv = lie.se3_inverse(P)
    scale = max(1.0, float(np.abs(P[:3, 3]).max()))
    if not B.rel_close(P @ inv, np.eye(4), 1e-9, scale) or not B.rel_close(inv @ P, np.eye(4), 1e-9, scale):
        f.append("P*inv(P)==I")
    if not B.rel_close(lie.relative_se3(P, P), np.eye(4), 1e-9, scale):
        f.append("rel(P,P)==I")
    rel = lie.relative_se3(P, Q)
    scale2 = max(scale, float(np.abs(Q[:3, 3]).max()))
    if not B.rel_close(P @ rel, Q, 1e-9, scale2):
        f.append("P*rel(P,Q)==Q")
    if not lie.is_se3(P) or not lie.is_so3(P[:3, :3]):
        f.append("is_se3 accepts genuine")
    return f


def chk_sim3(inp):
    lie = _lie()
    R, t, s = np.array(inp["R"]), np.array(inp["t"]), inp["s"]
    a = lie.sim3(R, t, s)
    f = []
    s2 = lie.sim3_scale(a)
    if abs(s2 - s) > 1e-9 * s:
        f.append("scale_recovered %r %r" % (s2, s))
    inv = lie.sim3_inverse(a)
    scale = max(1.0, float(np.abs(t).max()), s, 1 / s, float(np.abs(inv[:3, 3]).max()))
    if not B.rel_close(a @ inv, np.eye(4), 1e-9, scale) or not B.rel_close(inv @ a, np.eye(4), 1e-9, scale):
        f.append("S*inv(S)==I")
    if abs(lie.sim3_scale(inv) * s - 1) > 1e-9:
        f.append("scale(inv(S))==1/s")
    if not lie.is_sim3(a):
        f.append("is_sim3 accepts genuine")
    if not lie.is_sim3(a, s):
        f.append("is_sim3(a, s) accepts genuine")
    neg = a.copy()
    neg[:3, :3] = -neg[:3, :3]
    with np.errstate(all="ignore"):
        if lie.is_sim3(neg):
            f.append("is_sim3 rejects non-positive determinant")
    return f


def chk_metric(inp):
    lie = _lie()
    R1, R2, R3, A = (np.array(inp[k]) for k in ("R1", "R2", "R3", "A"))

    def d(X, Y):
        return lie.so3_log_angle(lie.relative_so3(X, Y))
    f = []
    d12, d21, d23, d13 = d(R1, R2), d(R2, R1), d(R2, R3), d(R1, R3)
    for x in (d12, d23, d13):
        if not (0.0 <= x <= math.pi + 1e-12):
            f.append("range %r" % x)
    # the angle is ill-conditioned near 0 and pi (arccos): sqrt(eps)-sized guard band
    tol = 1e-7
    if abs(d12 - d21) > tol:
        f.append("symmetric %r %r" % (d12, d21))
    if d(R1, R1) > tol:
        f.append("zero_for_equal")
    if d13 > d12 + d23 + tol:
        f.append("triangle %r > %r + %r" % (d13, d12, d23))
    if abs(d(A @ R1, A @ R2) - d12) > tol or abs(d(R1 @ A, R2 @ A) - d12) > tol:
        f.append("bi_invariant")
    if d12 < 1e-9 and np.abs(R1 - R2).max() > 1e-6:
        f.append("zero_only_for_equal")
    return f


def chk_membership(inp):
    lie = _lie()
    M_ = np.array(inp["M"])
    kind = inp["kind"]
    f = []
    P = np.eye(4)
    P[:3, :3] = M_
    with np.errstate(all="ignore"):
        acc = bool(lie.is_so3(M_))
        acc4 = bool(lie.is_se3(P))
    want = inp["accept"]
    if want is not None and acc != want:
        f.append("is_so3(%s) expected %s" % (kind, want))
    if want is not None and acc4 != want:
        f.append("is_se3(%s) expected %s" % (kind, want))
    if "row" in inp:
        P2 = np.eye(4)
        P2[:3, :3] = np.array(inp["R"])
        P2[3, :] = inp["row"]
        ok_row = list(inp["row"]) == [0.0, 0.0, 0.0, 1.0]
        with np.errstate(all="ignore"):
            if bool(lie.is_se3(P2)) != ok_row or bool(lie.is_sim3(P2)) != ok_row:
                f.append("bottom_row %r" % (inp["row"], ))
    return f


CHECKERS = {"exp_log": chk_exp_log, "hat_vee": chk_hat_vee, "se3": chk_se3, "sim3": chk_sim3,
            "metric": chk_metric, "membership": chk_membership}


def _cases(tier, seed):
    rng = np.random.default_rng(seed + 909)
    n = 600 if tier == "quick" else 20000
    for i in range(n):
        yield ("exp_log", {"R": B.rand_rotation(rng)})
    for i in range(n // 3):
        yield ("hat_vee", {"v": rng.normal(size=3) * 10.0**rng.uniform(-6, 6)})
    for i in range(n):
        yield ("se3", {"P": B.rand_se3(rng, tmag=(-6, 9)), "Q": B.rand_se3(rng, tmag=(-6, 9))})
    for i in range(n):
        yield ("sim3", {"R": B.rand_rotation(rng), "t": B.rand_translation(rng, -6, 9),
                        "s": float(10.0**rng.uniform(-4, 4))})
    for i in range(n):
        yield ("metric", {"R1": B.rand_rotation(rng), "R2": B.rand_rotation(rng), "R3": B.rand_rotation(rng),
                          "A": B.rand_rotation(rng, "uniform")})
    for i in range(n):
        R = B.rand_rotation(rng, "uniform")
        k = int(rng.integers(0, 5))
        if k == 0:
            yield ("membership", {"M": R, "kind": "genuine", "accept": True})
        elif k == 1:
            Rf = R.copy()
            Rf[:, 0] *= -1
            yield ("membership", {"M": Rf, "kind": "reflection", "accept": False})
        elif k == 2:
            # scaled at controlled distance on both sides of the tolerance: |s^3-1| vs 1.1e-5 and orthogonality 1e-6
            e = float(10.0**rng.uniform(-9, -2)) * (1 if rng.integers(0, 2) else -1)
            s = 1 + e
            # is_so3 accepts iff |s^3-1| <= 1.1e-5 and |s^2-1| <= 1.1e-5 (diag) ; keep away from the edge by 20%
            m = max(abs(s**3 - 1), abs(s * s - 1) * 1.0)
            want = True if m < 0.8 * 1.1e-5 and abs(s * s - 1) < 0.8 * 1.1e-5 else (False if abs(s**3 - 1) > 1.2 * 1.1e-5 else None)
            yield ("membership", {"M": R * s, "kind": "scaled(1%+.2e)" % e, "accept": want})
        elif k == 3:
            sh = np.eye(3)
            e = float(10.0**rng.uniform(-9, -2))
            sh[0, 1] = e
            want = True if e < 0.5e-6 else (False if e > 2e-5 else None)
            yield ("membership", {"M": R @ sh, "kind": "sheared(%.2e)" % e, "accept": want})
        else:
            row = [0.0, 0.0, 0.0, 1.0]
            j = int(rng.integers(0, 5))
            if j < 4:
                row[j] += float(10.0**rng.uniform(-15, 0))
            yield ("membership", {"M": R, "kind": "row", "accept": True, "R": R, "row": row})


def bounded(tier, seed):
    return B.run(CHECKERS, _cases(tier, seed),
                 rule="random group elements from the classes of the quantifier (uniform / axis-aligned / angle 1e-16..1e-3 / "
                      "pi-1e-12..pi / identity), translations 1e-6..1e9, scales 1e-4..1e4, rotation triples, near-miss "
                      "matrices on both sides of the tolerance; a case is non-trivial if its input differs from all earlier ones",
                 bounds={"cases_per_checker": 600 if tier == "quick" else 20000, "seed": seed})


def concretize(vc, tier, seed):
    """a refuted obligation: look for a concrete failing input of the real code with the bounded checkers"""
    r = bounded("quick", seed + 1)
    if r["violations"]:
        v = r["violations"][0]
        return {"checker": v["checker"], "input": v["input"], "failed": v["failed"]}
    return None
