"""C15 -- evo_traj applies its options in the documented order and exports the result."""
import os
import numpy as np
from pyvc import bounded as B
from props import pipeline as P
from contracts import overwrite as _ow

ID = "C15"
LEVEL = "proof"
LEVEL_TEXT = ("main_traj.run is executed symbolically for 13 option combinations with the trajectory operations replaced by "
              "recording stand-ins (the effect of each operation is its own contract: C05, C08, C04, C11, C14): down-sampling "
              "and motion filtering reach every trajectory and the reference first; then merge, time offset (never the "
              "reference), association with the reference, alignment (correct_only_scale = correct_scale and not align, the "
              "requested n), origin alignment, the loaded transformation (after alignment, before projection; left/right and "
              "propagate as requested; when inverted, the result of sim3_inverse, or of se3_inverse only for a matrix accepted "
              "by is_se3), projection of trajectories and reference, export under the file stem; the reference is only "
              "down-sampled, filtered, projected and exported.  End-to-end runs on files against a pipeline composed from "
              "evo's primitives with numpy's matrix inverse: bounded stand-in.")
LEVEL_NOTE = ("wiring proof over an event log: operations are recording stand-ins, so what is proved is order, receivers and "
              "arguments; se3_inverse / sim3_inverse being true inverses is C09; loading (KITTI / EuRoC / bag sub-commands), "
              "plotting and bag export branches are not executed symbolically")
SIDECARS = ["contracts.lie_algebra", "contracts.geometry", "contracts.filters", "contracts.umeyama", "contracts.trajectory",
            "contracts.overwrite", "contracts.traj_cli"]
OVERRIDES = _ow.OVERRIDES
FUNCTIONS = ["evo.main_traj.run"]
LEMMAS = []
TRUSTED = ["argparse namespace as given", "recording stand-ins for trajectory methods, sync.associate_trajectories, trajectory.merge, file readers / writers"]
ASSUMPTIONS = ["option combinations enumerated (13 cases), not quantified", "the loaded matrix is a valid SE(3)/Sim(3) matrix (C07: load_transform refuses others)"]
EXPLANATION = "event-order contract on run(); effects delegated to the per-operation contracts"


def _spec(ref, trajs, o, T):
    """the documented processing order, composed from evo's own primitives on copies; T already inverted if requested"""
    import copy
    from evo.core import sync, trajectory
    from evo.core.trajectory import Plane
    ref = copy.deepcopy(ref) if ref is not None else None
    trajs = {k: copy.deepcopy(v) for k, v in trajs.items()}
    everything = list(trajs.values()) + ([ref] if ref is not None else [])
    if o.get("downsample"):
        for t in everything:
            t.downsample(o["downsample"])
    if o.get("motion_filter"):
        for t in everything:
            t.motion_filter(o["motion_filter"][0], o["motion_filter"][1], True)
    if o.get("merge"):
        trajs = {"merged_trajectory": trajectory.merge(list(trajs.values()))}
    if o.get("t_offset"):
        for t in trajs.values():
            t.timestamps = t.timestamps + o["t_offset"]
    if any(o.get(k) for k in ("sync", "align", "correct_scale", "align_origin")):
        for k in list(trajs):
            r2, t2 = sync.associate_trajectories(ref, trajs[k], max_diff=o.get("t_max_diff", 0.01))
            if o.get("align") or o.get("correct_scale"):
                t2.align(r2, correct_scale=bool(o.get("correct_scale")),
                         correct_only_scale=bool(o.get("correct_scale")) and not o.get("align"), n=o.get("n_to_align", -1))
            if o.get("align_origin"):
                t2.align_origin(r2)
            trajs[k] = t2
    if T is not None:
        for t in trajs.values():
            t.transform(T, right_mul=bool(o.get("transform_right")), propagate=bool(o.get("propagate_transform")))
    if o.get("project_to_plane"):
        for t in list(trajs.values()) + ([ref] if ref is not None else []):
            t.project(Plane(o["project_to_plane"]))
    return ref, trajs


def chk_pipeline(inp):
    import logging
    from evo import main_traj, main_traj_parser
    from evo.tools import file_interface as fi
    from evo.core import lie_algebra as lie
    rng = np.random.default_rng(inp["seed"])
    o = inp["opts"]
    d = os.path.join(P.workdir("C15"), "run_%d" % inp["seed"])
    os.makedirs(os.path.join(d, "in"), exist_ok=True)
    os.makedirs(os.path.join(d, "out"), exist_ok=True)
    n = inp["n"]
    ref, a = P.rand_pair(rng, n, noise=0.05, scale=1.0)
    _, b = P.rand_pair(rng, n, noise=0.05)
    b.timestamps = a.timestamps + 0.0013
    b = type(b)(b.positions_xyz, b.orientations_quat_wxyz, b.timestamps)
    files = {"a": a, "b": b} if inp["two"] else {"a": a}
    for k, t in list(files.items()) + [("ref", ref)]:
        P.write_tum(os.path.join(d, "in", k + ".tum"), t)
    # what evo_traj loads
    loaded = {k: fi.read_tum_trajectory_file(os.path.join(d, "in", k + ".tum")) for k in files}
    ref_l = fi.read_tum_trajectory_file(os.path.join(d, "in", "ref.tum")) if inp["with_ref"] else None
    argv = ["tum"] + [os.path.join(d, "in", k + ".tum") for k in files]
    if inp["with_ref"]:
        argv += ["--ref", os.path.join(d, "in", "ref.tum")]
    T_eff = None
    if o.get("transform"):
        T = B.rand_se3(rng, "uniform")
        s = o.get("scale", 1.0)
        T[:3, :3] *= s
        tp = os.path.join(d, "in", "T." + o["transform_fmt"])
        if o["transform_fmt"] == "npy":
            np.save(tp, T)
        elif o["transform_fmt"] == "txt":
            np.savetxt(tp, T)
        else:
            import math
            import json
            R = T[:3, :3] / s
            w = math.sqrt(max(1e-12, 1 + R[0, 0] + R[1, 1] + R[2, 2])) / 2
            if w < 0.1:
                return []
            json.dump(dict(x=T[0, 3], y=T[1, 3], z=T[2, 3], qw=w, qx=(R[2, 1] - R[1, 2]) / (4 * w), qy=(R[0, 2] - R[2, 0]) / (4 * w),
                           qz=(R[1, 0] - R[0, 1]) / (4 * w), scale=s), open(tp, "w"))
        T = fi.load_transform(tp)
        argv += ["--transform_right" if o.get("transform_right") else "--transform_left", tp]
        if o.get("invert_transform"):
            argv.append("--invert_transform")
            T_eff = np.linalg.inv(T)          # the true inverse, independent of evo's helpers
        else:
            T_eff = T
        if o.get("propagate_transform"):
            argv.append("--propagate_transform")
    for k in ("downsample", "t_offset", "n_to_align", "project_to_plane", "t_max_diff"):
        if o.get(k) is not None and o.get(k) is not False:
            argv += ["--" + k, str(o[k])]
    if o.get("motion_filter"):
        argv += ["--motion_filter", str(o["motion_filter"][0]), str(o["motion_filter"][1])]
    for k in ("merge", "sync", "align", "correct_scale", "align_origin"):
        if o.get(k):
            argv.append("--" + k)
    argv += ["--save_as_tum", "--save_as_kitti", "--no_warnings", "--silent"]
    import contextlib
    import io
    try:
        with contextlib.redirect_stderr(io.StringIO()):
            args = main_traj_parser.parser().parse_args(argv)
    except SystemExit:
        return []
    cwd = os.getcwd()
    logging.disable(logging.CRITICAL)
    os.chdir(os.path.join(d, "out"))
    try:
        main_traj.run(args)
    except SystemExit:
        return []                       # evo_traj refused the combination (e.g. alignment without --ref)
    finally:
        os.chdir(cwd)
        logging.disable(logging.NOTSET)
    from evo import EvoException
    try:
        ref_s, tr_s = _spec(ref_l, loaded, dict(o, transform_right=o.get("transform_right") and o.get("transform")), T_eff)
    except EvoException:
        return []
    f = []
    exp = {("merged_trajectory" if o.get("merge") else k): v for k, v in tr_s.items()}
    if ref_s is not None:
        exp["ref"] = ref_s
    for stem, t in exp.items():
        p = os.path.join(d, "out", stem + ".tum")
        if not os.path.exists(p):
            f.append("exports_every_processed_trajectory[%s.tum missing]" % stem)
            continue
        g = fi.read_tum_trajectory_file(p)
        scale = max(1.0, float(np.abs(t.positions_xyz).max()))
        if g.num_poses != t.num_poses:
            f.append("exported_%s_has_the_poses_of_the_documented_pipeline: %d != %d poses" % (stem, g.num_poses, t.num_poses))
        elif not (np.allclose(g.timestamps, t.timestamps, rtol=0, atol=1e-7) and
                  np.allclose(g.positions_xyz, t.positions_xyz, rtol=0, atol=1e-9 * scale) and
                  np.allclose(np.array(g.poses_se3), np.array(t.poses_se3), rtol=0, atol=1e-8 * scale)):
            f.append("exported_%s_equals_the_inputs_processed_in_the_documented_order (options %s)" % (stem, sorted(
                k for k, v in o.items() if v)))
        pk = os.path.join(d, "out", stem + ".kitti")
        if os.path.exists(pk):
            gk = fi.read_kitti_poses_file(pk)
            if gk.num_poses != t.num_poses or not np.allclose(np.array(gk.poses_se3), np.array(t.poses_se3), rtol=0,
                                                               atol=1e-8 * scale):
                f.append("exported_%s.kitti_equals_the_documented_pipeline" % stem)
        else:
            f.append("exports_every_processed_trajectory[%s.kitti missing]" % stem)
    import shutil
    shutil.rmtree(d, ignore_errors=True)
    return f


CHECKERS = {"pipeline": chk_pipeline}


def _cases(tier, seed):
    rng = np.random.default_rng(seed + 1515)
    yield ("pipeline", {"seed": 1, "n": 30, "two": True, "with_ref": True, "opts": {}})
    yield ("pipeline", {"seed": 2, "n": 30, "two": False, "with_ref": False, "opts": {}})
    K = 90 if tier == "quick" else 2500
    for it in range(K):
        o = {}
        pick = lambda p: bool(rng.random() < p)
        if pick(0.3):
            o["downsample"] = int(rng.integers(5, 25))
        if pick(0.3):
            o["motion_filter"] = [float(rng.choice([0.05, 0.3])), float(rng.choice([1.0, 8.0]))]
        two = pick(0.5)
        if two and pick(0.25):
            o["merge"] = True
        if pick(0.3):
            o["t_offset"] = float(rng.choice([0.004, -0.003, 0.5]))
            o["t_max_diff"] = 0.6
        with_ref = pick(0.85)
        if with_ref:
            for k, p in (("sync", 0.2), ("align", 0.4), ("correct_scale", 0.3), ("align_origin", 0.25)):
                if pick(p):
                    o[k] = True
            if (o.get("align") or o.get("correct_scale")) and pick(0.3):
                o["n_to_align"] = int(rng.integers(3, 9))
        if pick(0.55):
            o["transform"] = True
            o["transform_fmt"] = ["npy", "txt", "json"][int(rng.integers(3))]
            o["scale"] = float(rng.choice([1.0, 1.0, 2.0, 0.5]))
            o["transform_right"] = pick(0.5)
            o["invert_transform"] = pick(0.6)
            o["propagate_transform"] = pick(0.3)
        if pick(0.35):
            o["project_to_plane"] = ["xy", "xz", "yz"][int(rng.integers(3))]
        yield ("pipeline", {"seed": int(rng.integers(0, 10**9)), "n": int(rng.integers(12, 40)), "two": two, "with_ref": with_ref,
                            "opts": o})


def bounded(tier, seed):
    return B.run(CHECKERS, _cases(tier, seed),
                 rule="evo_traj tum on 1..2 trajectory files (+ reference) with random combinations of --downsample, "
                      "--motion_filter, --merge, --t_offset, --sync, --align, --correct_scale, --n_to_align, --align_origin, "
                      "--transform_left/right (SE(3) and Sim(3) matrices as npy / txt / json), --invert_transform, "
                      "--propagate_transform, --project_to_plane; exported TUM and KITTI files compared with the documented "
                      "pipeline composed from evo's primitives (inverse by numpy.linalg.inv)", bounds={"seed": seed})


def concretize(vc, tier, seed):
    r = bounded("quick", seed + 1)
    if r["violations"]:
        v = r["violations"][0]
        return {"checker": v["checker"], "input": v["input"], "failed": v["failed"]}
    return None
