"""Shared generators and oracles for the bounded (run-time) parts of C01, C02, C04, C12, C15."""
import copy
import math
import os

import numpy as np

from pyvc import bounded as B


def rand_pair(rng, n, noise=0.05, scale=1.0, stamps=True, from_poses=False, offset=None, rot_kind=None):
    """a reference trajectory and an estimate = similarity-transformed + noisy copy (synchronised, n poses)"""
    from evo.core.trajectory import PoseTrajectory3D, PosePath3D
    from evo.core import transformations as tr
    ref_poses = []
    p = np.eye(4)
    if offset is not None:
        p[:3, 3] = offset
    for k in range(n):
        step = B.rand_se3(rng, rot_kind if rot_kind else ("uniform" if k % 3 else "tiny"), tmag=(-1, 0.5))
        step[:3, :3] = B.rodrigues(rng.normal(size=3) / max(1e-12, np.linalg.norm(rng.normal(size=3))) if False else
                                   _unit(rng), float(rng.uniform(0, 0.4)))
        p = p @ step
        ref_poses.append(p.copy())
    T = B.rand_se3(rng, "uniform", tmag=(-1, 1))
    est_poses = []
    for q in ref_poses:
        e = T @ q
        e[:3, 3] = e[:3, 3] / scale
        if noise:
            e[:3, 3] += rng.normal(size=3) * noise
            e[:3, :3] = e[:3, :3] @ B.rodrigues(_unit(rng), float(rng.normal() * noise * 0.2))
        est_poses.append(e)
    ts = np.cumsum(rng.uniform(0.05, 0.15, size=n)) + (1.5e9 if rng.random() < 0.2 else 0.0)
    if stamps:
        ref = PoseTrajectory3D(poses_se3=ref_poses, timestamps=ts.copy())
        est = PoseTrajectory3D(poses_se3=est_poses, timestamps=ts.copy())
    else:
        ref = PosePath3D(poses_se3=ref_poses)
        est = PosePath3D(poses_se3=est_poses)
    if not from_poses:
        ref, est = rebuild_from_xyz_quat(ref), rebuild_from_xyz_quat(est)
    return ref, est


def _unit(rng):
    v = rng.normal(size=3)
    return v / np.linalg.norm(v)


def rebuild_from_xyz_quat(t):
    from evo.core.trajectory import PoseTrajectory3D, PosePath3D
    if hasattr(t, "timestamps"):
        return PoseTrajectory3D(t.positions_xyz.copy(), t.orientations_quat_wxyz.copy(), t.timestamps.copy())
    return PosePath3D(t.positions_xyz.copy(), t.orientations_quat_wxyz.copy())


def rel(a, b):
    inv = np.eye(4)
    inv[:3, :3] = a[:3, :3].T
    inv[:3, 3] = -a[:3, :3].T @ a[:3, 3]
    return inv @ b


def angle_of(R):
    return math.acos(max(-1.0, min(1.0, (np.trace(R) - 1.0) / 2.0)))


def reduce_value(relation, E):
    if relation == "full_transformation":
        return float(np.linalg.norm(E - np.eye(4)))
    if relation == "rotation_part":
        return float(np.linalg.norm(E[:3, :3] - np.eye(3)))
    if relation == "translation_part":
        return float(np.linalg.norm(E[:3, 3]))
    if relation == "rotation_angle_rad":
        return angle_of(E[:3, :3])
    if relation == "rotation_angle_deg":
        return math.degrees(angle_of(E[:3, :3]))
    raise ValueError(relation)


def angle_close(a, b, deg=False):
    """angles compared with the conditioning of arccos near 0 and pi in mind"""
    if deg:
        a, b = math.radians(a), math.radians(b)
    if abs(a - b) <= 1e-9:
        return True
    return abs(math.cos(a) - math.cos(b)) <= 1e-12 and abs(a - b) <= 2e-6


def close(a, b, tol=1e-9):
    s = max(1.0, abs(a), abs(b))
    return abs(a - b) <= tol * s


def ape_oracle(relation, ref_poses, est_poses):
    out = []
    for e, r in zip(est_poses, ref_poses):
        if relation in ("translation_part", "point_distance"):
            out.append(float(np.linalg.norm(e[:3, 3] - r[:3, 3])))
        else:
            out.append(reduce_value(relation, rel(e, r)))
    return out


def values_match(relation, got, exp, scale=1.0):
    if len(got) != len(exp):
        return "count %d != %d" % (len(got), len(exp))
    for k, (g, x) in enumerate(zip(got, exp)):
        if relation == "ratio":
            ok = abs(g - x) <= 1e-6 * max(1.0, abs(x))
        elif relation.startswith("rotation_angle"):
            ok = angle_close(g, x, relation.endswith("deg"))
        else:
            ok = abs(g - x) <= 1e-9 * max(1.0, scale, abs(x))
        if not ok:
            return "value %d: %r != %r" % (k, g, x)
    return None


def spec_pipeline(ref, est, align=False, correct_scale=False, n_to_align=-1, align_origin=False, plane=None):
    """the documented processing order, composed from evo's own primitives on deep copies:
    alignment -> origin alignment -> projection of both.  Returns processed copies."""
    ref, est = copy.deepcopy(ref), copy.deepcopy(est)
    if align or correct_scale:
        est.align(ref, correct_scale, correct_scale and not align, n=n_to_align)
    if align_origin:
        est.align_origin(ref)
    if plane is not None:
        ref.project(plane)
        est.project(plane)
    return ref, est


def write_tum(path, traj):
    mat = np.column_stack([traj.timestamps, traj.positions_xyz, np.roll(traj.orientations_quat_wxyz, -1, axis=1)])
    with open(path, "w") as f:
        for row in mat:
            f.write(" ".join(repr(float(x)) for x in row) + "\n")


_WORKDIRS = {}


def workdir(name):
    """scratch directory private to this process (checks may run side by side); removed when the process ends"""
    key = (name, os.getpid())
    if key not in _WORKDIRS:
        import atexit
        import shutil
        d = os.path.join(os.environ.get("VERIF_ROOT", "/verif"), ".work", "%s_%d" % (name, os.getpid()))
        os.makedirs(d, exist_ok=True)
        _WORKDIRS[key] = d
        atexit.register(shutil.rmtree, d, True)
    return _WORKDIRS[key]
