"""C03 -- Umeyama alignment returns a proper rotation that is least-squares optimal."""
import math

import numpy as np

from pyvc import bounded as B

ID = "C03"
LEVEL = "proof"
LEVEL_TEXT = ("geometry.umeyama_alignment is verified (loop invariant for the covariance sum, trusted SVD contract) for point "
              "sets of any size: the returned rotation is orthonormal with determinant +1 on both branches of the reflection "
              "fix, the scale is exactly 1 without scale estimation, the translation maps centroid onto centroid "
              "(t = mean_y - c r mean_x), unequal sizes and rank-deficient covariances are refused, and the computed "
              "quantities are the formulas of Umeyama's paper (covariance eq. 38, r = U S V eq. 40/43).  Least-squares "
              "optimality, recovery of the generating transformation and equivariance follow from Umeyama's theorem (cited) "
              "and are exercised by the bounded stand-in (independent solver, perturbations).")
LEVEL_NOTE = ("floats as reals; trusted: numpy.linalg.svd (U diag(d) V = A, U and V orthogonal with det +-1, d sorted >= 0), "
              "det; assumed: sigma_x^2 > 0 where the scale divides by it (implied by the rank test; needs induction); "
              "cited: Umeyama 1991 (the formulas minimise the squared residual); scale formula eq. 42 and positivity of "
              "the scale: bounded")
SIDECARS = ["contracts.umeyama"]
FUNCTIONS = ["evo.core.geometry.umeyama_alignment"]
LEMMAS = []
TRUSTED = ["numpy.linalg.svd contract", "numpy.linalg.det", "Umeyama 1991, Lemma + Theorem (optimality of eq. 34-43) -- cited"]
ASSUMPTIONS = ["sigma_x^2 > 0 on the path that divides by it (mathematically implied by the rank test)",
               "optimality / uniqueness / equivariance rest on Umeyama's theorem (cited) and the bounded comparison",
               "exact zeros of the SVD on degenerate point sets are a floating-point fact: bounded"]
EXPLANATION = "running-sum invariant with ghost prefix sums; orthonormality by Groebner bases over the SVD contract"


def _sets(inp):
    rng = np.random.default_rng(inp["seed"])
    n = inp["n"]
    kind = inp["kind"]
    x = rng.normal(size=(3, n)) * 10.0**inp.get("mag", 0)
    if kind == "planar":
        x[2] = 0.0
    elif kind == "near_collinear":
        x[1:] *= 1e-3
    R = B.rand_rotation(rng, "uniform")
    s = inp.get("scale", 1.0)
    t = rng.normal(size=3) * 10.0**inp.get("tmag", 0)
    if inp.get("offset"):
        x = x + np.array([[4.5e5], [5.4e6], [300.0]])
    y = s * (R @ x) + t[:, None]
    if kind == "mirrored":
        y = s * (np.diag([1.0, 1.0, -1.0]) @ R @ x) + t[:, None]
    if inp.get("noise"):
        y = y + rng.normal(size=y.shape) * inp["noise"] * (np.abs(x).max() if not inp.get("offset") else 10.0)
    return x, y, R, t, s, rng


def _resid(x, y, r, t, c):
    return float(np.sum((y - (c * (r @ x) + t[:, None]))**2))


def chk_umeyama(inp):
    from evo.core import geometry
    x, y, R, t, s, rng = _sets(inp)
    ws = inp["with_scale"]
    try:
        r, tt, c = geometry.umeyama_alignment(x, y, ws)
    except geometry.GeometryException:
        return ["refused_a_point_set_that_determines_a_rotation"] if inp["kind"] in ("generic", "noisy") and inp["n"] >= 4 else []
    f = []
    if not np.allclose(r.T @ r, np.eye(3), atol=1e-9) or abs(np.linalg.det(r) - 1) > 1e-9:
        f.append("proper_rotation det=%r" % float(np.linalg.det(r)))
    if not ws and not (isinstance(c, float) and c == 1.0):
        f.append("scale_exactly_1_without_scale_estimation %r" % (c, ))
    if ws and not c > 0:
        f.append("scale_positive")
    base = _resid(x, y, r, tt, c)
    scale_ref = max(1e-30, float(np.sum((y - y.mean(axis=1, keepdims=True))**2)))
    # float64 conditioning of the residual itself: every transformed coordinate carries a rounding error of a few ulps
    # of the coordinate magnitude M (large common offsets!), which moves a sum of n squared distances of total size
    # `base` by at most about 2*sqrt(base)*sqrt(3n)*d + 3n*d^2.  Two optimal solutions can differ by that much.
    M = max(float(np.abs(x).max()), float(np.abs(y).max()), float(np.abs(tt).max()), 1.0)
    d_ = 64 * np.finfo(float).eps * M
    cond = 2 * np.sqrt(max(base, 0.0)) * np.sqrt(3 * x.shape[1]) * d_ + 3 * x.shape[1] * d_ * d_
    # (i) not worse than the generating transformation (when it is in the class) and than perturbations
    cands = []
    if inp["kind"] != "mirrored" and (ws or s == 1.0):
        cands.append((R, t, s if ws else 1.0))
    for _ in range(24):
        dr = B.rodrigues(rng.normal(size=3) / 1.0, 0.0) if False else B.rodrigues(_unit(rng), float(rng.normal() * 0.05))
        cands.append((dr @ r, tt + rng.normal(size=3) * 1e-2 * (1 + np.abs(tt).max()), c * (1 + (rng.normal() * 0.02 if ws else 0.0))))
    for (r2, t2, c2) in cands:
        if _resid(x, y, r2, t2, c2) < base - 1e-9 * scale_ref - 1e-18 - cond:
            f.append("least_squares_optimal: another transformation of the class has a smaller residual")
            break
    # (ii) independent solver (Kabsch via eigen-decomposition of the Horn matrix)
    r_h, t_h, c_h = _horn(x, y, ws)
    if _resid(x, y, r_h, t_h, c_h) < base - 1e-8 * scale_ref - 1e-18 - cond:
        f.append("least_squares_optimal: independent solver finds a smaller residual")
    # (iii) noise-free data: reproduces the generating transformation
    if not inp.get("noise") and inp["kind"] == "generic" and (ws or s == 1.0) and inp["n"] >= 4 and not inp.get("offset"):
        if not (np.allclose(r, R, atol=1e-7) and abs(c - (s if ws else 1.0)) < 1e-7 * max(1, s) and
                np.allclose(tt, t, atol=1e-6 * (1 + np.abs(t).max() + np.abs(x).max() * s))):
            f.append("reproduces_the_generating_transformation")
    # (iv) equivariance under a similarity of the inputs and a permutation (generic, well separated singular values)
    if inp["kind"] in ("generic", "noisy") and inp["n"] >= 5 and not inp.get("offset"):
        A = B.rand_rotation(rng, "uniform")
        perm = rng.permutation(inp["n"])
        r3, t3, c3 = geometry.umeyama_alignment(x[:, perm], (A @ y)[:, perm], ws)
        if not np.allclose(r3, A @ r, atol=1e-6) or abs(c3 - c) > 1e-6 * max(1.0, abs(c)):
            f.append("equivariant_under_motion_and_permutation")
    return f


def _unit(rng):
    v = rng.normal(size=3)
    return v / np.linalg.norm(v)


def _horn(x, y, with_scale):
    mx, my = x.mean(axis=1, keepdims=True), y.mean(axis=1, keepdims=True)
    xc, yc = x - mx, y - my
    M = xc @ yc.T
    N = np.array([[M[0, 0] + M[1, 1] + M[2, 2], M[1, 2] - M[2, 1], M[2, 0] - M[0, 2], M[0, 1] - M[1, 0]],
                  [M[1, 2] - M[2, 1], M[0, 0] - M[1, 1] - M[2, 2], M[0, 1] + M[1, 0], M[2, 0] + M[0, 2]],
                  [M[2, 0] - M[0, 2], M[0, 1] + M[1, 0], -M[0, 0] + M[1, 1] - M[2, 2], M[1, 2] + M[2, 1]],
                  [M[0, 1] - M[1, 0], M[2, 0] + M[0, 2], M[1, 2] + M[2, 1], -M[0, 0] - M[1, 1] + M[2, 2]]])
    w, V = np.linalg.eigh(N)
    q = V[:, -1]
    a, b, c, d = q
    R = np.array([[a*a + b*b - c*c - d*d, 2*(b*c - a*d), 2*(b*d + a*c)],
                  [2*(b*c + a*d), a*a - b*b + c*c - d*d, 2*(c*d - a*b)],
                  [2*(b*d - a*c), 2*(c*d + a*b), a*a - b*b - c*c + d*d]])
    sc = 1.0
    if with_scale:
        den = float(np.sum(xc**2))
        sc = float(np.sum(yc * (R @ xc))) / den if den > 0 else 1.0
    t = (my - sc * (R @ mx)).ravel()
    return R, t, sc


def chk_refuse(inp):
    from evo.core import geometry
    rng = np.random.default_rng(inp["seed"])
    n = inp["n"]
    kind = inp["kind"]
    if kind == "unequal":
        x, y = rng.normal(size=(3, n)), rng.normal(size=(3, n + 1 + inp["seed"] % 3))
    elif kind == "coincident":
        p = rng.normal(size=(3, 1)) * 10.0**(inp["seed"] % 4)
        x = np.repeat(p, n, axis=1)
        y = np.repeat(rng.normal(size=(3, 1)), n, axis=1)
    else:  # all points on one coordinate axis
        x, y = np.zeros((3, n)), np.zeros((3, n))
        ax = inp["seed"] % 3
        x[ax] = rng.normal(size=n) * 5
        y[ax] = rng.normal(size=n) * 5
    try:
        geometry.umeyama_alignment(x, y, bool(inp["seed"] % 2))
    except geometry.GeometryException:
        return []
    return ["refused[%s]" % kind]


CHECKERS = {"umeyama": chk_umeyama, "refuse": chk_refuse}


def _cases(tier, seed):
    rng = np.random.default_rng(seed + 303)
    K = 300 if tier == "quick" else 8000
    kinds = ["generic", "noisy", "planar", "near_collinear", "mirrored"]
    for it in range(K):
        kind = kinds[it % 5]
        n = int(rng.integers(3, 12)) if it % 3 else int(rng.integers(3, 200 if tier == "quick" else 2000))
        yield ("umeyama", {"seed": int(rng.integers(0, 10**9)), "n": n, "kind": kind, "with_scale": bool(it % 2),
                           "scale": float(10.0**rng.uniform(-3, 6)) if it % 4 == 0 else [1.0, 0.5, 2.0][it % 3],
                           "mag": int(rng.integers(-2, 3)), "tmag": int(rng.integers(-1, 4)),
                           "noise": 0.0 if kind not in ("noisy", "mirrored") else float(rng.choice([1e-3, 0.05, 0.5])),
                           "offset": bool(it % 7 == 0)})
    for it in range(60 if tier == "quick" else 1000):
        yield ("refuse", {"seed": it, "n": 1 + it % 9, "kind": ["unequal", "coincident", "axis"][it % 3]})


def bounded(tier, seed):
    return B.run(CHECKERS, _cases(tier, seed),
                 rule="point sets generic / planar / nearly collinear / noisy / mirrored (optimal orthogonal map is a reflection), "
                      "n 3..%d, scales 1e-3..1e6, large common offsets, with and without scale estimation: properness, "
                      "residual vs. the generating transformation, 24 perturbations and an independent (Horn quaternion) solver, "
                      "exact recovery on noise-free data, equivariance; unequal sizes / coincident / single-axis sets refused"
                      % (200 if tier == "quick" else 2000), bounds={"seed": seed})


def concretize(vc, tier, seed):
    r = bounded("quick", seed + 1)
    if r["violations"]:
        v = r["violations"][0]
        return {"checker": v["checker"], "input": v["input"], "failed": v["failed"]}
    return None
