"""C19 -- the settings file stays loadable across crashes and concurrent starts."""
import json
import os
import shutil
import subprocess
import sys

from pyvc import bounded as B
from props import pipeline as P
from contracts import settingsfs as _sf

ID = "C19"
LEVEL = "proof"
LEVEL_TEXT = ("rely/guarantee proof over the real settings code: write_to_json_file, reset, initialize_if_needed, "
              "update_if_outdated, SettingsContainer.from_json_file, evo_config's set_config and merge_json_union are "
              "executed symbolically against a ghost file system whose every observation is havocked anew (arbitrary "
              "other processes act between any two steps; only 'a path this process has seen or created still exists' is "
              "kept).  The library calls carry the guarantee as preconditions: a settings / config document is never "
              "opened for writing or truncated in place, only a closed, complete, process-private temporary file is "
              "renamed onto it, mkdir cannot fail because another process was faster, no file is read that this process "
              "has not seen or created.  As every event is a crash point and only complete renames touch a protected "
              "path, every prefix of every event log leaves the document absent, unchanged or complete; the import-time "
              "sequence is a lemma over the contracts.  Real kills at every file-system step and real concurrent starts: "
              "bounded stand-in.")
LEVEL_NOTE = ("trusted: os.replace is atomic; open(p,'w') creates/truncates, write extends, close completes; json.dumps "
              "yields a complete document; pathlib / os / tempfile / json / open replaced by ghost counterparts; rely on "
              "other processes: they run the same (verified) code, never delete files, never touch a temporary file "
              "named after another process id; the content of an existing document is one representative older-version "
              "document; power loss (fsync) is outside the model")
SIDECARS = ["contracts.settingsfs", "contracts.config"]
OVERRIDES = _sf.OVERRIDES
SYMBOLIC_MODULES = _sf.SYMBOLIC
S, MC = "evo.tools.settings.", "evo.main_config."
FUNCTIONS = [S + "write_to_json_file", S + "reset", S + "initialize_if_needed", S + "update_if_outdated",
             S + "SettingsContainer.from_json_file", MC + "set_config", MC + "merge_json_union"]
LEMMAS = ["start_sequence_loads_the_settings"]
TRUSTED = ["os.replace: atomic rename", "open / write / close / truncate: POSIX semantics on one file",
           "json.dumps: complete document; json.loads of a complete document succeeds"]
ASSUMPTIONS = ["rely condition on the other processes (same code, no deletions, private temporary names)",
               "crash = the process stops between two file-system steps or inside a write (partial data); no power loss"]
EXPLANATION = "rely/guarantee with havocked observations; guarantees as preconditions of trusted library contracts"

DRIVER = os.path.join(os.environ.get("VERIF_ROOT", "/verif"), "tools", "c19_driver.py")
REPO = os.environ.get("VERIF_REPO", "/repo")


def _env(home, work):
    env = dict(os.environ)
    env.update(HOME=home, C19_WORK=work, PYTHONPATH=REPO + os.pathsep + env.get("PYTHONPATH", ""), MPLBACKEND="Agg")
    env.pop("C19_TRACE", None)
    return env


def _fresh_start(home, work):
    """a new evo process starts: must succeed and see every default key"""
    code = ("import json, sys\n"
            "import evo.tools.settings as s\n"
            "from evo.tools.settings_template import DEFAULT_SETTINGS_DICT as D\n"
            "missing = [k for k in D if k not in s.SETTINGS]\n"
            "print(json.dumps(missing))\n")
    r = subprocess.run([sys.executable, "-c", code], env=_env(home, work), capture_output=True, text=True)
    if r.returncode != 0:
        return "a_later_start_fails: " + (r.stderr or "").strip().splitlines()[-1][:200]
    missing = json.loads(r.stdout.strip().splitlines()[-1])
    if missing:
        return "a_later_start_misses_default_keys: %s" % missing[:3]
    return None


def _settings_state(home):
    p = os.path.join(home, ".evo", "settings.json")
    if not os.path.exists(p):
        return "absent"
    try:
        json.load(open(p))
        return "complete"
    except ValueError:
        return "incomplete (%d bytes)" % os.path.getsize(p)


def _prepare(op, home, work):
    shutil.rmtree(home, ignore_errors=True)
    shutil.rmtree(work, ignore_errors=True)
    os.makedirs(home)
    os.makedirs(work)
    if op == "first_start":
        return
    r = subprocess.run([sys.executable, "-c", "import evo.tools.settings"], env=_env(home, work), capture_output=True, text=True)
    assert r.returncode == 0, r.stderr
    if op == "upgrade":
        # an older version: stale version file, one default key missing, one user value
        p = os.path.join(home, ".evo", "settings.json")
        d = json.load(open(p))
        d.pop("plot_3d_zoom", None)
        d["plot_figsize"] = [7, 7]
        json.dump(d, open(p, "w"))
        open(os.path.join(home, ".evo", "assets_version"), "w").write("0.0.0")
    json.dump({"plot_split": True, "new_key": 1}, open(os.path.join(work, "other.json"), "w"))
    from evo.tools.settings_template import DEFAULT_SETTINGS_DICT
    json.dump(dict(DEFAULT_SETTINGS_DICT), open(os.path.join(work, "custom.json"), "w"))


def chk_crash(inp):
    """kill the process at file-system step k of the operation (k = 1, 2, ... until the operation has no more steps);
    after each kill the document is absent or complete and a fresh start succeeds"""
    op, mode = inp["op"], inp["mode"]
    base = os.path.join(P.workdir("C19"), "%s_%s_%d" % (op, mode, os.getpid()))
    home, work = os.path.join(base, "home"), os.path.join(base, "work")
    f = []
    k = 0
    while True:
        k += 1
        if k > 60:
            f.append("operation %s has more than 60 file-system steps" % op)
            break
        _prepare(op, home, work)
        r = subprocess.run([sys.executable, DRIVER, op, mode, str(k)], env=_env(home, work), capture_output=True, text=True)
        if r.returncode == 3:
            break                      # step k does not exist: all crash points visited
        if r.returncode == 23:
            f.append("no_started_process_fails_because_of_another[%s, concurrent start at step %d]: %s" % (
                op, k, [ln for ln in r.stderr.splitlines() if ln.strip()][-1][:160]))
            break
        if r.returncode not in (0, 17):
            f.append("started_process_fails[%s, %s at step %d]: %s" % (op, mode, k, (r.stderr or "").strip().splitlines()[-1][:160]))
            break
        st = _settings_state(home)
        if st.startswith("incomplete"):
            f.append("settings_file_absent_or_complete_at_every_instant[%s, kill at step %d]: %s" % (op, k, st))
            break
        if op == "set_custom":
            try:
                json.load(open(os.path.join(work, "custom.json")))
            except ValueError:
                f.append("config_file_absent_or_complete_at_every_instant[%s, kill at step %d]" % (op, k))
                break
        e = _fresh_start(home, work)
        if e:
            f.append("%s [%s, %s at step %d]" % (e, op, mode, k))
            break
    shutil.rmtree(base, ignore_errors=True)
    if k <= 1 and not f:
        f.append("driver reached no file-system step for %s" % op)
    return f


def chk_race(inp):
    """n evo processes start at the same time on an empty home directory"""
    base = os.path.join(P.workdir("C19"), "race_%d" % os.getpid())
    home, work = os.path.join(base, "home"), os.path.join(base, "work")
    f = []
    for rep in range(inp["reps"]):
        shutil.rmtree(base, ignore_errors=True)
        os.makedirs(home)
        os.makedirs(work)
        code = "import evo.tools.settings as s; assert 'plot_split' in s.SETTINGS"
        ps = [subprocess.Popen([sys.executable, "-c", code], env=_env(home, work), stdout=subprocess.DEVNULL,
                               stderr=subprocess.PIPE, text=True) for _ in range(inp["n"])]
        errs = []
        for p in ps:
            _, err = p.communicate()
            if p.returncode != 0:
                errs.append((err or "").strip().splitlines()[-1][:160] if err else "exit %d" % p.returncode)
        if errs:
            f.append("no_started_process_fails_because_of_another[%d simultaneous first starts]: %s" % (inp["n"], errs[0]))
            break
        if _settings_state(home) != "complete":
            f.append("settings complete after concurrent starts: " + _settings_state(home))
            break
    shutil.rmtree(base, ignore_errors=True)
    return f


CHECKERS = {"crash": chk_crash, "race": chk_race}
OPS = ["first_start", "upgrade", "set", "set_custom", "merge", "merge_soft", "reset", "reset_subset"]


def _cases(tier, seed):
    for op in OPS:
        yield ("crash", {"op": op, "mode": "crash"})
    for op in ("first_start", "upgrade") + (tuple(OPS[2:]) if tier == "thorough" else ()):
        yield ("crash", {"op": op, "mode": "interleave"})
    yield ("race", {"n": 8, "reps": 3 if tier == "quick" else 40})
    if tier == "thorough":
        yield ("race", {"n": 16, "reps": 20})
        yield ("race", {"n": 2, "reps": 60})


def bounded(tier, seed):
    return B.run(CHECKERS, _cases(tier, seed),
                 rule="the real code in real processes: for each of 8 operations (first start, version upgrade, evo_config set / "
                      "set -c / merge / soft merge / reset / reset of a subset) a kill at every file-system step (open, each "
                      "write incl. half-written data, truncate, rename, mkdir) followed by a fresh start; a complete start of a "
                      "second process injected at every step of a first start and of an upgrade; 8 (thorough: 2..16) processes "
                      "started simultaneously on an empty home directory, repeated",
                 bounds={"seed": seed})


def concretize(vc, tier, seed):
    r = bounded("quick", seed + 1)
    if r["violations"]:
        v = r["violations"][0]
        return {"checker": v["checker"], "input": v["input"], "failed": v["failed"]}
    return None
