"""C12 -- a metric result is self-consistent: statistics, companion arrays, unit."""
import copy
import math

import numpy as np

from pyvc import bounded as B
from props import pipeline as P

ID = "C12"
LEVEL = "proof"
LEVEL_TEXT = ("PE.get_statistic (7 statistics), PE.change_unit (all 10 x 10 ordered unit pairs) and PE.get_result (APE and RPE, "
              "all relations) are verified for error arrays of any length: each statistic equals its definition (sqrt(mean(e^2)), "
              "sum(e^2), mean, population std, min, max as extremal elements, median as numpy's order statistic), exactly the "
              "seven statistics are stored, the result's error array is the metric's, label/title name metric, relation and "
              "unit; a unit change multiplies every value by the exact factor and updates the unit, refused conversions leave "
              "values and unit untouched.  The inequalities between the statistics are textbook consequences of the definitions "
              "(not derived here).  Companion arrays: ape() stores the processed trajectories' own timestamp / distance arrays, "
              "rpe() the arrays of the trajectories reduced to pose 0 + pair ends without their first entry (wiring contracts), "
              "and RPE.process_data keeps values and end indices in step for the point-distance relations incl. skipped zero "
              "reference distances; end-to-end results: bounded stand-in.")
LEVEL_NOTE = ("floats as reals; trusted: numpy mean/sum/std(ddof)/median/min/max/power, math.sqrt, rad2deg/deg2rad as x*180/pi, "
              "x*pi/180; sums are ghost prefix sums; min <= mean <= rmse <= max and rmse^2 = mean^2 + std^2 are checked numerically")
SIDECARS = ["contracts.lie_algebra", "contracts.geometry", "contracts.filters", "contracts.metrics", "contracts.overwrite",
            "contracts.ape_rpe_cli"]
FUNCTIONS = ["evo.core.metrics.PE.get_statistic", "evo.core.metrics.PE.change_unit", "evo.core.metrics.PE.get_result",
             "evo.core.metrics.RPE.process_data", "evo.main_ape.ape", "evo.main_rpe.rpe"]
# of RPE.process_data only the point-distance relations carry C12 clauses (values <-> end indices: the companion arrays
# of rpe() are indexed by delta_ids); the other configurations belong to C02
CASE_FILTER = {"evo.core.metrics.RPE.process_data": lambda case: str(case.get("relation", "")).startswith("point_distance")}
LEMMAS = []
TRUSTED = ["numpy.mean/sum/std(ddof=0)/median/min/max/power", "math.sqrt", "numpy.rad2deg(x) = x*180/pi, numpy.deg2rad(x) = x*pi/180"]
ASSUMPTIONS = ["M1 (min <= median <= max, min <= mean <= rmse <= max, rmse^2 = mean^2 + std^2) is mathematics about the "
               "definitions, independent of evo's code: assumed (textbook), checked numerically in the bounded run",
               "companion arrays of ape() / rpe(): wiring proof (they are the processed trajectories' own arrays, for RPE without "
               "the first pose) + value/end-index bookkeeping of RPE.process_data for the point-distance relations; end to end: bounded"]
EXPLANATION = "finite enumeration of statistic types / unit pairs / relations; error arrays symbolic"


def chk_stats(inp):
    from evo.core import metrics
    e = np.array(inp["err"], dtype=float)
    m = metrics.APE(metrics.PoseRelation.translation_part)
    m.error = e.copy()
    st = m.get_all_statistics()
    f = []
    if sorted(st) != sorted(["rmse", "mean", "median", "std", "min", "max", "sse"]):
        return ["exactly_the_seven_statistics"]
    tol = 1e-9
    exp = {"rmse": math.sqrt(float(np.mean(e.astype(np.longdouble)**2))), "sse": float(np.sum(e.astype(np.longdouble)**2)),
           "mean": float(np.mean(e.astype(np.longdouble))), "median": float(np.sort(e)[len(e) // 2] if len(e) % 2 else
                                                                         (np.sort(e)[len(e) // 2 - 1] + np.sort(e)[len(e) // 2]) / 2),
           "std": math.sqrt(float(np.mean((e.astype(np.longdouble) - np.mean(e.astype(np.longdouble)))**2))),
           "min": float(e.min()), "max": float(e.max())}
    for k, x in exp.items():
        if not P.close(float(st[k]), x, 1e-9 if k != "std" else 1e-6):
            f.append("statistic_equals_its_definition[%s] %r != %r" % (k, st[k], x))
    slack = 4e-16 * len(e) * max(1.0, abs(exp["max"]))
    if not (st["min"] <= st["median"] + slack and st["median"] <= st["max"] + slack):
        f.append("min<=median<=max")
    if not (st["min"] <= st["mean"] + slack and st["mean"] <= st["rmse"] + slack and st["rmse"] <= st["max"] + slack):
        f.append("min<=mean<=rmse<=max")
    if abs(st["rmse"]**2 - st["mean"]**2 - st["std"]**2) > 1e-9 * max(1.0, st["rmse"]**2):
        f.append("rmse^2==mean^2+std^2")
    if not np.array_equal(m.error, e):
        f.append("values_untouched")
    return f


FACT = {"mm": 1e-3, "cm": 1e-2, "m": 1.0, "km": 1e3}


def chk_unit(inp):
    from evo.core import metrics
    from evo.core.units import Unit
    e = np.array(inp["err"], dtype=float)
    rel = {"m": "translation_part", "rad": "rotation_angle_rad", "deg": "rotation_angle_deg", "unit-less": "full_transformation"}
    old, new = Unit(inp["old"]), Unit(inp["new"])
    m = metrics.APE(metrics.PoseRelation.translation_part)
    m.unit = old
    m.error = e.copy()
    try:
        m.change_unit(new)
        raised = False
    except metrics.MetricsException:
        raised = True
    o, n = inp["old"], inp["new"]
    if o == n:
        ok = "same"
    elif o in FACT and n in FACT:
        ok = "len"
    elif (o, n) in (("rad", "deg"), ("deg", "rad")):
        ok = "ang"
    else:
        ok = "refuse"
    if len(e) == 0 and ok in ("len", "ang"):
        ok = "refuse"
    f = []
    if raised != (ok == "refuse"):
        return ["refused_iff_not_convertible %s->%s raised=%s" % (o, n, raised)]
    if raised or ok == "same":
        if m.unit is not old or not np.array_equal(m.error, e):
            f.append("refused_or_same_leaves_values_and_unit_untouched")
        return f
    fac = FACT[o] / FACT[n] if ok == "len" else (180.0 / math.pi if o == "rad" else math.pi / 180.0)
    if m.unit is not new:
        f.append("unit_updated")
    if len(m.error) != len(e) or not np.allclose(m.error, e * fac, rtol=1e-12, atol=0):
        f.append("multiplied_by_the_exact_conversion_factor")
    return f


def chk_history(inp):
    """a result requested after every step of a history of unit changes on ONE metric object is self-consistent:
    statistics = definitions on that result's own error values, values = original values x the exact factor, label names
    the unit in force (statistics asked for before a conversion must not survive it)"""
    from evo.core import metrics
    from evo.core.units import Unit
    e0 = np.array(inp["err"], dtype=float)
    m = metrics.APE(metrics.PoseRelation.translation_part if inp["first"] in FACT else metrics.PoseRelation.rotation_angle_rad)
    m.unit = Unit(inp["first"])
    m.error = e0.copy()
    cur = inp["first"]
    fac = 1.0
    f = []

    def look(step):
        res = m.get_result()
        ea = np.asarray(res.np_arrays["error_array"], dtype=float)
        if len(ea) != len(e0) or not np.allclose(ea, e0 * fac, rtol=1e-11, atol=0):
            f.append("multiplied_by_the_exact_conversion_factor (step %d, unit %s)" % (step, cur))
            return
        le = ea.astype(np.longdouble)
        exp = {"rmse": math.sqrt(float(np.mean(le**2))), "sse": float(np.sum(le**2)), "mean": float(np.mean(le)),
               "median": float(np.median(ea)), "std": math.sqrt(float(np.mean((le - np.mean(le))**2))),
               "min": float(ea.min()), "max": float(ea.max())}
        both = [("get_result", res.stats), ("get_all_statistics", m.get_all_statistics())]
        for who, st in both:
            for k, x in exp.items():
                if k not in st or not P.close(float(st[k]), x, 1e-9 if k != "std" else 1e-6):
                    f.append("statistic_equals_its_definition[%s] after step %d (%s, unit %s): %r != %r"
                             % (k, step, who, cur, st.get(k), x))
        if m.unit is not Unit(cur):
            f.append("unit_updated (step %d)" % step)
        import re
        if not re.search(r"(?<![A-Za-z])%s(?![A-Za-z])" % re.escape(cur), res.info["label"]):
            f.append("label_names_the_unit (step %d: %r, unit %s)" % (step, res.info["label"], cur))

    look(0)
    for step, new in enumerate(inp["chain"], 1):
        before = m.error.copy()
        try:
            m.change_unit(Unit(new))
            conv = True
        except metrics.MetricsException:
            conv = False
            if not np.array_equal(m.error, before) or m.unit is not Unit(cur):
                f.append("refused_or_same_leaves_values_and_unit_untouched (step %d)" % step)
        if conv and new != cur:
            if cur in FACT and new in FACT:
                fac = fac * FACT[cur] / FACT[new]
            elif (cur, new) == ("rad", "deg"):
                fac = fac * 180.0 / math.pi
            elif (cur, new) == ("deg", "rad"):
                fac = fac * math.pi / 180.0
            else:
                f.append("refused_iff_not_convertible %s->%s (step %d)" % (cur, new, step))
                return f
            cur = new
        look(step)
        if f:
            break
    return f


def chk_companions(inp):
    """ape()/rpe(): one entry per value, referring to the pose the value belongs to; stored trajectories; labels"""
    from evo import main_ape, main_rpe
    from evo.core import metrics
    from evo.core.units import Unit
    rng = np.random.default_rng(inp["seed"])
    ref, est = P.rand_pair(rng, inp["n"], noise=0.05, stamps=True, from_poses=inp["from_poses"])
    if inp.get("stationary"):
        # the reference stands still over some frames: pairs with zero reference distance (ratio relation skips them)
        from evo.core.trajectory import PoseTrajectory3D
        xyz = ref.positions_xyz.copy()
        for k in range(1, len(xyz)):
            if k % 3 == 0:
                xyz[k] = xyz[k - 1]
        ref = PoseTrajectory3D(xyz, ref.orientations_quat_wxyz.copy(), ref.timestamps.copy())
    rel = metrics.PoseRelation[inp["relation"]]
    f = []
    if inp["which"] == "ape":
        r, e = copy.deepcopy(ref), copy.deepcopy(est)
        cu = Unit(inp["unit"]) if inp.get("unit") else None
        res = main_ape.ape(r, e, rel, align=inp["align"], change_unit=cu)
        k = len(res.np_arrays["error_array"])
        for name in ("seconds_from_start", "timestamps", "distances_from_start", "distances"):
            if len(res.np_arrays[name]) != k:
                f.append("one_entry_per_value[%s]" % name)
        if f:
            return f
        if not np.array_equal(res.np_arrays["timestamps"], e.timestamps) or \
                not np.allclose(res.np_arrays["seconds_from_start"], e.timestamps - e.timestamps[0], atol=1e-9):
            f.append("timestamps_refer_to_the_estimate's_poses")
        if not np.allclose(res.np_arrays["distances_from_start"], r.distances) or \
                not np.allclose(res.np_arrays["distances"], e.distances):
            f.append("distances_refer_to_the_processed_trajectories")
        if res.trajectories.get("reference") is not r or res.trajectories.get("estimate") is not e:
            f.append("stored_trajectories_are_the_processed_ones")
        unit_txt = (cu or {"translation_part": Unit.meters, "point_distance": Unit.meters, "rotation_angle_deg": Unit.degrees,
                          "rotation_angle_rad": Unit.radians}.get(inp["relation"], Unit.none)).value
        if "APE" not in res.info["label"] or unit_txt not in res.info["label"]:
            f.append("label_names_metric_and_unit %r" % res.info["label"])
        if rel.value not in res.info["title"] or unit_txt not in res.info["title"]:
            f.append("title_names_relation_and_unit %r" % res.info["title"])
    else:
        r, e = copy.deepcopy(ref), copy.deepcopy(est)
        r0, e0 = copy.deepcopy(ref), copy.deepcopy(est)
        unit = Unit[inp.get("delta_unit", "frames")]
        delta = inp["delta"] if unit is Unit.frames else inp["delta_val"]
        ap = bool(inp.get("all_pairs", False))
        if inp["align"]:
            e0.align(r0)
        try:
            pairs = metrics.id_pairs_from_delta(e0.poses_se3, delta, unit, 0.1, ap)
        except metrics.filters.FilterException:
            return []
        if inp["relation"] == "point_distance_error_ratio":
            pairs = [(i, j) for (i, j) in pairs if np.linalg.norm(r0.positions_xyz[j] - r0.positions_xyz[i]) != 0]
            if not pairs:
                return []
        ids = [int(j) for _, j in pairs]
        res = main_rpe.rpe(r, e, rel, delta, unit, all_pairs=ap, align=inp["align"])
        k = len(res.np_arrays["error_array"])
        for name in ("seconds_from_start", "timestamps", "distances_from_start", "distances"):
            if len(res.np_arrays[name]) != k:
                f.append("one_entry_per_value[%s] %d != %d" % (name, len(res.np_arrays[name]), k))
        if f:
            return f
        if len(ids) != k:
            return ["one_value_per_pair"]
        if not np.array_equal(res.np_arrays["timestamps"], e0.timestamps[ids]):
            f.append("timestamps_refer_to_the_pair_end_poses")
        if not np.allclose(res.np_arrays["seconds_from_start"], e0.timestamps[ids] - e0.timestamps[0], atol=1e-9):
            f.append("seconds_from_start_refer_to_the_pair_end_poses")
        tr_ = res.trajectories["estimate"]
        if tr_.num_poses != k + 1 or not np.allclose(tr_.positions_xyz, e0.positions_xyz[[0] + ids], atol=1e-9):
            f.append("stored_trajectories_restricted_to_first_pose_and_pair_ends")
        if "RPE" not in res.info["label"] or rel.value not in res.info["title"] or str(delta) not in res.info["title"]:
            f.append("label_title_name_metric_relation_delta")
    return f


CHECKERS = {"stats": chk_stats, "unit": chk_unit, "history": chk_history, "companions": chk_companions}
UNITS = ["unit-less", "mm", "cm", "m", "km", "s", "deg", "rad", "frames", "%"]


def _cases(tier, seed):
    rng = np.random.default_rng(seed + 1212)
    K = 150 if tier == "quick" else 5000
    for it in range(K):
        n = int(rng.integers(1, 6)) if it % 4 == 0 else int(rng.integers(1, 10**4 if tier == "quick" else 10**6))
        mag = 10.0**rng.uniform(-12, 6)
        kind = it % 5
        if kind == 0:
            e = np.full(n, mag)
        elif kind == 1:
            e = np.abs(rng.normal(size=n)) * mag
        else:
            e = rng.uniform(0, mag, size=n)
        if n > 2000:
            e = e[:2000]
        yield ("stats", {"err": e})
    for o in UNITS:
        for n_ in UNITS:
            yield ("unit", {"old": o, "new": n_, "err": np.abs(rng.normal(size=5))})
            yield ("unit", {"old": o, "new": n_, "err": []})
    for it in range(40 if tier == "quick" else 1000):
        first = ["m", "mm", "km", "cm", "rad", "deg"][it % 6]
        pool = ["mm", "cm", "m", "km", "rad", "deg", "%"]
        chain = [str(rng.choice(pool[:4] if first in FACT and it % 5 else pool)) for _ in range(1 + it % 3)]
        if first in ("rad", "deg") and it % 5:
            chain = [["deg", "rad"][(j + (first == "deg")) % 2] for j in range(1 + it % 3)]
        yield ("history", {"first": first, "chain": chain, "err": np.abs(rng.normal(size=int(rng.integers(1, 30)))) + 0.01})
    rels = ["translation_part", "full_transformation", "rotation_angle_deg", "rotation_angle_rad", "rotation_part", "point_distance"]
    for it in range(24 if tier == "quick" else 400):
        yield ("companions", {"seed": 700 + it, "n": int(rng.integers(6, 40)), "which": "rpe", "relation": "point_distance_error_ratio",
                              "align": False, "from_poses": bool(it % 2), "delta": 1 + it % 2, "delta_unit": "frames",
                              "delta_val": 1.0, "all_pairs": bool(it % 4 == 3), "stationary": it % 3 != 2})
    for it in range(64 if tier == "quick" else 1500):
        yield ("companions", {"seed": 900 + it, "n": int(rng.integers(4, 40)), "which": "ape" if it % 2 else "rpe",
                              "relation": rels[it % 6], "align": bool(it % 3 == 0), "from_poses": bool(it % 2),
                              "delta": 1 + it % 3, "delta_unit": ["frames", "meters", "degrees", "radians"][(it // 2) % 4],
                              "delta_val": [1.0, 0.8, 25.0, 0.4][(it // 2) % 4], "all_pairs": bool((it // 8) % 2),
                              "unit": ["mm", "km", None][it % 3] if rels[it % 6] in
                              ("translation_part", "point_distance") else None})


def bounded(tier, seed):
    return B.run(CHECKERS, _cases(tier, seed),
                 rule="error arrays 1..%s values, magnitudes 1e-12..1e6, constant arrays, single values: statistics vs. "
                      "long-double definitions and the inequalities; all 10x10 ordered unit pairs (with values / empty); histories of "
                      "1..3 unit changes on one metric object with a result requested after every step; "
                      "ape()/rpe() companion arrays, stored trajectories, labels" % ("1e4" if tier == "quick" else "1e6"),
                 bounds={"max_values": 2000, "seed": seed})


def concretize(vc, tier, seed):
    r = bounded("quick", seed + 1)
    if r["violations"]:
        v = r["violations"][0]
        return {"checker": v["checker"], "input": v["input"], "failed": v["failed"]}
    return None
