"""C05 -- time association pairs each pose with its nearest counterpart within max_diff."""
import copy
import math

import numpy as np

from pyvc import bounded as B

ID = "C05"
LEVEL = "proof"
LEVEL_TEXT = ("matching_time_indices (loop invariant) and associate_trajectories (both length orderings, both storage modes) "
              "are verified for all stamp vectors of any length against sidecar contracts that state the property clause by "
              "clause: equal lengths, copies of input poses+stamps, |t1-(t2+offset)| <= max_diff, pairing with the nearest "
              "counterpart, completeness, time order, no pose used twice (strictly increasing stamps), inputs untouched, "
              "SyncException iff nothing matches; floating-point ties and epoch-sized stamps are covered by the bounded run")
LEVEL_NOTE = ("floats as reals (A1); trusted: numpy.argmin (first minimal index), numpy.abs, copy.deepcopy, fancy indexing; "
              "ghost spec function nn(i) (first nearest index) introduced by its defining axioms")
SIDECARS = ["contracts.sync"]
FUNCTIONS = ["evo.core.sync.matching_time_indices", "evo.core.sync.associate_trajectories"]
LEMMAS = []
TRUSTED = ["numpy.argmin: first index of a minimal element", "copy.deepcopy: equal value, no shared mutable storage",
           "ndarray fancy indexing a[ids] copies the selected rows",
           "spec function nn(i) = first nearest counterpart index (conservative definition, exists for non-empty stamps)"]
ASSUMPTIONS = ["'no pose used twice' is stated (as in the property's quantifier) for strictly increasing stamp vectors",
               "PosePath3D.reduce_to_ids is inlined (its own contract belongs to C08/C11)"]
EXPLANATION = "loop invariant = the postcondition restricted to the stamps processed so far; all obligations are LRA + quantifiers"


def _mk(stamps, tag):
    from evo.core.trajectory import PoseTrajectory3D
    n = len(stamps)
    xyz = np.column_stack([np.arange(n, dtype=float) + tag * 1e6, np.zeros(n), np.zeros(n)])
    quat = np.tile([1.0, 0, 0, 0], (n, 1))
    return PoseTrajectory3D(xyz, quat, np.array(stamps, dtype=float))


def _state(t):
    return (t.positions_xyz.tobytes(), t.orientations_quat_wxyz.tobytes(), t.timestamps.tobytes(),
            None if not hasattr(t, "_poses_se3") else np.array(t._poses_se3).tobytes())


def chk_assoc(inp):
    from evo.core import sync
    s1 = np.array(inp["s1"], dtype=float)
    s2 = np.array(inp["s2"], dtype=float)
    md, off = float(inp["max_diff"]), float(inp["offset"])
    t1, t2 = _mk(s1, 1), _mk(s2, 2)
    if inp.get("from_poses"):
        from evo.core.trajectory import PoseTrajectory3D
        t1 = PoseTrajectory3D(poses_se3=[p.copy() for p in t1.poses_se3], timestamps=s1.copy())
        t2 = PoseTrajectory3D(poses_se3=[p.copy() for p in t2.poses_se3], timestamps=s2.copy())
    before = (_state(t1), _state(t2))
    fails = []
    # oracle over the reals (numpy float64 with a guard band `eps` for float ambiguity)
    snd_longer = len(s2) > len(s1)
    short, long_, o = (s1, s2, off) if snd_longer else (s2, s1, -off)
    D = np.abs(long_[None, :] + o - short[:, None])
    eps = 8 * np.finfo(float).eps * max(1.0, float(np.abs(s1).max()), float(np.abs(s2).max()), abs(off))
    exact = bool(inp.get("exact"))
    if exact:
        # stamps, offset and max_diff are multiples of 1/8 below 2^31: every sum and difference in the code and in this
        # oracle is exact in float64, so a difference exactly equal to max_diff is decided, not skipped (seed C05-c)
        eps = 0.0
    ambiguous = (not exact) and bool(np.any(np.abs(D - md) <= eps))
    srt = np.sort(D, axis=1)
    if D.shape[1] > 1:
        ambiguous = ambiguous or bool(np.any(srt[:, 1] - srt[:, 0] <= eps))
    nn = np.argmin(D, axis=1)
    reachable = D[np.arange(len(short)), nn] <= md
    try:
        r1, r2 = sync.associate_trajectories(t1, t2, md, off)
        raised = False
    except sync.SyncException:
        raised = True
    if (_state(t1), _state(t2)) != before:
        fails.append("inputs_unchanged")
    if ambiguous:
        return fails  # decided inside the float guard band: only the frame clause is checked
    if raised != (not reachable.any()):
        fails.append("raises_iff_no_match raised=%s reachable=%d" % (raised, int(reachable.sum())))
    if raised or fails:
        return fails
    K = r1.num_poses
    if K != r2.num_poses or K < 1 or len(r1.timestamps) != K or len(r2.timestamps) != K:
        return ["equal_lengths %d %d" % (r1.num_poses, r2.num_poses)]
    a = np.round(r1.positions_xyz[:, 0] - 1e6).astype(int)
    b = np.round(r2.positions_xyz[:, 0] - 2e6).astype(int)
    if np.any(a < 0) or np.any(a >= len(s1)) or np.any(b < 0) or np.any(b >= len(s2)):
        return ["copies_of_input_poses"]
    if not (np.array_equal(r1.timestamps, s1[a]) and np.array_equal(r2.timestamps, s2[b])):
        fails.append("pose_and_timestamp_together")
    if not (np.array_equal(r1.positions_xyz, t1.positions_xyz[a]) and
            np.array_equal(r2.orientations_quat_wxyz, t2.orientations_quat_wxyz[b])):
        fails.append("copies_unmodified")
    if np.any(np.abs(s1[a] - (s2[b] + off)) > md + eps):
        fails.append("within_max_diff")
    if np.any(np.diff(r1.timestamps) <= 0) or np.any(np.diff(r2.timestamps) <= 0):
        if inp.get("sorted", True):
            fails.append("increasing_time_order")
    if len(set(a.tolist())) != K or len(set(b.tolist())) != K:
        if inp.get("sorted", True):
            fails.append("no_pose_used_twice a=%s b=%s" % (a.tolist()[:8], b.tolist()[:8]))
    ishort, ilong = (a, b) if snd_longer else (b, a)
    if np.any(nn[ishort] != ilong):
        fails.append("paired_with_nearest")
    used = set(ilong.tolist())
    for i in np.nonzero(reachable)[0]:
        if int(nn[i]) not in used:
            fails.append("complete: stamp %d of the shorter trajectory has its nearest counterpart %d within max_diff "
                         "but that counterpart is unused" % (i, nn[i]))
            break
    # pairs not in the oracle's candidate set
    for i_s, i_l in zip(ishort.tolist(), ilong.tolist()):
        if not reachable[i_s]:
            fails.append("no_other_pairs")
            break
    # derived objects are independent of the inputs (C16)
    r1.scale(2.0)
    r2.transform(np.diag([1.0, 1.0, 1.0, 1.0]) + np.eye(4, k=3)[:4, :4] * 0)
    if (_state(t1), _state(t2)) != before:
        fails.append("results_independent_of_inputs")
    return fails


def chk_mti(inp):
    from evo.core import sync
    s1 = np.array(inp["s1"], dtype=float)
    s2 = np.array(inp["s2"], dtype=float)
    md, off = float(inp["max_diff"]), float(inp["offset"])
    b1, b2 = s1.tobytes(), s2.tobytes()
    m1, m2 = sync.matching_time_indices(s1, s2, md, off)
    f = []
    if s1.tobytes() != b1 or s2.tobytes() != b2:
        f.append("frame_stamps_unchanged")
    if len(m1) != len(m2):
        f.append("same_len")
    return f


CHECKERS = {"assoc": chk_assoc, "mti": chk_mti}


def _stamps(rng, n, kind):
    if kind == "regular":
        dt = float(2.0**rng.integers(-7, 1))
        return np.arange(n) * dt
    if kind == "jitter":
        base = np.arange(n) * 0.1
        return np.sort(base + rng.uniform(-0.04, 0.04, size=n))
    if kind == "gaps":
        d = rng.choice([0.05, 0.1, 5.0], size=n, p=[0.5, 0.4, 0.1])
        return np.cumsum(d)
    if kind == "dyadic":
        return np.cumsum(rng.integers(1, 9, size=n)) / 8.0
    raise ValueError(kind)


def _cases(tier, seed):
    rng = np.random.default_rng(seed + 505)
    N = 700 if tier == "quick" else 8000
    maxlen = 200 if tier == "quick" else 2500
    # the documented witness of finding F1 and its neighbours
    yield ("assoc", {"s1": [0.0, 0.4], "s2": [0.1, 5.0, 10.0], "max_diff": 1.0, "offset": 0.0})
    yield ("assoc", {"s1": [0.1, 5.0, 10.0], "s2": [0.0, 0.4], "max_diff": 1.0, "offset": 0.0})
    yield ("assoc", {"s1": [0.0, 0.25, 0.5], "s2": [0.25, 8.0, 9.0, 10.0], "max_diff": 0.25, "offset": 0.0})
    # a pose whose nearest counterpart is exactly max_diff away, at the start, in the interior and after the end of the
    # other trajectory, both argument orders, with an offset, max_diff = 0 (exact arithmetic)
    for a_, b_, md_, off_ in (([0.0, 1.0, 2.0, 3.0, 4.0], [2.0, 4.5], 0.5, 0.0), ([0.0, 1.0, 2.0, 3.0, 4.0], [-0.5, 2.0], 0.5, 0.0),
                              ([0.0, 1.0, 2.0, 3.0, 4.0], [1.5, 4.0], 0.5, 0.0), ([0.0, 1.0, 2.0], [1.0, 2.0], 0.0, 0.0),
                              ([8.0, 9.0, 10.0, 11.0, 12.5], [0.0, 1.0, 2.0, 3.0, 4.0, 4.25], 0.25, 8.0),
                              ([0.0, 1.0, 2.0, 3.0], [3.75], 0.75, 0.0), ([0.0, 1.0, 2.0, 3.0], [3.75], 0.5, 0.0)):
        yield ("assoc", {"s1": a_, "s2": b_, "max_diff": md_, "offset": off_, "exact": True})
        yield ("assoc", {"s1": b_, "s2": a_, "max_diff": md_, "offset": -off_, "exact": True})
    for it in range(N):
        kind = ["regular", "jitter", "gaps", "dyadic"][int(rng.integers(0, 4))]
        n1 = int(rng.integers(1, 12)) if it % 3 else int(rng.integers(1, maxlen))
        n2 = n1 if it % 7 == 0 else (int(rng.integers(1, 12)) if it % 3 else int(rng.integers(1, maxlen)))
        s1 = _stamps(rng, n1, kind)
        kind2 = ["regular", "jitter", "gaps", "dyadic"][int(rng.integers(0, 4))] if it % 2 else kind
        s2 = _stamps(rng, n2, kind2)
        if kind == "dyadic":
            off = float(rng.integers(-16, 17)) / 8.0
            md = float(rng.integers(0, 9)) / 8.0       # differences exactly equal to max_diff occur
        else:
            off = float(rng.choice([0.0, 0.013, -0.5, 2.5, -7.25]))
            md = float(rng.choice([0.0, 0.001, 0.01, 0.05, 0.3, 1.0, 100.0]))
        if it % 11 == 0:
            s2 = s2 + 1000.0   # disjoint ranges
        if it % 5 == 0:
            e = 1.5e9 if kind != "dyadic" else float(2**30)
            s1, s2 = s1 + e, s2 + e
        yield ("assoc", {"s1": s1, "s2": s2, "max_diff": md, "offset": off, "from_poses": bool(it % 2),
                         "exact": kind == "dyadic" and kind2 == "dyadic"})
        if it % 4 == 0:
            yield ("mti", {"s1": s1, "s2": s2, "max_diff": md, "offset": off})


def bounded(tier, seed):
    return B.run(CHECKERS, _cases(tier, seed),
                 rule="stamp vectors: regular / jittered / with gaps / dyadic rationals (exact float arithmetic, differences "
                      "exactly equal to max_diff), lengths 1..%d, equal and different lengths in both orders, disjoint ranges, "
                      "epoch offsets, offsets of both signs; oracle = brute-force nearest search; cases decided within an "
                      "8-ulp guard band are checked for the frame clause only; distinct = different input" %
                      (200 if tier == "quick" else 5000),
                 bounds={"max_len": 200 if tier == "quick" else 5000, "cases": 700 if tier == "quick" else 20000,
                         "seed": seed})


def concretize(vc, tier, seed):
    r = bounded("quick", seed + 1)
    if r["violations"]:
        v = r["violations"][0]
        return {"checker": v["checker"], "input": v["input"], "failed": v["failed"]}
    return None
