"""C13 -- merging and tabulating results averages or concatenates exactly as documented."""
import copy
import os

import numpy as np

from pyvc import bounded as B
from props import pipeline as P

ID = "C13"
LEVEL = "proof"
LEVEL_TEXT = ("result.merge_results is verified for 0..3 results with arbitrary (symbolic) statistic values and array lengths, "
              "equal / permuted key order, differing key sets: every statistic is the arithmetic mean; every array the "
              "element-wise mean when all lengths agree per key and otherwise the concatenation in input order; info of the "
              "first result; a single result is returned unchanged; non-matching keys and empty input refused; no input is "
              "modified and the merged result is a new object.  The evo_res table (pandas) is a bounded stand-in.")
LEVEL_NOTE = ("floats as reals; trusted: copy.deepcopy, numpy add/append/divide; the number of results is enumerated (0..3) "
              "with two statistics and two arrays per result; pandas-based tabulation: bounded")
SIDECARS = ["contracts.result"]
FUNCTIONS = ["evo.core.result.merge_results"]
LEMMAS = []
TRUSTED = ["copy.deepcopy", "numpy.add / numpy.append / numpy.divide"]
ASSUMPTIONS = ["pandas_bridge.result_to_df / load_results_as_dataframe / main_res.run (pandas): bounded stand-in only"]
EXPLANATION = "dicts with concrete keys and symbolic values; arrays of symbolic length; loops over the result list unrolled"


def _results(inp):
    from evo.core.result import Result
    rng = np.random.default_rng(inp["seed"])
    out = []
    skeys = ["rmse", "mean", "max"]
    akeys = ["error_array", "timestamps", "distances"]
    for i, sizes in enumerate(inp["sizes"]):
        r = Result()
        r.add_info({"title": "t%d" % i, "est_name": ("run_%d/traj.txt" % i) if inp.get("dup_labels") else "est_%d" % i})
        sk = list(skeys)
        ak = list(akeys)
        if inp.get("permute") and i % 2:
            sk, ak = sk[::-1], ak[::-1]
        if inp.get("drop_stat") == i:
            sk = sk[:-1]
        if inp.get("drop_arr") == i:
            ak = ak[:-1]
        r.add_stats({k: float(rng.normal()) for k in sk})
        if inp.get("extra_stat") == i:
            r.add_stats({"p95": float(rng.normal())})
        for k in ak:
            r.add_np_array(k, rng.normal(size=sizes[akeys.index(k)]))
        out.append(r)
    return out


def chk_merge(inp):
    from evo.core.result import merge_results, ResultException
    rs = _results(inp)
    before = copy.deepcopy(rs)
    N = len(rs)
    try:
        m = merge_results(rs)
        raised = None
    except ValueError:
        raised = "ValueError"
    except ResultException:
        raised = "ResultException"
    f = []
    for a, b in zip(rs, before):
        if a != b or a.info != b.info:
            f.append("no_input_result_is_modified")
    keys_differ = N >= 2 and any(set(x.stats) != set(y.stats) or set(x.np_arrays) != set(y.np_arrays) for x, y in zip(rs, rs[1:]))
    exp_raise = "ValueError" if N == 0 else ("ResultException" if keys_differ else None)
    if raised != exp_raise:
        return f + ["refusal %r expected %r" % (raised, exp_raise)]
    if raised:
        return f
    if N == 1:
        return f + ([] if m is rs[0] else ["single_result_returned_unchanged"])
    for k in before[0].stats:
        if abs(m.stats[k] - np.mean([r.stats[k] for r in before])) > 1e-12:
            f.append("statistics_are_arithmetic_means[%s]" % k)
    equal = all(before[i].np_arrays[k].size == before[0].np_arrays[k].size for i in range(N) for k in before[0].np_arrays)
    for k in before[0].np_arrays:
        if equal:
            exp = np.mean([r.np_arrays[k] for r in before], axis=0)
        else:
            exp = np.concatenate([r.np_arrays[k] for r in before])
        if m.np_arrays[k].shape != exp.shape or not np.allclose(m.np_arrays[k], exp, atol=1e-12):
            f.append("arrays_%s[%s]" % ("mean" if equal else "concatenated_in_input_order", k))
    if m.info != before[0].info:
        f.append("info_of_the_first_result_kept")
    m.np_arrays[next(iter(m.np_arrays))][...] = 7.0
    if rs[0] != before[0]:
        f.append("merged_result_independent_of_the_inputs")
    return f


def chk_table(inp):
    """evo_res: the table contains, per input file, exactly the statistics stored in that file under its label"""
    import pandas as pd
    from evo.tools import file_interface, pandas_bridge
    rs = _results(inp)
    d = P.workdir("C13")
    files = []
    for i, r in enumerate(rs):
        p = os.path.join(d, "res_%d.zip" % i)
        if os.path.exists(p):
            os.remove(p)
        file_interface.save_res_file(p, r)
        files.append(p)
    f = []
    df = pandas_bridge.load_results_as_dataframe(files, use_filenames=inp["use_filenames"], merge=inp["merge"])
    if inp["merge"]:
        from evo.core.result import merge_results
        m = merge_results([file_interface.load_res_file(p) for p in files])
        col = df.columns[0]
        for k, v in m.stats.items():
            if abs(float(df.loc["stats", k][col]) - v) > 1e-12:
                f.append("merged_table_holds_the_merged_values[%s]" % k)
        return f
    if len(df.columns) != len(rs):
        return ["one_column_per_result_file %d != %d" % (len(df.columns), len(rs))]
    if inp.get("dup_labels") and not inp["use_filenames"]:
        # equal labels: every file still has its column, holding that file's statistics (evo_res itself refuses such input)
        cols = [df.iloc[:, k] for k in range(len(rs))]
        for k, r in enumerate(rs):
            st = cols[k].loc["stats"].dropna()
            if set(st.index) != set(r.stats) or any(float(st[q]) != v for q, v in r.stats.items()):
                return ["every_input_file_has_its_own_column_also_with_equal_labels[file %d]" % k]
        return f
    for i, (r, p) in enumerate(zip(rs, files)):
        label = p if inp["use_filenames"] else r.info["est_name"]
        if label not in df.columns:
            f.append("labelled_by_%s" % ("file name" if inp["use_filenames"] else "estimate name"))
            continue
        stats = df.loc["stats"][label].dropna()
        if set(stats.index) != set(r.stats):
            f.append("exactly_the_statistics_of_the_file[%s]" % label)
        for k, v in r.stats.items():
            if k in stats.index and float(stats[k]) != v:
                f.append("statistic_value_identical[%s,%s]" % (label, k))
    return f


CHECKERS = {"merge": chk_merge, "table": chk_table}


def _cases(tier, seed):
    rng = np.random.default_rng(seed + 1313)
    K = 200 if tier == "quick" else 6000
    for it in range(K):
        N = int(rng.integers(0, 9)) if it % 4 else int(rng.integers(1, 4))
        base = [int(x) for x in rng.integers(0, 6, size=3)]
        sizes = []
        for i in range(N):
            mode = it % 3
            sizes.append(list(base) if mode == 0 else ([base[0], base[1], int(rng.integers(0, 6))] if mode == 1 else
                                                       [int(x) for x in rng.integers(0, 6, size=3)]))
        yield ("merge", {"seed": int(rng.integers(0, 10**9)), "sizes": sizes, "permute": bool(it % 2),
                         "drop_stat": (it % N if N and it % 7 == 0 else None), "drop_arr": (it % N if N and it % 11 == 0 else None)})
    for it in range(12 if tier == "quick" else 300):
        N = 1 + it % 5
        yield ("table", {"seed": 500 + it, "sizes": [[4, 4, 4]] * N, "use_filenames": bool(it % 2), "merge": it % 3 == 0})
    for it in range(12 if tier == "quick" else 200):
        N = 2 + it % 3
        yield ("table", {"seed": 800 + it, "sizes": [[4, 4, 4]] * N, "use_filenames": bool(it % 2), "merge": False,
                         "dup_labels": it % 2 == 0, "extra_stat": (1 + it % (N - 1)) if it % 3 else None})


def bounded(tier, seed):
    return B.run(CHECKERS, _cases(tier, seed),
                 rule="lists of 0..8 results with arbitrary statistic values and array lengths (equal, unequal per key, empty), key "
                      "sets equal / differing in one key / inserted in another order; evo_res tables for 1..5 result files written "
                      "and reloaded, with file-name or estimate-name labels and the merge option",
                 bounds={"seed": seed})


def concretize(vc, tier, seed):
    r = bounded("quick", seed + 1)
    if r["violations"]:
        v = r["violations"][0]
        return {"checker": v["checker"], "input": v["input"], "failed": v["failed"]}
    return None
