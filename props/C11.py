"""C11 -- sub-sampling, cropping, splitting and merging select exactly the specified poses."""
import copy
import math

import numpy as np

from pyvc import bounded as B

ID = "C11"
LEVEL = "proof"
LEVEL_TEXT = ("downsample, motion_filter / filter_by_motion (loop invariant), reduce_to_time_range, _jumps, the four split "
              "methods, reduce_to_ids (both classes), calc_speed and trajectory.merge are verified for trajectories of any "
              "length against contracts stating the property clause by clause: exactly the specified poses are kept, in "
              "order, pose+orientation+timestamp together (one index list applied to every stored representation); splits "
              "are partitions whose cuts are exactly the exceeding steps; merge applies one permutation to stamps, positions "
              "and quaternions.")
LEVEL_NOTE = ("floats as reals; trusted: numpy.linspace(dtype=int) (first, last, floor-with-slack), where, argsort "
              "(permutation, sorted), concatenate, fancy indexing; motion_filter and splits proved for matrix-built "
              "trajectories (quaternion-built: bounded); strictness of down-sampled indices: bounded")
SIDECARS = ["contracts.lie_algebra", "contracts.geometry", "contracts.filters", "contracts.trajectory"]
T = "evo.core.trajectory."
FUNCTIONS = [T + "PosePath3D.reduce_to_ids", T + "PoseTrajectory3D.reduce_to_ids", T + "PosePath3D.downsample",
             "evo.core.filters.filter_by_motion", T + "PosePath3D.motion_filter", T + "PoseTrajectory3D.reduce_to_time_range",
             T + "PosePath3D._jumps", T + "PosePath3D.split_distance_gaps", T + "PoseTrajectory3D.split_distance_gaps",
             T + "PoseTrajectory3D.split_time_gaps", T + "calc_speed", T + "PoseTrajectory3D.split_speed_outliers",
             T + "merge"]
LEMMAS = []
TRUSTED = ["numpy.linspace(0, n-1, N, dtype=int): ids[0]=0, ids[N-1]=n-1, floor(k(n-1)/(N-1)) up to -1, non-decreasing",
           "numpy.where(mask)[0]: increasing list of all true indices", "ndarray.argsort(): permutation sorting the array",
           "numpy.concatenate", "ndarray fancy indexing copies the selected rows"]
ASSUMPTIONS = ["split_speed_outliers is verified under strictly increasing timestamps (otherwise calc_speed raises)"]
EXPLANATION = "each operation is verified with the trajectory's stored representations as symbolic arrays of symbolic length"


def _traj(n, rng, kind="random", stamps=True, from_poses=False):
    from evo.core.trajectory import PoseTrajectory3D, PosePath3D
    if kind == "grid":
        steps = rng.integers(0, 3, size=n).astype(float)
        xyz = np.zeros((n, 3))
        xyz[:, 0] = np.cumsum(steps)
        ang = np.cumsum(rng.integers(0, 3, size=n)) * (math.pi / 8)
    else:
        xyz = np.cumsum(rng.normal(size=(n, 3)) * (rng.random(n)[:, None] > 0.25), axis=0)
        ang = np.cumsum(rng.normal(size=n) * 0.2)
    quat = np.column_stack([np.cos(ang / 2), np.zeros(n), np.zeros(n), np.sin(ang / 2)])
    ts = np.cumsum(rng.choice([0.05, 0.1, 0.1, 2.0], size=n)) if stamps else None
    if stamps:
        t = PoseTrajectory3D(xyz, quat, ts)
        if from_poses:
            t = PoseTrajectory3D(poses_se3=[p.copy() for p in t.poses_se3], timestamps=ts.copy())
    else:
        t = PosePath3D(xyz, quat)
        if from_poses:
            t = PosePath3D(poses_se3=[p.copy() for p in t.poses_se3])
    return t


def _triples(t):
    """(position, quaternion up to sign, stamp) per pose, from *every* representation, checked for agreement"""
    pos = t.positions_xyz
    poses = np.array(t.poses_se3).reshape(-1, 4, 4)
    q = t.orientations_quat_wxyz
    ts = getattr(t, "timestamps", np.zeros(len(pos)))
    ok = len(pos) == len(poses) == len(q) == len(ts) and np.allclose(poses[:, :3, 3], pos, atol=1e-9)
    return pos.copy(), poses.copy(), np.array(ts, dtype=float).copy(), ok


def _same_selection(t_new, pos0, poses0, ts0, ids):
    pos, poses, ts, ok = _triples(t_new)
    if not ok:
        return "representations_disagree"
    ids = list(ids)
    if len(pos) != len(ids):
        return "count %d expected %d" % (len(pos), len(ids))
    if len(ids) and not (np.allclose(pos, pos0[ids], atol=1e-9) and np.allclose(poses, poses0[ids], atol=1e-9)
                         and np.array_equal(ts, ts0[ids])):
        return "kept_poses_are_the_selected_ones"
    return None


def _build(inp):
    rng = np.random.default_rng(inp["seed"])
    return _traj(inp["n"], rng, inp.get("kind", "random"), inp.get("stamps", True), inp.get("from_poses", False)), rng


def chk_downsample(inp):
    from evo.core.trajectory import TrajectoryException
    t, _ = _build(inp)
    pos0, poses0, ts0, _ = _triples(t)
    n, N = inp["n"], inp["N"]
    try:
        t.downsample(N)
        raised = False
    except TrajectoryException:
        raised = True
    if raised != (n > N and N < 1):
        return ["raises_iff_less_than_one_pose"]
    if raised:
        return []
    pos, _, _, _ = _triples(t)
    if len(pos) != min(N, n):
        return ["keeps_exactly_min(N,count) got %d" % len(pos)]
    if n <= N:
        return [] if _same_selection(t, pos0, poses0, ts0, range(n)) is None else ["unchanged_when_already_small"]
    # recover the kept indices from the timestamps (strictly increasing, hence unique)
    ids = np.searchsorted(ts0, t.timestamps)
    f = []
    e = _same_selection(t, pos0, poses0, ts0, ids)
    if e:
        return [e]
    if ids[0] != 0 or (N >= 2 and ids[-1] != n - 1):
        f.append("first_and_last_pose_kept")
    if np.any(np.diff(ids) <= 0):
        f.append("relative_order_kept_no_duplicates")
    if N >= 2:
        x = np.arange(N) * (n - 1) / (N - 1)
        if np.any(ids > x + 1e-9) or np.any(ids < x - 1 - 1e-9):
            f.append("evenly_spaced_by_index")
    return f


def chk_motion(inp):
    from evo.core.filters import FilterException
    t, _ = _build(inp)
    pos0, poses0, ts0, _ = _triples(t)
    d, a, deg = inp["d"], inp["a"], inp["degrees"]
    try:
        t.motion_filter(d, a, deg)
        raised = False
    except FilterException:
        raised = True
    if raised != (inp["n"] < 2 or d < 0 or a < 0):
        return ["raises_iff_too_few_or_negative"]
    if raised:
        return []
    ids = np.searchsorted(ts0, t.timestamps)
    e = _same_selection(t, pos0, poses0, ts0, ids)
    if e:
        return [e]
    ar = math.radians(a) if deg else a
    D = np.concatenate([[0.0], np.cumsum(np.linalg.norm(pos0[1:] - pos0[:-1], axis=1))])

    def ang(i, j):
        r = poses0[i][:3, :3].T @ poses0[j][:3, :3]
        return math.acos(max(-1.0, min(1.0, (np.trace(r) - 1) / 2)))
    exact = inp.get("kind") == "grid"
    eps_d = 0.0 if exact else 1e-9 * max(1.0, D[-1])
    eps_a = 1e-7
    f = []
    if ids[0] != 0:
        f.append("keeps_first_pose")
    kept = set(ids.tolist())
    last = 0
    for i in range(1, inp["n"]):
        dist, an = D[i] - D[last], ang(last, i)
        sure_yes = dist >= d + eps_d or an >= ar + eps_a
        sure_no = dist < d - eps_d and an < ar - eps_a
        if i in kept:
            if sure_no:
                f.append("kept_without_reaching_threshold pose %d" % i)
                break
            last = i
        else:
            if sure_yes:
                f.append("dropped_although_threshold_reached pose %d" % i)
                break
    return f


def chk_crop(inp):
    from evo.core.trajectory import TrajectoryException
    t, _ = _build(inp)
    pos0, poses0, ts0, _ = _triples(t)
    s, e = inp["start"], inp["end"]
    s_eff = ts0[0] if s is None else s
    e_eff = ts0[-1] if e is None else e
    try:
        t.reduce_to_time_range(s, e)
        raised = False
    except TrajectoryException:
        raised = True
    if raised != (s_eff > e_eff):
        return ["raises_iff_start_after_end"]
    if raised:
        return []
    ids = [k for k in range(len(ts0)) if s_eff <= ts0[k] <= e_eff]
    err = _same_selection(t, pos0, poses0, ts0, ids)
    return [err] if err else []


def chk_split(inp):
    t, _ = _build(inp)
    pos0, poses0, ts0, _ = _triples(t)
    n = inp["n"]
    which, thr = inp["which"], inp["thr"]
    if which == "time":
        parts = t.split_time_gaps(thr)
        step = np.diff(ts0)
    elif which == "distance":
        parts = t.split_distance_gaps(thr)
        step = np.linalg.norm(pos0[1:] - pos0[:-1], axis=1)
    else:
        parts = t.split_speed_outliers(thr)
        step = np.linalg.norm(pos0[1:] - pos0[:-1], axis=1) / np.diff(ts0)
    f = []
    sizes = [p.num_poses for p in parts]
    if sum(sizes) != n:
        return ["partition_sizes %r" % sizes]
    start = 0
    exact = inp.get("kind") == "grid" and which != "speed"
    eps = 0.0 if exact else 1e-9 * max(1.0, float(np.max(np.abs(step))) if len(step) else 1.0)
    for p in parts:
        ids = range(start, start + p.num_poses)
        e = _same_selection(p, pos0, poses0, ts0 if hasattr(p, "timestamps") else np.zeros(n), ids)
        if e:
            f.append("concatenating_the_parts_reproduces_the_trajectory: " + e)
            break
        if start > 0 and step[start - 1] <= thr - eps:
            f.append("every_cut_is_at_an_exceeding_step (before %d)" % start)
        for k in range(start, start + p.num_poses - 1):
            if step[k] > thr + eps:
                f.append("no_exceeding_step_inside_a_part (step %d)" % k)
                break
        start += p.num_poses
    return f


def chk_merge(inp):
    from evo.core import trajectory
    rng = np.random.default_rng(inp["seed"])
    ts_all = np.sort(rng.choice(np.arange(1, 5000), size=sum(inp["sizes"]), replace=False)) / 8.0
    perm = rng.permutation(len(ts_all))
    trajs, off = [], 0
    for sz in inp["sizes"]:
        idx = np.sort(perm[off:off + sz])
        off += sz
        t = _traj(sz, rng, "random", True, False)
        t.timestamps = ts_all[idx].copy()
        if inp.get("shared"):
            # timestamps shared between the inputs (segments with a common boundary stamp, sensors on one clock):
            # each input keeps strictly increasing stamps of its own, drawn from one small common pool
            pool = np.arange(1, max(inp["sizes"]) + 4) / 8.0
            t.timestamps = np.sort(rng.choice(pool, size=sz, replace=False))
        trajs.append(t)
    before = [(t.positions_xyz.copy(), t.orientations_quat_wxyz.copy(), t.timestamps.copy()) for t in trajs]
    m = trajectory.merge(trajs)
    f = []
    for t, b in zip(trajs, before):
        if not (np.array_equal(t.positions_xyz, b[0]) and np.array_equal(t.orientations_quat_wxyz, b[1]) and
                np.array_equal(t.timestamps, b[2])):
            f.append("inputs_unchanged")
    if m.num_poses != sum(inp["sizes"]) or len(m.timestamps) != m.num_poses:
        return f + ["contains_every_pose"]
    if np.any(np.diff(m.timestamps) < 0):
        f.append("time_sorted")
    # the merged (stamp, position, orientation) triples are the union of the inputs' triples as a multiset
    # (equal stamps may come out in either order: the property fixes the time order only)
    want = sorted((float(b[2][k]), tuple(map(float, b[0][k])), tuple(map(float, b[1][k])))
                  for b in before for k in range(len(b[2])))
    got = sorted((float(m.timestamps[k]), tuple(map(float, m.positions_xyz[k])),
                  tuple(map(float, m.orientations_quat_wxyz[k]))) for k in range(m.num_poses))
    if want != got:
        k = next(i for i, (x, y) in enumerate(zip(want, got)) if x != y)
        f.append("every_pose_keeps_its_own_timestamp_and_orientation (triple %d of the sorted union)" % k)
    return f


CHECKERS = {"downsample": chk_downsample, "motion": chk_motion, "crop": chk_crop, "split": chk_split, "merge": chk_merge}


def _cases(tier, seed):
    rng = np.random.default_rng(seed + 1111)
    maxn = 300 if tier == "quick" else 5000
    # all target counts 1..n+2 for small n (boundary counts), both storage modes
    for n in list(range(1, 14)) + [50]:
        for N in list(range(-1, n + 3)):
            yield ("downsample", {"seed": n * 100 + 7, "n": n, "N": N, "from_poses": bool(N % 2)})
    K = 120 if tier == "quick" else 4000
    for it in range(K):
        n = int(rng.integers(1, 25)) if it % 3 else int(rng.integers(1, maxn))
        sd = int(rng.integers(0, 10**9))
        kind = "grid" if it % 2 else "random"
        fp = bool(it % 4 < 2)
        yield ("downsample", {"seed": sd, "n": n, "N": int(rng.integers(1, n + 3)), "from_poses": fp})
        yield ("motion", {"seed": sd, "n": n, "kind": kind, "from_poses": fp,
                          "d": float(rng.choice([0.0, 1.0, 2.0, 0.37, -1.0])),
                          "a": float(rng.choice([0.0, 22.5, 45.0, 10.0, 400.0])) if it % 2 else
                          float(rng.choice([0.0, math.pi / 8, 0.3, 10.0])), "degrees": bool(it % 2)})
        ts_hint = n * 0.5
        yield ("crop", {"seed": sd, "n": n, "from_poses": fp,
                        "start": [None, 0.0, float(rng.uniform(-1, ts_hint)), 1e9][it % 4],
                        "end": [None, float(rng.uniform(-1, ts_hint)), 1e9, -5.0][(it // 4) % 4]})
        if n >= 1:
            which = ["time", "distance", "speed"][it % 3]
            thr = {"time": float(rng.choice([0.05, 0.1, 1.0, 5.0])), "distance": float(rng.choice([0.0, 1.0, 2.0, 0.5])),
                   "speed": float(rng.choice([1.0, 10.0, 30.0]))}[which]
            yield ("split", {"seed": sd, "n": n, "kind": kind, "from_poses": fp, "which": which, "thr": thr})
        yield ("merge", {"seed": sd, "sizes": [int(x) for x in rng.integers(1, 12, size=int(rng.integers(1, 7)))],
                         "shared": bool(it % 3 == 0)})


def bounded(tier, seed):
    return B.run(CHECKERS, _cases(tier, seed),
                 rule="trajectories built from positions+quaternions and from matrices, 1..%d poses, exact-grid and random "
                      "geometry with stationary stretches and jumps, irregular sampling; all target counts -1..n+2 for "
                      "n <= 13; thresholds incl. 0 and values hit exactly (grid); crop intervals empty / one-sided / outside; "
                      "1..6 trajectories with interleaved stamps, every third case with stamps shared between the inputs; each kept pose compared as a (position, matrix, stamp) triple"
                      % (300 if tier == "quick" else 5000),
                 bounds={"max_poses": 300 if tier == "quick" else 5000, "seed": seed})


def concretize(vc, tier, seed):
    r = bounded("quick", seed + 1)
    if r["violations"]:
        v = r["violations"][0]
        return {"checker": v["checker"], "input": v["input"], "failed": v["failed"]}
    return None
