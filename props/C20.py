"""C20 -- plots draw the trajectory's own coordinates on the labelled axes."""
import os
import numpy as np
from pyvc import bounded as B
from props import pipeline as P
from contracts import overwrite as _ow

ID = "C20"
LEVEL = "proof"
LEVEL_TEXT = ("plot_mode_to_idx (all 7 modes: the whole domain), prepare_axis (7 modes x 3 length units: labels name the "
              "plotted coordinates and the unit, 3-D axes only for xyz), traj (7 modes, trajectories of any length: the line's "
              "data are the columns of the trajectory's own positions named by the mode, in pose order) and traj_xyz (x / y / z "
              "against the timestamps, shifted by the start time, or against the pose index - never shifted; labels), traj_rpy (angle i "
              "of pose k in degrees in subplot i at position k, same x axis rules; the Euler angles themselves are an opaque ghost "
              "array), add_start_end_markers "
              "(first / last pose, the axes of the mode) and speeds (value k at the timestamp of pose k+1) are verified against a "
              "ghost Axes that records what reaches matplotlib.  Colour-mapped segments, start / end markers, coordinate-frame "
              "markers, correspondence edges, values of roll/pitch/yaw, speeds and error-value plots: bounded stand-in that inspects the "
              "real matplotlib artists (Agg backend).")
LEVEL_NOTE = ("matplotlib itself is outside the model (ghost Axes records calls); set_aspect_equal replaced by a no-op; "
              "line collections and 3-D artists: bounded stand-in only")
SIDECARS = ["contracts.lie_algebra", "contracts.geometry", "contracts.filters", "contracts.umeyama", "contracts.trajectory",
            "contracts.overwrite", "contracts.plots"]
OVERRIDES = _ow.OVERRIDES
PL = "evo.tools.plot."
FUNCTIONS = [PL + "plot_mode_to_idx", PL + "prepare_axis", PL + "traj", PL + "traj_xyz", PL + "traj_rpy", PL + "add_start_end_markers", PL + "speeds"]
LEMMAS = []
TRUSTED = ["Axes.plot(x, y[, z]) draws the given data in order; Axes.set_xlabel etc. set the label"]
ASSUMPTIONS = ["rendering (matplotlib) trusted; ros_map / map_tile not covered"]
EXPLANATION = "ghost Axes recording data arguments; symbolic-length trajectories"


AXI = {"x": 0, "y": 1, "z": 2}


def _mk(rng, n, stamps=True):
    ref, est = P.rand_pair(rng, n, noise=0.1, stamps=stamps)
    return ref, est


def _seg_array(coll, three_d):
    if three_d:
        return np.array([np.array(s) for s in coll._segments3d])
    return np.array([np.array(s) for s in coll.get_segments()])


def chk_mode(inp):
    """everything drawn into a trajectory axis for one plot mode"""
    import matplotlib
    matplotlib.use("Agg")
    import matplotlib.pyplot as plt
    from matplotlib.collections import LineCollection, PathCollection
    from evo.tools import plot
    from evo.core.units import Unit
    rng = np.random.default_rng(inp["seed"])
    n = inp["n"]
    ref, est = _mk(rng, n, stamps=inp["stamps"])
    mode = plot.PlotMode[inp["mode"]]
    nm = inp["mode"]
    idx = [AXI[c_] for c_ in nm]
    three = nm == "xyz"
    unit = Unit[inp["unit"]]
    f = []
    fig = plt.figure()
    try:
        ax = plot.prepare_axis(fig, mode, length_unit=unit)
        labs = [ax.get_xlabel(), ax.get_ylabel()] + ([ax.get_zlabel()] if three else [])
        for lab, letter in zip(labs, nm):
            if ("$%s$" % letter) not in lab or ("(%s)" % unit.value) not in lab:
                f.append("axis_label_names_the_plotted_coordinate_and_unit: %r for %s" % (lab, letter))
        pos = est.positions_xyz
        what = inp["what"]
        if what == "traj":
            plot.traj(ax, mode, est, plot_start_end_markers=True, label="est")
            ln = ax.lines[-1]
            data = ln.get_data_3d() if three else ln.get_data()
            for d_, i in zip(data, idx):
                if not np.array_equal(np.asarray(d_, dtype=float), pos[:, i]):
                    f.append("trajectory_line_drawn_at_the_trajectory's_own_%s_coordinates_in_pose_order" % "xyz"[i])
            pcs = [c_ for c_ in ax.collections if isinstance(c_, PathCollection)]
            if len(pcs) != 2:
                f.append("start_and_end_marker_present (%d markers)" % len(pcs))
            else:
                for pc, p_, nm_ in zip(pcs, (pos[0], pos[-1]), ("start", "end")):
                    off = np.array([np.asarray(o).ravel()[0] for o in pc._offsets3d]) if three else np.asarray(pc.get_offsets())[0]
                    if not np.allclose(off, p_[idx], atol=0, rtol=0):
                        f.append("%s_marker_at_the_%s_pose" % (nm_, "first" if nm_ == "start" else "last"))
        elif what == "colormap":
            err = np.abs(rng.normal(size=n))
            plot.traj_colormap(ax, est, err, mode, float(err.min()), float(err.max()), fig=fig, plot_start_end_markers=False)
            lc = [c_ for c_ in ax.collections if isinstance(c_, LineCollection) or type(c_).__name__ == "Line3DCollection"][-1]
            segs = _seg_array(lc, three)
            exp = np.stack([pos[:-1][:, idx], pos[1:][:, idx]], axis=1)
            if segs.shape != exp.shape or not np.array_equal(segs, exp):
                f.append("colour-mapped_segments_join_consecutive_poses_at_their_own_coordinates")
            cols = np.asarray(lc.get_colors() if not three else lc.get_edgecolor())
            import matplotlib as mpl
            mapper = mpl.cm.ScalarMappable(norm=mpl.colors.Normalize(vmin=float(err.min()), vmax=float(err.max()), clip=True),
                                           cmap=plot.SETTINGS.plot_trajectory_cmap)
            expc = np.array([mapper.to_rgba(e) for e in err])
            if len(cols) >= n - 1 and not np.allclose(cols[:n - 1], expc[:n - 1], atol=1e-12):
                f.append("segment_colour_is_the_colour_of_its_error_value_in_order")
        elif what == "axes":
            sc = 0.3
            plot.draw_coordinate_axes(ax, est, mode, marker_scale=sc)
            lc = ax.collections[-1]
            segs = _seg_array(lc, three)
            P_ = np.array(est.poses_se3)
            exp = []
            for a_ in range(3):
                for k in range(n):
                    exp.append([P_[k][:3, 3][idx], (P_[k][:3, 3] + sc * P_[k][:3, a_])[idx]])
            exp = np.array(exp)
            if segs.shape != exp.shape or not np.allclose(segs, exp, atol=1e-12):
                f.append("coordinate-frame_markers_start_at_the_pose_positions_and_point_along_the_pose's_own_axes")
        elif what == "edges":
            plot.draw_correspondence_edges(ax, est, ref, mode)
            lc = ax.collections[-1]
            segs = _seg_array(lc, three)
            exp = np.stack([est.positions_xyz[:, idx], ref.positions_xyz[:, idx]], axis=1)
            if segs.shape != exp.shape or not np.array_equal(segs, exp):
                f.append("correspondence_edges_join_pose_k_of_one_trajectory_with_pose_k_of_the_other")
    finally:
        plt.close("all")
    return f


def chk_series(inp):
    """per-axis position, roll/pitch/yaw, speed and error-value plots"""
    import matplotlib
    matplotlib.use("Agg")
    import matplotlib.pyplot as plt
    from evo.tools import plot
    from evo.core import transformations as tr
    rng = np.random.default_rng(inp["seed"])
    n = inp["n"]
    ref, est = _mk(rng, n, stamps=inp["stamps"])
    start = inp.get("start")
    f = []
    try:
        xexp = (est.timestamps - start if start else est.timestamps) if inp["stamps"] else np.arange(n, dtype=float)
        if inp["what"] == "xyz":
            fig, axarr = plt.subplots(3)
            plot.traj_xyz(axarr, est, start_timestamp=start)
            for i in range(3):
                x, y = axarr[i].lines[-1].get_data()
                if not np.array_equal(y, est.positions_xyz[:, i]):
                    f.append("position_plot_%s_shows_that_coordinate" % "xyz"[i])
                if not np.array_equal(x, xexp):
                    f.append("position_plot_%s_against_the_timestamps_shifted_by_the_start_time_or_the_index" % "xyz"[i])
                if ("$%s$" % "xyz"[i]) not in axarr[i].get_ylabel():
                    f.append("position_plot_label_%s" % "xyz"[i])
        elif inp["what"] == "rpy":
            fig, axarr = plt.subplots(3)
            plot.traj_rpy(axarr, est, start_timestamp=start)
            ang = np.array([tr.euler_from_matrix(p, plot.SETTINGS.euler_angle_sequence) for p in est.poses_se3])
            for i, nm in enumerate(("roll", "pitch", "yaw")):
                x, y = axarr[i].lines[-1].get_data()
                if not np.allclose(y, np.degrees(ang[:, i]), atol=1e-9):
                    f.append("%s_plot_shows_the_pose's_%s_in_degrees" % (nm, nm))
                if not np.array_equal(x, xexp):
                    f.append("%s_plot_against_the_timestamps_or_index" % nm)
                if nm not in axarr[i].get_ylabel():
                    f.append("%s_plot_label" % nm)
        elif inp["what"] == "speeds":
            if not inp["stamps"]:
                return []
            fig = plt.figure()
            ax = fig.gca()
            plot.speeds(ax, est, start_timestamp=start)
            x, y = ax.lines[-1].get_data()
            v = np.linalg.norm(np.diff(est.positions_xyz, axis=0), axis=1) / np.diff(est.timestamps)
            if not np.allclose(y, v, rtol=1e-9):
                f.append("speed_plot_shows_distance_over_time_between_consecutive_poses")
            if not np.array_equal(x, xexp[1:]):
                f.append("speed_value_shown_at_the_timestamp_of_the_newer_pose")
        else:
            fig = plt.figure()
            ax = fig.gca()
            err = np.abs(rng.normal(size=n))
            xs = np.cumsum(rng.random(n)) if inp.get("with_x") else None
            plot.error_array(ax, err, x_array=xs, cumulative=inp.get("cumulative", False), statistics={"mean": 1.0, "std": 0.5})
            x, y = ax.lines[0].get_data()
            if not np.allclose(y, np.cumsum(err) if inp.get("cumulative") else err, rtol=1e-15, atol=0):
                f.append("error_plot_shows_the_values_in_order")
            if not np.array_equal(x, xs if xs is not None else np.arange(n)):
                f.append("error_plot_against_the_given_x_array_in_order")
    finally:
        plt.close("all")
    return f


CHECKERS = {"mode": chk_mode, "series": chk_series}
MODES = ["xy", "xz", "yx", "yz", "zx", "zy", "xyz"]


def _cases(tier, seed):
    rng = np.random.default_rng(seed + 2020)
    reps = 1 if tier == "quick" else 12
    for r in range(reps):
        for mi, m in enumerate(MODES):
            for wi, what in enumerate(("traj", "colormap", "axes", "edges")):
                yield ("mode", {"seed": int(rng.integers(0, 10**9)), "n": int(rng.integers(2, 30 if tier == "quick" else 500)),
                                "mode": m, "what": what, "unit": ["meters", "millimeters", "centimeters", "kilometers"][(mi + wi + r) % 4],
                                "stamps": bool((mi + wi + r) % 2)})
        for what in ("xyz", "rpy", "speeds", "error"):
            for st in (True, False):
                for start in (None, 1.4e9):
                    yield ("series", {"seed": int(rng.integers(0, 10**9)), "n": int(rng.integers(2, 40)), "what": what, "stamps": st,
                                      "start": start, "with_x": bool(start), "cumulative": bool(start) and st})


def bounded(tier, seed):
    return B.run(CHECKERS, _cases(tier, seed),
                 rule="random trajectories (2..30 poses quick, ..500 thorough) drawn with the real matplotlib (Agg) in all 7 plot "
                      "modes x length units: line data, colour-mapped segments and their colours, start / end markers, coordinate "
                      "axes markers, correspondence edges and axis labels read back from the artists; per-axis position, "
                      "roll/pitch/yaw, speed and error-value plots with / without timestamps and start time", bounds={"seed": seed})


def concretize(vc, tier, seed):
    r = bounded("quick", seed + 1)
    if r["violations"]:
        v = r["violations"][0]
        return {"checker": v["checker"], "input": v["input"], "failed": v["failed"]}
    return None
