"""C02 -- RPE values equal the definition over exactly the selected pose pairs."""
import copy
import math

import numpy as np

from pyvc import bounded as B
from props import pipeline as P

ID = "C02"
LEVEL = "proof"
LEVEL_TEXT = ("RPE.rpe_base and RPE.process_data are verified for pose sequences of any length, all 7 pose relations and both "
              "pair sources: one value per selected pair, E = (Q_i^-1 Q_j)^-1 (P_i^-1 P_j) reduced like APE, point-distance "
              "variants on straight-line distances, the ratio variant in percent with zero reference distances skipped and "
              "the end-index list filtered alike, same length and order of values and end indices, unequal lengths refused, "
              "inputs untouched; the pair selectors are cut by their C10 contracts.  Independence of separate rigid motions "
              "and zero for equal relative motions are lemmas (Groebner).  main_rpe.rpe is verified as an event-order contract "
              "(reference first, processing order, stored trajectories reduced to pose 0 and the pair ends); evo_rpe run(): "
              "bounded stand-in.")
LEVEL_NOTE = ("floats as reals; trusted as C01 plus ndarray.nonzero; process_data verified with the selector abstracted by "
              "the contract of id_pairs_from_delta (C10); rpe(): wiring proof with recording stand-ins; run(): bounded")
SIDECARS = ["contracts.lie_algebra", "contracts.lemmas_lie", "contracts.geometry", "contracts.filters", "contracts.metrics",
            "contracts.lemmas_metrics",
            "contracts.overwrite", "contracts.ape_rpe_cli"]
FUNCTIONS = ["evo.core.lie_algebra.relative_se3", "evo.core.metrics.RPE.rpe_base", "evo.core.metrics.RPE.process_data",
             "evo.core.metrics.id_pairs_from_delta",
             "evo.main_rpe.rpe"]
LEMMAS = ["relative_pose_invariant_under_common_left_motion", "rpe_independent_of_separate_rigid_motions",
          "rpe_zero_for_equal_relative_motions"]
EXPECTED_OUT_OF_REACH = {}
TRUSTED = ["scipy rotation angle", "numpy.linalg.norm", "ndarray.nonzero()[0]: increasing list of the non-zero indices"]
ASSUMPTIONS = ["poses are exact SE(3) matrices", "main_rpe.rpe() / run(): bounded stand-in only"]
EXPLANATION = "per-pair postcondition over the selector's result (ghost witness), generic-index comprehension semantics"

RELS = ["full_transformation", "translation_part", "rotation_part", "rotation_angle_rad", "rotation_angle_deg",
        "point_distance", "point_distance_error_ratio"]


def _pair(inp):
    rng = np.random.default_rng(inp["seed"])
    ref, est = P.rand_pair(rng, inp["n"], noise=inp.get("noise", 0.05), scale=1.0, stamps=inp.get("stamps", True),
                           from_poses=inp.get("from_poses", False))
    if inp.get("stationary"):
        # stationary stretches: zero reference distances
        pos = ref.positions_xyz.copy()
        for k in range(1, len(pos)):
            if k % 3:
                pos[k] = pos[k - 1]
        from evo.core.trajectory import PoseTrajectory3D
        ref = PoseTrajectory3D(pos, ref.orientations_quat_wxyz.copy(), ref.timestamps.copy())
    return (ref, est), rng


def _oracle(rel, ref, est, pairs):
    out, ids = [], []
    for i, j in pairs:
        if rel in ("point_distance", "point_distance_error_ratio"):
            dr = float(np.linalg.norm(ref.positions_xyz[i] - ref.positions_xyz[j]))
            de = float(np.linalg.norm(est.positions_xyz[i] - est.positions_xyz[j]))
            if rel == "point_distance":
                out.append(abs(dr - de))
                ids.append(j)
            elif dr != 0:
                out.append(abs(dr - de) / dr * 100)
                ids.append(j)
        else:
            E = P.rel(P.rel(ref.poses_se3[i], ref.poses_se3[j]), P.rel(est.poses_se3[i], est.poses_se3[j]))
            out.append(P.reduce_value(rel, E))
            ids.append(j)
    return out, ids


def chk_values(inp):
    from evo.core import metrics
    from evo.core.units import Unit
    (ref, est), rng = _pair(inp)
    rel = inp["relation"]
    unit = Unit[inp["unit"]]
    ref0, est0 = copy.deepcopy(ref), copy.deepcopy(est)
    m = metrics.RPE(metrics.PoseRelation[rel], inp["delta"], unit, inp["rel_tol"], inp["all_pairs"], inp["from_ref"])
    try:
        m.process_data((ref, est))
    except metrics.filters.FilterException:
        return []
    src = ref0 if inp["from_ref"] else est0
    pairs = metrics.id_pairs_from_delta(src.poses_se3, m.delta, unit, inp["rel_tol"], inp["all_pairs"])
    exp, ids = _oracle(rel, ref0, est0, pairs)
    f = []
    if list(map(int, m.delta_ids)) != list(map(int, ids)):
        f.append("end_indices_line_up %r != %r" % (list(m.delta_ids)[:5], ids[:5]))
    e = P.values_match(rel if "ratio" not in rel else "ratio", list(m.error), exp,
                       100.0 if "ratio" in rel else float(np.abs(ref0.positions_xyz).max()))
    if e:
        f.append("value_is_the_definition[%s] %s" % (rel, e))
    if ref != ref0 or est != est0:
        f.append("trajectories_untouched")
    if f:
        return f
    # different rigid motions of reference and estimate change nothing (pairs from index: selection unaffected)
    if unit.name == "frames" and "ratio" not in rel:
        A, Bm = B.rand_se3(rng, "uniform", tmag=(-1, 2)), B.rand_se3(rng, "uniform", tmag=(-1, 2))
        r2, e2 = copy.deepcopy(ref0), copy.deepcopy(est0)
        r2.transform(A)
        e2.transform(Bm)
        m2 = metrics.RPE(metrics.PoseRelation[rel], inp["delta"], unit, inp["rel_tol"], inp["all_pairs"], inp["from_ref"])
        m2.process_data((r2, e2))
        e = P.values_match(rel, list(m2.error), list(m.error), float(np.abs(r2.positions_xyz).max()) * 100)
        if e:
            f.append("independent_of_separate_rigid_motions " + e)
        m3 = metrics.RPE(metrics.PoseRelation[rel], inp["delta"], unit, inp["rel_tol"], inp["all_pairs"], inp["from_ref"])
        m3.process_data((ref0, copy.deepcopy(ref0)))
        if np.abs(m3.error).max() > (1e-7 if "angle" in rel else 1e-9 * max(1.0, float(np.abs(ref0.positions_xyz).max()))):
            f.append("zero_for_equal_relative_motions")
    return f


def chk_refuse(inp):
    from evo.core import metrics
    from evo.core.units import Unit
    (ref, est), rng = _pair(inp)
    est.reduce_to_ids(list(range(inp["n"] - 1)))
    m = metrics.RPE(metrics.PoseRelation[inp["relation"]], 1, Unit.frames)
    try:
        m.process_data((ref, est))
    except metrics.MetricsException:
        return []
    return ["different_lengths_refused"]


def chk_rpe_pipeline(inp):
    from evo import main_rpe
    from evo.core import metrics
    from evo.core.units import Unit
    from evo.core.trajectory import Plane
    (ref, est), rng = _pair(inp)
    rel = inp["relation"]
    plane = Plane(inp["plane"]) if inp.get("plane") else None
    kw = dict(align=inp["align"], correct_scale=inp["correct_scale"], n_to_align=-1, align_origin=inp["align_origin"])
    ref_s, est_s = P.spec_pipeline(ref, est, plane=plane, **kw)
    res = main_rpe.rpe(copy.deepcopy(ref), copy.deepcopy(est), metrics.PoseRelation[rel], inp["delta"], Unit.frames,
                       all_pairs=inp["all_pairs"], project_to_plane=plane, **kw)
    pairs = metrics.id_pairs_from_delta(est_s.poses_se3, inp["delta"], Unit.frames, 0.1, inp["all_pairs"])
    exp, ids = _oracle(rel, ref_s, est_s, pairs)
    e = P.values_match(rel, list(res.np_arrays["error_array"]), exp, float(np.abs(ref.positions_xyz).max()) * 1e3)
    return ["stored_values_are_the_values_of_the_pairs_on_the_processed_trajectories " + e] if e else []


CHECKERS = {"values": chk_values, "refuse": chk_refuse, "rpe_pipeline": chk_rpe_pipeline}


def _cases(tier, seed):
    rng = np.random.default_rng(seed + 202)
    K = 50 if tier == "quick" else 350
    for it in range(K):
        n = int(rng.integers(3, 15)) if it % 3 else int(rng.integers(3, 200 if tier == "quick" else 1500))
        sd = int(rng.integers(0, 10**9))
        unit = ["frames", "meters", "radians", "degrees"][it % 4]
        delta = {"frames": int(rng.integers(1, 5)), "meters": float(rng.uniform(0.2, 3)),
                 "radians": float(rng.uniform(0.1, 1.0)), "degrees": float(rng.uniform(5, 60))}[unit]
        for rel in RELS:
            yield ("values", {"seed": sd, "n": n, "relation": rel, "unit": unit, "delta": delta, "rel_tol": 0.1,
                              "all_pairs": bool(it % 2) and n <= 60, "from_ref": bool((it // 2) % 2),
                              "from_poses": bool(it % 2), "stationary": rel.startswith("point") and it % 2 == 0})
        yield ("refuse", {"seed": sd, "n": n, "relation": RELS[it % 7]})
        yield ("rpe_pipeline", {"seed": sd, "n": max(n, 5), "relation": RELS[it % 5], "delta": 1 + it % 3,
                                "all_pairs": bool(it % 2), "align": bool(it & 1), "correct_scale": bool(it & 2),
                                "align_origin": bool(it & 4), "plane": [None, "xy", "xz", "yz"][it % 4]})


def bounded(tier, seed):
    return B.run(CHECKERS, _cases(tier, seed),
                 rule="synchronised pairs x delta in frames/meters/radians/degrees x consecutive|all_pairs x pairs_from_reference "
                      "x 7 relations, stationary stretches (zero reference distances) injected; values and end indices vs. the "
                      "definition on the selector's pairs; separate rigid motions; rpe() flag combinations x planes",
                 bounds={"max_poses": 200 if tier == "quick" else 1500, "seed": seed})


def concretize(vc, tier, seed):
    r = bounded("quick", seed + 1)
    if r["violations"]:
        v = r["violations"][0]
        return {"checker": v["checker"], "input": v["input"], "failed": v["failed"]}
    return None
