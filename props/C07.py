"""C07 -- readers/writers follow the published file conventions; malformed files are rejected."""
import io
import json
import math
import os

import numpy as np

from pyvc import bounded as B
from props import pipeline as P
from contracts import overwrite as _ow

ID = "C07"
LEVEL = "proof"
LEVEL_TEXT = ("the TUM, KITTI and EuRoC readers are verified against the published conventions over a symbolic token matrix of "
              "any number of rows (assumed contract of csv_read_matrix; numpy's string->float conversion trusted): "
              "FileInterfaceException exactly when there is no data row, row 0 has the wrong width, the rows are ragged or a "
              "token is not numeric; otherwise one pose per row in file order with timestamp / position / quaternion (w last "
              "in TUM, w first in EuRoC, nanoseconds -> seconds) / the 12 row-major matrix entries in the published slots.  "
              "The TUM and KITTI writers hand numpy.savetxt exactly the rows of the convention, space separated.  "
              "quaternion_matrix = Hamilton matrix of the normalised quaternion with w first (Groebner), "
              "xyz_quat_wxyz_to_se3_poses pose by pose, load_transform_json (keys x y z qx qy qz qw + optional scale -> "
              "sim3(R(qw,qx,qy,qz), (x,y,z), scale or 1), missing key refused).  Bytes, BOM, comment lines, CRLF, float "
              "spellings, npy / txt transform files and the SE(3)/Sim(3) validation of load_transform: bounded stand-in with "
              "an independent parser of the conventions.")
LEVEL_NOTE = ("csv_read_matrix (text, csv module, BOM) is an assumed contract exercised by the bounded stand-in; numpy "
              "conversion trusted; widths enumerated (7/8/9, 11/12/13, 7/8/17 columns)")
SIDECARS = ["contracts.lie_algebra", "contracts.geometry", "contracts.filters", "contracts.umeyama", "contracts.trajectory",
            "contracts.overwrite", "contracts.fileio", "contracts.quaternion"]
from contracts import quaternion as _qt
OVERRIDES = dict(_ow.OVERRIDES, json=_qt.JSON)
FI = "evo.tools.file_interface."
FUNCTIONS = [FI + "read_tum_trajectory_file", FI + "read_kitti_poses_file", FI + "read_euroc_csv_trajectory",
             FI + "write_tum_trajectory_file", FI + "write_kitti_poses_file",
             "evo.core.transformations.quaternion_matrix", "evo.core.trajectory.xyz_quat_wxyz_to_se3_poses",
             FI + "load_transform_json"]
LEMMAS = []
TRUSTED = ["numpy.array(rows).astype(float): ValueError iff ragged or non-numeric, else float() per token",
           "numpy.savetxt: line i = row i formatted with fmt, joined by the delimiter"]
ASSUMPTIONS = ["assumed contract: csv_read_matrix returns the token matrix of the non-comment lines (bounded stand-in only)",
               "load_transform (file type dispatch, is_sim3 validation): bounded stand-in only"]
EXPLANATION = "symbolic token matrix; readers and writers as slot maps checked against the published column conventions"

SPELL = [lambda x: repr(x), lambda x: "%.17g" % x, lambda x: "%.18e" % x, lambda x: ("+" if x >= 0 else "") + repr(x),
         lambda x: repr(x).upper() if "e" in repr(x) else repr(x)]


def _quat_to_R(w, x, y, z):
    """Hamilton convention, unit quaternion (w first) -- written from the textbook formula, independent of evo"""
    n = math.sqrt(w * w + x * x + y * y + z * z)
    w, x, y, z = w / n, x / n, y / n, z / n
    return np.array([[1 - 2 * (y * y + z * z), 2 * (x * y - z * w), 2 * (x * z + y * w)],
                     [2 * (x * y + z * w), 1 - 2 * (x * x + z * z), 2 * (y * z - x * w)],
                     [2 * (x * z - y * w), 2 * (y * z + x * w), 1 - 2 * (x * x + y * y)]])


def _text(rows, delim, rng, comments=True, crlf=False, bom=False, header=None):
    lines = []
    if header:
        lines.append(header)
    for r in rows:
        if comments and rng.random() < 0.15:
            lines.append("# a comment line" + delim + "1 2 3")
        lines.append(delim.join(r))
    if comments and rng.random() < 0.5:
        lines.append("#trailing comment")
    nl = "\r\n" if crlf else "\n"
    data = (nl.join(lines) + nl).encode("utf-8")
    return (b"\xef\xbb\xbf" if bom else b"") + data


def _numbers(rng, n, w, kind):
    M = rng.normal(size=(n, w)) * 10.0 ** rng.integers(-3, 4, size=(n, w))
    if kind == "tum":
        M[:, 0] = 1.4e9 + np.cumsum(rng.uniform(0.01, 0.2, size=n))
    if kind == "euroc":
        M[:, 0] = np.floor(1.4e18 + np.cumsum(rng.uniform(1e7, 2e8, size=n)))
    return M


def chk_read(inp):
    """a file written in the published convention by an independent writer is loaded to exactly its numbers, in the
    right slots (path and handle variants, comments, BOM, CRLF, float spellings)"""
    from evo.tools import file_interface as fi
    rng = np.random.default_rng(inp["seed"])
    n, kind = inp["n"], inp["kind"]
    w = {"tum": 8, "kitti": 12, "euroc": 8 + inp.get("extra", 0)}[kind]
    M = _numbers(rng, n, w, kind)
    if kind in ("tum", "euroc"):
        qs = slice(4, 8)
        q = rng.normal(size=(n, 4))
        M[:, qs] = q / np.linalg.norm(q, axis=1, keepdims=True)
    sp = SPELL[inp["spell"] % len(SPELL)]
    rows = [[(("%d" % v) if (kind == "euroc" and j == 0) else sp(float(v))) for j, v in enumerate(r)] for r in M]
    vals = np.array([[float(t) for t in r] for r in rows])
    delim = "," if kind == "euroc" else " "
    data = _text(rows, delim, rng, comments=inp["comments"], crlf=inp["crlf"], bom=inp["bom"] and not inp["handle"],
                 header="#timestamp [ns],p_RS_R_x [m],..." if kind == "euroc" else None)
    d = P.workdir("C07")
    p = os.path.join(d, "f_%d.txt" % inp["seed"])
    open(p, "wb").write(data)
    reader = {"tum": fi.read_tum_trajectory_file, "kitti": fi.read_kitti_poses_file, "euroc": fi.read_euroc_csv_trajectory}[kind]
    try:
        if inp["handle"]:
            with open(p, "r", newline=None) as fh:
                t = reader(fh)
        else:
            t = reader(p)
    except fi.FileInterfaceException as e:
        return ["file_that_follows_the_convention_is_loaded (%s%s%s): refused: %s" % (
            kind, ", BOM" if inp["bom"] and not inp["handle"] else "", ", CRLF" if inp["crlf"] else "", str(e)[:80])]
    f = []
    if t.num_poses != n:
        return ["one_pose_per_data_row: %d poses from %d rows" % (t.num_poses, n)]
    if kind == "kitti":
        P_ = np.array(t.poses_se3)
        exp = np.zeros((n, 4, 4))
        exp[:, :3, :] = vals.reshape(n, 3, 4)
        exp[:, 3, 3] = 1.0
        if not np.array_equal(P_, exp):
            f.append("kitti_rows_are_the_12_row-major_entries_of_the_3x4_matrix")
        return f
    stamps = vals[:, 0] / 1e9 if kind == "euroc" else vals[:, 0]
    if not np.array_equal(t.timestamps, stamps):
        f.append("timestamps_are_column_0%s" % ("_nanoseconds_converted_to_seconds" if kind == "euroc" else ""))
    if not np.array_equal(t.positions_xyz, vals[:, 1:4]):
        f.append("positions_are_columns_1_2_3")
    wxyz = vals[:, [7, 4, 5, 6]] if kind == "tum" else vals[:, 4:8]
    if not np.array_equal(t.orientations_quat_wxyz, wxyz):
        f.append("quaternion_components_in_the_published_slots (%s)" % ("qx qy qz qw" if kind == "tum" else "qw qx qy qz"))
    for k in range(0, n, max(1, n // 5)):
        R = _quat_to_R(*wxyz[k])
        if not np.allclose(t.poses_se3[k][:3, :3], R, atol=1e-12) or not np.array_equal(t.poses_se3[k][:3, 3], vals[k, 1:4]):
            f.append("pose_matrix_is_the_rotation_of_the_quaternion_w_x_y_z_and_the_position (row %d)" % k)
            break
    return f


def chk_malformed(inp):
    """a defect anywhere in the file is refused with FileInterfaceException, never loaded partially"""
    from evo.tools import file_interface as fi
    rng = np.random.default_rng(inp["seed"])
    n, kind, defect = inp["n"], inp["kind"], inp["defect"]
    w = {"tum": 8, "kitti": 12, "euroc": 8 + (9 if inp["seed"] % 3 else 0)}[kind]   # EuRoC files usually carry 17 columns
    M = _numbers(rng, n, w, kind)
    rows = [[repr(float(v)) for v in r] for r in M]
    delim = "," if kind == "euroc" else " "
    r_, c_ = inp["row"] % max(n, 1), inp["col"] % w
    if kind == "euroc" and w > 8 and inp["seed"] % 2:
        c_ = 8 + inp["col"] % (w - 8)          # defect in the columns the reader does not use
    if defect == "too_few_columns":
        del rows[r_][c_]
        if kind == "euroc" and n == 1 and len(rows[0]) >= 8:
            return []            # a single row with >= 8 columns is the EuRoC format itself
    elif defect == "too_many_columns":
        if kind == "euroc" and n == 1:
            return []            # more than 8 columns is the EuRoC format itself; one differing row among many is not
        rows[r_].insert(c_, "1.0")
    elif defect == "non_numeric":
        rows[r_][c_] = ["abc", "1.0.0", "--1", "1,5" if delim == " " else "1 5", "nan?"][inp["seed"] % 5]
    elif defect == "trailing_delimiter":
        rows[r_].append("")
    elif defect == "blank_row":
        rows.insert(r_, [""]) if n else None
        if not n:
            return []
    elif defect == "no_data_rows":
        rows = []
    data = _text(rows, delim, rng, comments=defect == "no_data_rows" or inp["seed"] % 2 == 0)
    if defect == "blank_row":
        data = data.replace(b"\n\n", b"\n \n" if delim == " " else b"\n,\n") if inp["seed"] % 2 else data
    d = P.workdir("C07")
    p = os.path.join(d, "m_%d.txt" % inp["seed"])
    open(p, "wb").write(data)
    reader = {"tum": fi.read_tum_trajectory_file, "kitti": fi.read_kitti_poses_file, "euroc": fi.read_euroc_csv_trajectory}[kind]
    try:
        t = reader(p)
    except fi.FileInterfaceException:
        return []
    except Exception as e:
        return ["rejected_with_evo's_file-format_error[%s row %d col %d]: raised %s instead" % (defect, r_, c_, type(e).__name__)]
    if defect == "blank_row" and t.num_poses == n:
        return []        # csv drops a completely empty line: the published conventions do not count it as a row
    return ["malformed_file_rejected[%s in row %d col %d of %d rows]: loaded %d poses" % (defect, r_, c_, n, t.num_poses)]


def _independent_parse(path, delim, w):
    out = []
    for line in open(path, "rb").read().decode("utf-8").splitlines():
        if not line.strip() or line.lstrip().startswith("#"):
            continue
        toks = line.split(delim) if delim != " " else line.split(" ")
        assert len(toks) == w, (len(toks), w)
        out.append([float(t) for t in toks])
    return np.array(out)


def chk_written(inp):
    """files evo writes are read by an independent parser of the conventions to the same poses"""
    from evo.tools import file_interface as fi
    rng = np.random.default_rng(inp["seed"])
    ref, est = P.rand_pair(rng, inp["n"], noise=0.1)
    d = P.workdir("C07")
    f = []
    p = os.path.join(d, "w_%d.tum" % inp["seed"])
    fi.write_tum_trajectory_file(p, est)
    M = _independent_parse(p, " ", 8)
    if not (np.array_equal(M[:, 0], est.timestamps) and np.array_equal(M[:, 1:4], est.positions_xyz) and
            np.array_equal(M[:, [7, 4, 5, 6]], est.orientations_quat_wxyz)):
        f.append("written_TUM_file_follows_timestamp_tx_ty_tz_qx_qy_qz_qw")
    else:
        for k in range(0, inp["n"], max(1, inp["n"] // 4)):
            if not np.allclose(_quat_to_R(M[k, 7], M[k, 4], M[k, 5], M[k, 6]), est.poses_se3[k][:3, :3], atol=1e-9):
                f.append("written_quaternion_describes_the_pose's_rotation (w last)")
                break
    p = os.path.join(d, "w_%d.kitti" % inp["seed"])
    fi.write_kitti_poses_file(p, est)
    M = _independent_parse(p, " ", 12)
    if not np.array_equal(M.reshape(-1, 3, 4), np.array(est.poses_se3)[:, :3, :]):
        f.append("written_KITTI_file_holds_the_12_row-major_entries")
    return f


def chk_transform(inp):
    from evo.tools import file_interface as fi
    from evo.core import lie_algebra as lie
    rng = np.random.default_rng(inp["seed"])
    d = P.workdir("C07")
    T = B.rand_se3(rng, "uniform")
    s = inp["scale"]
    T[:3, :3] *= s
    kind, fmt = inp["kind"], inp["fmt"]
    valid = kind in ("se3", "sim3")
    if kind == "reflection":
        T[:3, 0] *= -1
    elif kind == "sheared":
        T[0, 1] += 0.3
    elif kind == "bottom_row":
        T[3, 3] = 2.0
    elif kind == "not_4x4":
        T = T[:3, :]
    p = os.path.join(d, "t_%d.%s" % (inp["seed"], fmt))
    if fmt == "npy":
        np.save(p, T)
    elif fmt == "txt":
        np.savetxt(p, T)
    else:
        if not valid:
            return []
        if inp.get("bad_json_scale") is not None:
            # a JSON transform whose scale is zero or negative describes no Sim(3) matrix (singular / reflection)
            T = B.rand_se3(rng, "uniform")
        R = T[:3, :3] / (s if inp.get("bad_json_scale") is None else 1.0)
        # quaternion of R by the standard trace method (independent of evo)
        w = math.sqrt(max(0.0, 1 + R[0, 0] + R[1, 1] + R[2, 2])) / 2
        if w < 1e-3:
            return []
        q = dict(qw=w, qx=(R[2, 1] - R[1, 2]) / (4 * w), qy=(R[0, 2] - R[2, 0]) / (4 * w), qz=(R[1, 0] - R[0, 1]) / (4 * w))
        data = dict(x=T[0, 3], y=T[1, 3], z=T[2, 3], **q)
        if s != 1.0 or inp["seed"] % 2:
            data["scale"] = s
        if inp.get("bad_json_scale") is not None:
            data["scale"] = inp["bad_json_scale"]
            valid = False
        if inp.get("drop_key"):
            del data[["x", "qw", "qz"][inp["seed"] % 3]]
            valid = False
        json.dump(data, open(p, "w"))
    try:
        M = fi.load_transform(p)
    except fi.FileInterfaceException:
        return [] if not valid else ["valid_%s_transform_refused (%s)" % (kind, fmt)]
    except Exception as e:
        return ["invalid_transform_rejected_with_evo's_file-format_error: %s raised %s" % (kind, type(e).__name__)] if not valid \
            else ["valid transform: %r" % e]
    if not valid:
        return ["transform_that_is_not_SE3_or_Sim3_rejected[%s, %s]" % (kind, fmt)]
    tol = 0.0 if fmt in ("npy", ) else (1e-15 if fmt == "txt" else 1e-9)
    if M.shape != (4, 4) or not np.allclose(M, T, atol=tol * max(1.0, s), rtol=0):
        return ["transform_loaded_to_the_numbers_in_the_file[%s, %s]" % (kind, fmt)]
    return []


CHECKERS = {"read": chk_read, "malformed": chk_malformed, "written": chk_written, "transform": chk_transform}


def _cases(tier, seed):
    rng = np.random.default_rng(seed + 707)
    K = 1 if tier == "quick" else 12
    for it in range(150 * K):
        yield ("read", {"seed": int(rng.integers(0, 10**9)), "n": int(rng.integers(1, 60 if tier == "quick" else 500)),
                        "kind": ["tum", "kitti", "euroc"][it % 3], "spell": it // 3, "comments": bool(it % 2), "crlf": it % 5 == 0,
                        "bom": it % 4 == 1, "handle": it % 7 == 3, "extra": [0, 9, 3][it % 3]})
    defects = ["too_few_columns", "too_many_columns", "non_numeric", "trailing_delimiter", "blank_row", "no_data_rows"]
    for it in range(240 * K):
        n = int(rng.integers(1, 30))
        yield ("malformed", {"seed": int(rng.integers(0, 10**9)), "n": n, "kind": ["tum", "kitti", "euroc"][it % 3],
                             "defect": defects[(it // 3) % 6], "row": int(rng.integers(0, n)) if it % 4 else 0,
                             "col": int(rng.integers(0, 12))})
    for it in range(30 * K):
        yield ("written", {"seed": int(rng.integers(0, 10**9)), "n": int(rng.integers(2, 40))})
    kinds = ["se3", "sim3", "reflection", "sheared", "bottom_row", "not_4x4"]
    for it in range(90 * K):
        k = kinds[it % 6]
        yield ("transform", {"seed": int(rng.integers(0, 10**9)), "kind": k, "fmt": ["npy", "txt", "json"][(it // 6) % 3],
                             "scale": float(rng.choice([0.5, 2.0, 10.0])) if k == "sim3" else 1.0, "drop_key": it % 11 == 0})
    for it in range(9 * K):
        yield ("transform", {"seed": int(rng.integers(0, 10**9)), "kind": "se3", "fmt": "json", "scale": 1.0,
                             "bad_json_scale": [-2.0, -1.0, 0.0][it % 3]})


def bounded(tier, seed):
    return B.run(CHECKERS, _cases(tier, seed),
                 rule="files generated in the published conventions by an independent writer (1..60 rows quick / 500 thorough, "
                      "comment lines anywhere, UTF-8 BOM, CRLF, five float spellings, path and handle) loaded by evo and compared "
                      "exactly slot by slot, pose matrices against the textbook quaternion formula; malformed classes (too few / "
                      "too many columns, non-numeric token, trailing delimiter, blank row, no data rows) with the defect at a "
                      "random row / column; files written by evo parsed by an independent parser; transform files npy / txt / "
                      "JSON: SE(3), Sim(3), reflection, shear, scaled bottom row, non-4x4, missing JSON key",
                 bounds={"seed": seed})


def concretize(vc, tier, seed):
    r = bounded("quick", seed + 1)
    if r["violations"]:
        v = r["violations"][0]
        return {"checker": v["checker"], "input": v["input"], "failed": v["failed"]}
    return None
