"""C17 -- existing output files are never overwritten without confirmation."""
import ast
import os

import numpy as np

from pyvc import bounded as B
from props import pipeline as P
from contracts import overwrite as _ow

ID = "C17"
LEVEL = "proof"
LEVEL_TEXT = ("user.confirm / check_and_confirm_overwrite and every writer that takes confirm_overwrite (TUM and KITTI text "
              "writers, result archives, tables, PlotCollection.serialize and .export incl. the per-figure branch) are verified "
              "against a ghost file system and an ordered event log with a symbolic answer, a symbolic confirm flag and a "
              "symbolic exists[path]: an existing file is written only after the answer 'y' (or with the flag off), the "
              "question is asked exactly when it is due and before the write, nothing but the requested path is written, and "
              "the file is written whenever that is allowed.  Every call site in the CLI modules is found from the AST on "
              "each run and must pass confirm_overwrite = not args.no_warnings; every raw open(..., 'w') in those modules "
              "must sit under a check_and_confirm_overwrite of the same path.  End-to-end commands: bounded stand-in.")
LEVEL_NOTE = ("trusted library contracts: numpy.savetxt, zipfile.ZipFile(p,'w'), open(p,'w'|'wb'), PdfPages(p), Figure.savefig(p), "
              "DataFrame.to_<fmt>(p), pandas.ExcelWriter(p) write exactly their path argument; os.path.isfile is the ghost "
              "exists[]; the typed answer is opaque (only comparisons are observable); 0, 1 and 3 figures enumerated; the "
              "main()/run() functions of the CLI modules are covered by the call-site scan and the bounded runs only")
SIDECARS = ["contracts.lie_algebra", "contracts.geometry", "contracts.filters", "contracts.umeyama", "contracts.trajectory",
            "contracts.overwrite"]
OVERRIDES = _ow.OVERRIDES
FUNCTIONS = ["evo.tools.user.confirm", "evo.tools.user.check_and_confirm_overwrite",
             "evo.tools.file_interface.write_tum_trajectory_file", "evo.tools.file_interface.write_kitti_poses_file",
             "evo.tools.file_interface.save_res_file", "evo.tools.pandas_bridge.save_df_as_table",
             "evo.tools.plot.PlotCollection.serialize", "evo.tools.plot.PlotCollection.export"]
LEMMAS = []
TRUSTED = ["numpy.savetxt / zipfile.ZipFile / open / PdfPages / Figure.savefig / DataFrame.to_* / ExcelWriter: write exactly the given path",
           "os.path.isfile(p) reads the file system (ghost exists[p])", "input() returns an arbitrary string"]
ASSUMPTIONS = ["call sites: syntactic equality of the passed flag with `not args.no_warnings`, decided by z3 over the boolean "
               "abstraction of the argument expression", "bag export (time-stamped fresh name, rosbags refuses existing paths), "
               "log files and the settings/config files edited in place by evo_config set are not output kinds of the property"]
EXPLANATION = "ghost file system + event log; symbolic answer / flag / existence; per-path event logs are concrete"


# =====================================================================================================================
# call sites (extra obligations, re-derived from the AST of the CLI modules on every run)
# =====================================================================================================================
CLI_MODULES = ["evo/main_ape.py", "evo/main_rpe.py", "evo/main_traj.py", "evo/main_res.py", "evo/main_config.py",
               "evo/common_ape_rpe.py"]
# writers with a confirm_overwrite parameter and its default (read from their definitions below)
WRITER_DEFS = {"evo/tools/file_interface.py": ["write_tum_trajectory_file", "write_kitti_poses_file", "save_res_file"],
               "evo/tools/pandas_bridge.py": ["save_df_as_table"], "evo/tools/plot.py": ["serialize", "export"]}


def _writer_defaults(repo):
    out = {}
    for rel, names in WRITER_DEFS.items():
        tree = ast.parse(open(os.path.join(repo, rel)).read())
        for fn in ast.walk(tree):
            if isinstance(fn, ast.FunctionDef) and fn.name in names:
                args = fn.args.args
                defaults = [None] * (len(args) - len(fn.args.defaults)) + list(fn.args.defaults)
                for pos, (a, d) in enumerate(zip(args, defaults)):
                    if a.arg == "confirm_overwrite":
                        out[fn.name] = (pos - (1 if args and args[0].arg == "self" else 0),
                                        d.value if isinstance(d, ast.Constant) else None)
    return out


def _bool_term(e, atoms):
    """boolean abstraction of a python expression: not / and / or / constants are interpreted, everything else is an atom"""
    import z3
    if isinstance(e, ast.Constant) and isinstance(e.value, bool):
        return z3.BoolVal(e.value)
    if isinstance(e, ast.UnaryOp) and isinstance(e.op, ast.Not):
        return z3.Not(_bool_term(e.operand, atoms))
    if isinstance(e, ast.BoolOp):
        xs = [_bool_term(v, atoms) for v in e.values]
        return z3.And(*xs) if isinstance(e.op, ast.And) else z3.Or(*xs)
    key = ast.unparse(e)
    if key not in atoms:
        atoms[key] = z3.Bool(key)
    return atoms[key]


def scan_call_sites(repo=None):
    repo = repo or os.environ.get("VERIF_REPO", "/repo")
    defaults = _writer_defaults(repo)
    sites, raw = [], []
    for rel in CLI_MODULES:
        src = open(os.path.join(repo, rel)).read()
        tree = ast.parse(src)
        parents = {}
        for n in ast.walk(tree):
            for ch in ast.iter_child_nodes(n):
                parents[id(ch)] = n
        for n in ast.walk(tree):
            if not isinstance(n, ast.Call):
                continue
            f = n.func
            name = f.attr if isinstance(f, ast.Attribute) else (f.id if isinstance(f, ast.Name) else None)
            if name in defaults and not (name in ("export", "serialize") and not isinstance(f, ast.Attribute)):
                pos, dflt = defaults[name]
                arg = None
                for kw in n.keywords:
                    if kw.arg == "confirm_overwrite":
                        arg = kw.value
                if arg is None and len(n.args) > pos:
                    arg = n.args[pos]
                # a local alias (confirm = not args.no_warnings; f(..., confirm_overwrite=confirm)) is looked through
                hops = 0
                while isinstance(arg, ast.Name) and hops < 3:
                    cur_ = n
                    fn_ = None
                    while id(cur_) in parents:
                        cur_ = parents[id(cur_)]
                        if isinstance(cur_, (ast.FunctionDef, ast.AsyncFunctionDef)):
                            fn_ = cur_
                            break
                    if fn_ is None:
                        break
                    defs = [a_.value for a_ in ast.walk(fn_) if isinstance(a_, ast.Assign) and len(a_.targets) == 1 and
                            isinstance(a_.targets[0], ast.Name) and a_.targets[0].id == arg.id]
                    if len(defs) != 1:
                        break
                    arg = defs[0]
                    hops += 1
                sites.append({"file": rel, "line": n.lineno, "callee": name, "arg": arg, "default": dflt})
            if name == "open" and isinstance(f, ast.Name):
                mode = n.args[1] if len(n.args) > 1 else next((kw.value for kw in n.keywords if kw.arg == "mode"), None)
                if isinstance(mode, ast.Constant) and isinstance(mode.value, str) and "w" in mode.value:
                    # guarded iff an enclosing `if` tests check_and_confirm_overwrite(<same path expression>) positively
                    target = ast.unparse(n.args[0])
                    guarded = False
                    cur = n
                    while id(cur) in parents:
                        par = parents[id(cur)]
                        if isinstance(par, ast.If) and cur in par.body or (isinstance(par, ast.If) and any(cur is b for b in par.body)):
                            for c in ast.walk(par.test):
                                if isinstance(c, ast.Call) and getattr(c.func, "attr", getattr(c.func, "id", "")) == \
                                        "check_and_confirm_overwrite" and c.args and ast.unparse(c.args[0]) == target:
                                    # positively: not under a `not`
                                    neg = any(isinstance(u, ast.UnaryOp) and isinstance(u.op, ast.Not) and
                                              any(x is c for x in ast.walk(u)) for u in ast.walk(par.test))
                                    if not neg and not isinstance(par.test, ast.BoolOp) or \
                                            (isinstance(par.test, ast.BoolOp) and isinstance(par.test.op, ast.And) and not neg):
                                        guarded = True
                        cur = par
                    fn = cur
                    raw.append({"file": rel, "line": n.lineno, "target": target, "guarded": guarded})
    return sites, raw


# raw writes that are not output files of the property: the settings / config file that `evo_config set|merge|reset`
# edits in place is the object being operated on
EDITED_IN_PLACE = {("evo/main_config.py", "config_path"), ("evo/main_config.py", "first_file")}


def extra_obligations(L, S):
    import z3
    from pyvc.engine import VC
    sites, raw = scan_call_sites()
    vcs = []
    seen = {}
    for s in sites:
        atoms = {}
        nw = _bool_term(ast.parse("args.no_warnings", mode="eval").body, atoms)
        eff = _bool_term(s["arg"], atoms) if s["arg"] is not None else (
            z3.BoolVal(bool(s["default"])) if s["default"] is not None else z3.Bool("unknown_default"))
        k = (s["file"], s["callee"])
        seen[k] = seen.get(k, 0) + 1
        name = "callsite:%s:%s#%d:confirm_overwrite_is_not_no_warnings" % (s["file"].replace("evo/", "").replace(".py", ""),
                                                                            s["callee"], seen[k])
        vcs.append(VC(name, "pre", [], eff == z3.Not(nw), props=["C17"], role="prop", where="%s:%d" % (s["file"], s["line"]),
                      note="effective argument: %s" % (ast.unparse(s["arg"]) if s["arg"] is not None else
                                                       "omitted (default %r)" % s["default"]), func=""))
    for r in raw:
        if (r["file"], r["target"]) in EDITED_IN_PLACE:
            continue
        k = (r["file"], "open")
        seen[k] = seen.get(k, 0) + 1
        vc = VC("callsite:%s:open(%s,'w')#%d:under_check_and_confirm_overwrite" % (
            r["file"].replace("evo/", "").replace(".py", ""), r["target"], seen[k]), "pre", [], z3.BoolVal(bool(r["guarded"])),
            props=["C17"], role="prop", where="%s:%d" % (r["file"], r["line"]), func="")
        if not r["guarded"]:
            vc.status, vc.backend, vc.detail = "refuted", "ast", "open(%s, 'w') is not dominated by a positive " \
                "check_and_confirm_overwrite(%s)" % (r["target"], r["target"])
        vcs.append(vc)
    if len(sites) < 10:
        raise RuntimeError("call-site scan found only %d sites: scan broken" % len(sites))
    return vcs


# =====================================================================================================================
# bounded stand-in: the real commands / writers with scripted answers on real files
# =====================================================================================================================
SENTINEL = b"precious user data\n"
_INPUTS = {}


def _inputs():
    """input files shared by all scenarios (written once per process)"""
    if _INPUTS:
        return _INPUTS
    from evo.core import metrics
    from evo.tools import file_interface
    d = os.path.join(P.workdir("C17"), "in")
    os.makedirs(d, exist_ok=True)
    rng = np.random.default_rng(17)
    ref, est = P.rand_pair(rng, 25, noise=0.02)
    P.write_tum(os.path.join(d, "ref.tum"), ref)
    P.write_tum(os.path.join(d, "est.tum"), est)
    for i in (1, 2):
        m = metrics.APE(metrics.PoseRelation.translation_part)
        m.process_data((ref, est))
        r = m.get_result("ref", "est%d" % i)
        r.add_np_array("timestamps", est.timestamps)
        p = os.path.join(d, "res%d.zip" % i)
        if os.path.exists(p):
            os.remove(p)
        file_interface.save_res_file(p, r)
    _INPUTS.update(dir=d, ref=ref, est=est)
    return _INPUTS


def _run_cmd(cmd, out, nw, pathlib_):
    """run one command / writer that is asked to write into directory `out` (cwd)"""
    import sys
    from pathlib import Path
    I = _inputs()
    d = I["dir"]
    ref_p, est_p = os.path.join(d, "ref.tum"), os.path.join(d, "est.tum")
    W = ["--no_warnings"] if nw else []

    def path(name):
        p = os.path.join(out, name)
        return Path(p) if pathlib_ else p
    if cmd.startswith("ape_") or cmd.startswith("rpe_"):
        from evo import main_ape, main_ape_parser, main_rpe, main_rpe_parser
        mod, par = (main_ape, main_ape_parser) if cmd.startswith("ape") else (main_rpe, main_rpe_parser)
        opt = {"results": ["--save_results", os.path.join(out, "res.zip")], "plot_png": ["--save_plot", os.path.join(out, "plot.png")],
               "plot_pdf": ["--save_plot", os.path.join(out, "plot.pdf")],
               "serialize": ["--serialize_plot", os.path.join(out, "plot.pickle")]}[cmd[4:]]
        mod.run(par.parser().parse_args(["tum", ref_p, est_p] + opt + W))
    elif cmd.startswith("traj_"):
        from evo import main_traj, main_traj_parser
        opt = {"tum": ["--save_as_tum"], "kitti": ["--save_as_kitti"], "table": ["--save_table", "table.csv"],
               "plot": ["--save_plot", "plot.png"], "all": ["--save_as_tum", "--save_as_kitti", "--save_table", "t.csv"]}[cmd[5:]]
        main_traj.run(main_traj_parser.parser().parse_args(["tum", est_p, "--ref", ref_p] + opt + W))
    elif cmd.startswith("res_"):
        from evo import main_res, main_res_parser
        opt = {"table": ["--save_table", "table.csv"], "plot": ["--save_plot", "plot.pdf"],
               "serialize": ["--serialize_plot", "plots.pickle"]}[cmd[4:]]
        main_res.run(main_res_parser.parser().parse_args([os.path.join(d, "res1.zip"), os.path.join(d, "res2.zip"),
                                                          "--use_filenames"] + opt + W))
    elif cmd == "config_generate":
        from evo import main_config
        old = sys.argv
        sys.argv = ["evo_config", "generate", "--pose_relation", "angle_deg", "--align", "-o", "cfg.json"]
        try:
            main_config.main()
        finally:
            sys.argv = old
    elif cmd.startswith("writer_"):
        from evo.tools import file_interface, pandas_bridge
        from evo.core import result
        k = cmd[7:]
        if k == "tum":
            file_interface.write_tum_trajectory_file(path("w.tum"), I["ref"], confirm_overwrite=not nw)
        elif k == "kitti":
            file_interface.write_kitti_poses_file(path("w.kitti"), I["est"], confirm_overwrite=not nw)
        elif k == "res":
            r = result.Result()
            r.add_stats({"rmse": 1.0})
            r.add_np_array("error_array", np.arange(4.0))
            file_interface.save_res_file(path("w.zip"), r, confirm_overwrite=not nw)
        elif k == "table":
            pandas_bridge.save_df_as_table(pandas_bridge.trajectory_stats_to_df(I["ref"], "r"), path("w.csv"),
                                           confirm_overwrite=not nw)
    else:
        raise KeyError(cmd)


def _listing(out):
    res = {}
    for root, _, files in os.walk(out):
        for fn in files:
            p = os.path.join(root, fn)
            res[os.path.relpath(p, out)] = open(p, "rb").read()
    return res


_TARGETS = {}


def chk_cli(inp):
    import builtins
    import logging
    import shutil
    import matplotlib
    matplotlib.use("Agg")
    import matplotlib.pyplot as plt
    cmd, exists, answer, nw = inp["cmd"], inp["exists"], inp["answer"], inp["no_warnings"]
    pathlib_ = inp.get("pathlib", False)
    has_nw = cmd != "config_generate"
    out = os.path.join(P.workdir("C17"), "out_%d" % os.getpid())
    prompts = []

    def scripted(msg=""):
        prompts.append(msg)
        return answer
    def run():
        real, cwd = builtins.input, os.getcwd()
        builtins.input = scripted
        logging.disable(logging.CRITICAL)
        os.chdir(out)
        try:
            _run_cmd(cmd, out, nw and has_nw, pathlib_)
        except SystemExit:
            pass
        finally:
            os.chdir(cwd)
            logging.disable(logging.NOTSET)
            builtins.input = real
            plt.close("all")
    key = (cmd, pathlib_)
    if key not in _TARGETS:
        # which files does the command produce?  (run once into an empty directory)
        shutil.rmtree(out, ignore_errors=True)
        os.makedirs(out)
        run()
        _TARGETS[key] = sorted(_listing(out))
        if prompts:
            return ["asked_although_no_file_existed (%d prompts)" % len(prompts)]
        if not _TARGETS[key]:
            return ["command %s wrote nothing into an empty directory" % cmd]
    targets = _TARGETS[key]
    shutil.rmtree(out, ignore_errors=True)
    os.makedirs(out)
    del prompts[:]
    if exists:
        for t in targets:
            os.makedirs(os.path.dirname(os.path.join(out, t)), exist_ok=True)
            # an existing file is an existing file also when it is empty (touch / mktemp placeholder, truncated output)
            open(os.path.join(out, t), "wb").write(b"" if inp.get("empty") else SENTINEL + t.encode())
    before = _listing(out)
    run()
    after = _listing(out)
    f = []
    ask_due = exists and not (nw and has_nw)
    if not ask_due:
        if prompts:
            f.append("asked_although_not_due (%d prompts)" % len(prompts))
        for t in targets:
            if t not in after or after[t] == before.get(t) or not after[t]:
                f.append("file_replaced_by_the_new_output[%s]" % t)
    elif answer == "y":
        if not prompts:
            f.append("asks_for_confirmation")
        for t in targets:
            if t not in after or after[t] == before.get(t) or not after[t]:
                f.append("file_replaced_after_answer_y[%s]" % t)
    else:
        if not prompts:
            f.append("asks_for_confirmation")
        for t in before:
            if after.get(t) != before[t]:
                f.append("existing_file_left_unchanged_unless_answer_is_y[%s] (answer %r)" % (t, answer))
        extra = sorted(set(after) - set(before))
        if extra:
            f.append("writes_nothing_else_in_its_place: %s" % extra[:3])
    return f


CHECKERS = {"cli": chk_cli}
CMDS = ["ape_results", "ape_plot_png", "ape_plot_pdf", "ape_serialize", "rpe_results", "rpe_plot_pdf", "traj_tum", "traj_kitti",
        "traj_table", "traj_plot", "traj_all", "res_table", "res_plot", "res_serialize", "config_generate", "writer_tum",
        "writer_kitti", "writer_res", "writer_table"]


def _cases(tier, seed):
    quick = [(True, False, "y"), (True, False, "n"), (True, False, ""), (True, False, "Y"), (True, False, "yes"),
             (True, True, "n"), (False, False, "n")]
    full = [(e, w, a) for e in (True, False) for w in (False, True) for a in ("y", "n", "", "Y", "yes", " y", "y ", "ye")]
    for cmd in CMDS:
        for (e, w, a) in (quick if tier == "quick" else full):
            if cmd.startswith("writer_"):
                for pl in (False, True):
                    yield ("cli", {"cmd": cmd, "exists": e, "no_warnings": w, "answer": a, "pathlib": pl})
            else:
                yield ("cli", {"cmd": cmd, "exists": e, "no_warnings": w, "answer": a})
        # existing but empty targets (seed C17-c): declined and confirmed
        for a in ("n", "y") if tier == "quick" else ("n", "y", "", "Y"):
            if cmd.startswith("writer_"):
                yield ("cli", {"cmd": cmd, "exists": True, "no_warnings": False, "answer": a, "pathlib": a == "n", "empty": True})
            else:
                yield ("cli", {"cmd": cmd, "exists": True, "no_warnings": False, "answer": a, "empty": True})


def bounded(tier, seed):
    return B.run(CHECKERS, _cases(tier, seed),
                 rule="19 commands / writers (evo_ape, evo_rpe, evo_traj, evo_res, evo_config generate with every output option; the "
                      "four path-taking writers with str and pathlib.Path) x {all targets exist (with content, or empty files), none} x {--no_warnings on, off} x "
                      "answers %s, run in-process on real files; bytes of all pre-existing files and the directory listing "
                      "compared" % (["y", "n", "", "Y", "yes"] if tier == "quick" else ["y", "n", "", "Y", "yes", " y", "y ", "ye"]),
                 bounds={"seed": seed})


def concretize(vc, tier, seed):
    r = bounded("quick", seed + 1)
    if r["violations"]:
        v = r["violations"][0]
        return {"checker": v["checker"], "input": v["input"], "failed": v["failed"]}
    return None
