"""C08 -- trajectory operations have their documented effect and keep all views consistent."""
import copy
import math

import numpy as np

from pyvc import bounded as B
from props import pipeline as P

ID = "C08"
LEVEL = "proof"
LEVEL_TEXT = ("every operation of the alphabet is under contract and verified for trajectories of any length: transform (left / "
              "right: every pose becomes T*P resp. P*T, positions recomputed from the matrices, all three representations "
              "present), scale (positions only, on every stored representation, orientations untouched), reduce_to_ids / "
              "downsample / motion_filter / reduce_to_time_range (one index list applied to every representation and the "
              "timestamps), align / align_origin (C04), project (C14), accumulated distances and speeds (definitions).  Each "
              "contract states the whole new content of every stored representation, so the history quantifier follows by "
              "induction over the operation sequence.  The propagating transform, quaternion consistency (eigen-decomposition) "
              "and check() are exercised by the bounded stand-in (operation histories with interleaved reads).")
LEVEL_NOTE = ("floats as reals; trusted: quaternion_from_matrix (vendored), numpy dot; transform verified for SE(3) arguments "
              "on matrix-built trajectories; propagate variant, Sim(3) arguments, quaternion-built storage: bounded histories")
SIDECARS = ["contracts.lie_algebra", "contracts.lemmas_lie", "contracts.geometry", "contracts.filters", "contracts.umeyama",
            "contracts.trajectory", "contracts.lemmas_traj",
            "contracts.quaternion"]
T = "evo.core.trajectory."
FUNCTIONS = [T + "PosePath3D.transform", T + "PosePath3D.scale", T + "PosePath3D.reduce_to_ids",
             T + "PoseTrajectory3D.reduce_to_ids", T + "PosePath3D.downsample", T + "PosePath3D.motion_filter",
             T + "PoseTrajectory3D.reduce_to_time_range", T + "PosePath3D.align_origin", T + "PosePath3D.project",
             "evo.core.geometry.accumulated_distances", T + "calc_speed", "evo.core.lie_algebra.is_se3",
             "evo.core.transformations.quaternion_matrix", T + "xyz_quat_wxyz_to_se3_poses"]
LEMMAS = ["se3_closed_under_product", "membership_accepts_genuine"]
TRUSTED = ["evo.core.transformations.quaternion_from_matrix (vendored eigen-decomposition): unit quaternion with "
           "qmat(q) = rotation block", "numpy.dot"]
ASSUMPTIONS = ["history quantifier: induction over the sequence of operations, each verified against its contract "
               "(standard modular-verification argument); reads in between only materialise caches",
               "propagating transform, Sim(3) transforms (fix 55f4c1d), quaternion-built storage mode: bounded histories"]
EXPLANATION = "representation-level contracts per operation + closure lemma for SE(3)"

OPS = ["transform_left", "transform_right", "transform_prop", "transform_sim3", "transform_prop_sim3", "transform_right_sim3", "scale", "reduce", "reduce_repeat", "downsample", "motion",
       "crop", "align", "align_origin", "project", "copy"]
READS = ["positions_xyz", "orientations_quat_wxyz", "poses_se3", "distances", "path_length", "speeds", "none"]


def _consistent(t, tag):
    f = []
    pos, q, poses = t.positions_xyz, t.orientations_quat_wxyz, np.array(t.poses_se3).reshape(-1, 4, 4)
    n = len(poses)
    if not (len(pos) == len(q) == n and (not hasattr(t, "timestamps") or len(t.timestamps) == n)):
        return ["%s: same_count %d %d %d" % (tag, len(pos), len(q), n)]
    if n == 0:
        return f
    scale = max(1.0, float(np.abs(pos).max()))
    if not np.allclose(poses[:, :3, 3], pos, atol=1e-9 * scale):
        f.append("%s: positions_describe_the_same_poses_as_the_matrices" % tag)
    if not np.allclose(np.linalg.norm(q, axis=1), 1.0, atol=1e-9):
        f.append("%s: unit_quaternions" % tag)
    from evo.core import transformations as tr
    for k in range(0, n, max(1, n // 7)):
        if not np.allclose(tr.quaternion_matrix(q[k])[:3, :3], poses[k][:3, :3], atol=1e-7):
            f.append("%s: quaternions_describe_the_same_rotations (up to sign)" % tag)
            break
    ok, det = t.check()
    if hasattr(t, "timestamps"):
        pass
    if not det.get("SE(3) conform", "yes") == "yes" or not det.get("quaternions", "ok") == "ok" or not det.get("array shapes", "ok") == "ok":
        f.append("%s: passes_evo's_own_validity_check %r" % (tag, det))
    # derived quantities follow from the views
    D = np.concatenate([[0.0], np.cumsum(np.linalg.norm(pos[1:] - pos[:-1], axis=1))])
    if not np.allclose(t.distances, D, atol=1e-9 * max(1.0, D[-1])) or abs(t.path_length - D[-1]) > 1e-9 * max(1.0, D[-1]):
        f.append("%s: distances_and_path_length_follow_from_the_positions" % tag)
    return f


def chk_history(inp):
    from evo.core.trajectory import PoseTrajectory3D, PosePath3D, Plane
    from evo.core import lie_algebra as lie
    rng = np.random.default_rng(inp["seed"])
    ref, est = P.rand_pair(rng, inp["n"], noise=0.1, stamps=inp["stamps"], from_poses=inp["from_poses"])
    t = est
    projected = False
    for step, (op, read) in enumerate(zip(inp["ops"], inp["reads"])):
        if read not in ("none", ) and not (read == "speeds" and not inp["stamps"]):
            try:
                getattr(t, read)
            except Exception as e:
                if read != "speeds":
                    return ["read %s failed: %r" % (read, e)]
        n = t.num_poses
        old = np.array(copy.deepcopy(t.poses_se3)).reshape(-1, 4, 4)
        old_ts = t.timestamps.copy() if inp["stamps"] else None
        tag = "step %d %s" % (step, op)
        try:
            if op in ("transform_left", "transform_right", "transform_prop"):
                T = B.rand_se3(rng, "uniform", tmag=(-1, 2))
                t.transform(T, right_mul=op != "transform_left", propagate=op == "transform_prop")
                new = np.array(t.poses_se3)
                if op == "transform_left":
                    exp = np.einsum("ij,njk->nik", T, old)
                elif op == "transform_right":
                    exp = np.einsum("nij,jk->nik", old, T)
                else:
                    exp = [old[0]]
                    for k in range(1, n):
                        exp.append(exp[-1] @ (P.rel(old[k - 1], old[k]) @ T))
                    exp = np.array(exp)
                if not np.allclose(new, exp, atol=1e-8 * max(1.0, np.abs(exp).max())):
                    return [tag + ": documented_geometric_effect"]
            elif op == "transform_sim3":
                s = float(rng.uniform(0.5, 3))
                R, tt = B.rand_rotation(rng, "uniform"), rng.normal(size=3)
                t.transform(lie.sim3(R, tt, s))
                new = np.array(t.poses_se3)
                if not (np.allclose(new[:, :3, 3], s * (R @ old[:, :3, 3].T).T + tt, atol=1e-8 * max(1.0, np.abs(new).max()))
                        and np.allclose(new[:, :3, :3], np.einsum("ij,njk->nik", R, old[:, :3, :3]), atol=1e-9)):
                    return [tag + ": similarity_maps_positions_by_sRp+t_and_orientations_by_R"]
            elif op in ("transform_prop_sim3", "transform_right_sim3"):
                # right-multiplied / propagating similarity: the documented effect on the positions is not spelled out by
                # the property; what it does state: the first pose is kept by the propagating variant, every pose stays
                # a valid rigid-body pose (checked by _consistent below), count and timestamps unchanged
                s = float(rng.uniform(0.5, 3))
                R, tt = B.rand_rotation(rng, "uniform"), rng.normal(size=3)
                t.transform(lie.sim3(R, tt, s), right_mul=True, propagate=op == "transform_prop_sim3")
                new = np.array(t.poses_se3)
                if len(new) != n:
                    return [tag + ": same_number_of_poses"]
                if op == "transform_prop_sim3" and n >= 1 and not np.allclose(new[0], old[0], atol=1e-12 * max(1.0, np.abs(old[0]).max())):
                    return [tag + ": propagating_variant_keeps_the_first_pose"]
            elif op == "scale":
                s = float(rng.uniform(0.2, 4))
                t.scale(s)
                new = np.array(t.poses_se3)
                if not (np.allclose(new[:, :3, 3], s * old[:, :3, 3], atol=1e-9 * max(1.0, np.abs(new).max())) and
                        np.allclose(new[:, :3, :3], old[:, :3, :3], atol=1e-12)):
                    return [tag + ": scaling_multiplies_positions_only"]
            elif op == "reduce":
                ids = sorted(rng.choice(n, size=max(1, n - 1 - int(rng.integers(0, 2))), replace=False).tolist())
                t.reduce_to_ids(ids)
                if not np.allclose(np.array(t.poses_se3), old[ids], atol=1e-12) or \
                        (inp["stamps"] and not np.array_equal(t.timestamps, old_ts[ids])):
                    return [tag + ": index_reduction"]
            elif op == "reduce_repeat":
                # an index list that names a pose twice (paths without stamps only: a repeated stamp would be invalid); the
                # two copies must behave as two poses under every later operation (seed C08-c: shared matrix objects)
                ids = sorted(rng.choice(n, size=max(1, n - 1), replace=False).tolist())
                if not inp["stamps"]:
                    ids = sorted(ids + [ids[len(ids) // 2]])
                t.reduce_to_ids(ids)
                if not np.allclose(np.array(t.poses_se3), old[ids], atol=1e-12) or \
                        (inp["stamps"] and not np.array_equal(t.timestamps, old_ts[ids])):
                    return [tag + ": index_reduction"]
            elif op == "downsample":
                N = max(1, n - int(rng.integers(0, 4)))
                t.downsample(N)
                if t.num_poses != min(N, n):
                    return [tag + ": downsample_count"]
            elif op == "motion":
                if n >= 2:
                    t.motion_filter(float(rng.uniform(0, 1)), float(rng.uniform(0, 0.5)))
            elif op == "crop":
                if inp["stamps"] and n >= 2:
                    t.reduce_to_time_range(float(old_ts[0] + 1e-3), float(old_ts[-1] + 1))
                    if t.num_poses == 0:
                        return []
            elif op == "align":
                if t.num_poses >= 3:
                    r2 = copy.deepcopy(ref)
                    k = min(r2.num_poses, t.num_poses)
                    r2.reduce_to_ids(list(range(k)))
                    t2 = t
                    if t.num_poses != k:
                        t.reduce_to_ids(list(range(k)))
                    try:
                        t.align(r2, correct_scale=bool(step % 2))
                    except Exception as e:
                        if type(e).__name__ != "GeometryException":
                            raise
            elif op == "align_origin":
                t.align_origin(ref)
            elif op == "project":
                if not projected:
                    t.project([Plane.XY, Plane.XZ, Plane.YZ][step % 3])
                    projected = True
            elif op == "copy":
                t = copy.deepcopy(t)
        except Exception as e:
            return [tag + ": raised %r" % (e, )]
        f = _consistent(t, tag)
        if f:
            n_prop = sum(1 for o in inp["ops"][:step + 1] if o == "transform_prop")
            if n_prop >= 3 and any("validity_check" in x or "quaternions_describe" in x for x in f):
                # known finding F10: the propagating transform amplifies the rounding error of the rotation blocks by
                # about the number of poses each time it is applied
                R = np.array(t.poses_se3)[:, :3, :3]
                dev = float(np.abs(np.einsum("nij,nkj->nik", R, R) - np.eye(3)).max())
                return ["validity_lost_after_repeated_propagating_transforms (%d propagating transforms, %d poses, "
                        "|R R^T - I| = %.3g): %s" % (n_prop, t.num_poses, dev, f[0])]
            return f
        if t.num_poses < 1:
            return []
    if inp["stamps"] and t.num_poses >= 2 and np.all(np.diff(t.timestamps) > 0):
        sp = t.speeds
        exp = np.linalg.norm(np.diff(t.positions_xyz, axis=0), axis=1) / np.diff(t.timestamps)
        if not np.allclose(sp, exp, rtol=1e-9, atol=1e-12):
            return ["speeds_follow_from_positions_and_timestamps"]
    return []


CHECKERS = {"history": chk_history}


def _cases(tier, seed):
    import itertools
    rng = np.random.default_rng(seed + 808)
    depth = 2 if tier == "quick" else 3
    core = ["transform_left", "transform_right", "transform_prop", "transform_sim3", "transform_prop_sim3", "scale", "reduce", "reduce_repeat",
            "align_origin", "project", "copy"]
    # exhaustive to a bounded depth, from both construction modes, with and without stamps
    for ops in itertools.product(core, repeat=depth):
        for fp in (False, True):
            yield ("history", {"seed": hash(ops) % 10**6, "n": 6, "stamps": fp, "from_poses": fp, "ops": list(ops),
                               "reads": [READS[(hash(ops) + i) % 6] for i in range(depth)]})
    # documented witness of known finding F10 (repeated propagating transforms on a long trajectory)
    yield ("history", {"seed": 10, "n": 186, "stamps": True, "from_poses": True, "ops": ["transform_prop"] * 6, "reads": ["none"] * 6})
    for it in range(60 if tier == "quick" else 5000):
        L = 15
        yield ("history", {"seed": int(rng.integers(0, 10**9)), "n": int(rng.integers(1, 60 if tier == "quick" else 200)),
                           "stamps": bool(it % 3), "from_poses": bool(it % 2),
                           "ops": [OPS[int(k)] for k in rng.integers(0, len(OPS), size=L)],
                           "reads": [READS[int(k)] for k in rng.integers(0, len(READS), size=L)]})


def bounded(tier, seed):
    return B.run(CHECKERS, _cases(tier, seed),
                 rule="operation histories over the alphabet %s interleaved with reads of each representation: exhaustive to depth "
                      "%d from both construction modes with/without stamps, plus random histories of length 15 on 1..%d poses; "
                      "after every step: documented effect, all views describe the same poses, unit quaternions, evo's check(), "
                      "derived quantities" % (OPS, 2 if tier == "quick" else 3, 60 if tier == "quick" else 200),
                 bounds={"seed": seed})


def concretize(vc, tier, seed):
    r = bounded("quick", seed + 1)
    if r["violations"]:
        v = r["violations"][0]
        return {"checker": v["checker"], "input": v["input"], "failed": v["failed"]}
    return None
