"""C10 -- RPE pair selection returns exactly the pairs that realise the requested delta."""
import itertools
import math

import numpy as np

from pyvc import bounded as B

ID = "C10"
LEVEL = "proof"
LEVEL_TEXT = ("filter_pairs_by_index (both modes), filter_pairs_by_path (both modes, loop invariants over the path-length "
              "spec), filter_pairs_by_angle (consecutive mode, loop invariant over the accumulated-rotation spec), "
              "accumulated_distances and the unit dispatch id_pairs_from_delta (10 units x modes, callees cut by their "
              "contracts) are verified for pose lists of any length: valid indices, j-i = delta / chain from 0, first pose "
              "reaching delta, closest candidate within tolerance, completeness, FilterException for empty results and "
              "out-of-range angles.  The vectorised all-pairs angle search is outside the verifier's reach (bounded only).")
LEVEL_NOTE = ("floats as reals; trusted: numpy arange/cumsum/argmin/abs/norm, scipy rotation angle; path length and "
              "accumulated rotation are ghost prefix sums; bounded part: exhaustive exact grids (2..8 poses, integer steps, "
              "rotations in multiples of pi/8) + random to 300 (quick) / 3000 poses with guard-band evaluation")
SIDECARS = ["contracts.lie_algebra", "contracts.geometry", "contracts.filters"]
FUNCTIONS = ["evo.core.geometry.accumulated_distances", "evo.core.filters.filter_pairs_by_index",
             "evo.core.filters.filter_pairs_by_path", "evo.core.filters.filter_pairs_by_angle",
             "evo.core.metrics.id_pairs_from_delta"]
LEMMAS = []
EXPECTED_OUT_OF_REACH = {
    "evo.core.filters.filter_pairs_by_angle[all_pairs=True,degrees=False]":
        "vectorised scipy Rotation stacks (np.array([...] * len(...)), argwhere over a symbolic extent): bounded only"}
TRUSTED = ["numpy.arange(start, stop, step) length and elements", "numpy.argmin first minimal index",
           "numpy.cumsum / running sums as prefix sums", "scipy rotation angle = arccos((tr R - 1)/2)"]
ASSUMPTIONS = ["poses are exact SE(3) matrices (precondition of the selectors: every relative rotation passes is_so3)",
               "all-pairs angle mode: bounded stand-in only"]
EXPLANATION = "loop invariants = postconditions restricted to the poses visited so far; path length / accumulated rotation are ghost prefix sums"

EPS = 1e-9


def _poses(xs, angs):
    out = []
    for x, a in zip(xs, angs):
        p = np.eye(4)
        c, s = math.cos(a), math.sin(a)
        p[:3, :3] = np.array([[c, -s, 0], [s, c, 0], [0, 0, 1]])
        p[:3, 3] = x
        out.append(p)
    return out


def _path(poses):
    pos = np.array([p[:3, 3] for p in poses])
    return np.concatenate([[0.0], np.cumsum(np.linalg.norm(pos[1:] - pos[:-1], axis=1))])


def _ang(p, q):
    r = p[:3, :3].T @ q[:3, :3]
    return math.acos(max(-1.0, min(1.0, (np.trace(r) - 1) / 2)))


def _valid(pairs, n):
    return all(isinstance(i, (int, np.integer)) and 0 <= i < j < n for i, j in pairs)


def chk_index(inp):
    from evo.core import filters
    n, delta, ap = inp["n"], inp["delta"], inp["all_pairs"]
    poses = [np.eye(4)] * n
    pairs = [(int(i), int(j)) for i, j in filters.filter_pairs_by_index(poses, delta, ap)]
    f = []
    if not _valid(pairs, n):
        f.append("valid_indices")
    if any(j - i != delta for i, j in pairs):
        f.append("index_distance_is_delta")
    if ap:
        if sorted(set(pairs)) != [(i, i + delta) for i in range(n) if i + delta < n] or len(set(pairs)) != len(pairs):
            f.append("all_such_pairs")
    else:
        exp = [(k * delta, (k + 1) * delta) for k in range(n) if (k + 1) * delta < n]
        if pairs != exp:
            f.append("chain_from_zero %r != %r" % (pairs[:4], exp[:4]))
    return f


def chk_path(inp):
    from evo.core import filters
    xs = np.array(inp["xs"], dtype=float)
    poses = _poses(xs, [0.0] * len(xs))
    delta, tol, ap = inp["delta"], inp["tol"], inp["all_pairs"]
    pairs = [(int(i), int(j)) for i, j in filters.filter_pairs_by_path(poses, delta, tol, ap)]
    D = _path(poses)
    n = len(poses)
    eps = 0.0 if inp.get("exact") else EPS * max(1.0, D[-1])   # integer grids: float arithmetic is exact
    f = []
    if not _valid(pairs, n):
        return ["valid_indices"]
    if not ap:
        if any(pairs[k][0] != pairs[k - 1][1] for k in range(1, len(pairs))):
            f.append("chain")
        for i, j in pairs:
            if D[j] - D[i] < delta - eps:
                f.append("end_reaches_delta (%d,%d)" % (i, j))
            if any(D[t] - D[i] >= delta + eps for t in range(i + 1, j)):
                f.append("end_is_first_pose_reaching_delta (%d,%d)" % (i, j))
        if pairs:
            i0 = pairs[0][0]
            if D[i0] < delta - eps or any(D[t] >= delta + eps for t in range(0, i0)):
                f.append("starts_at_first_pose_reaching_delta_from_the_beginning")
            last = pairs[-1][1]
            if any(D[t] - D[last] >= delta + eps for t in range(last + 1, n)):
                f.append("rest_does_not_reach_delta")
        else:
            # no pair: there must not be two consecutive reachable chain points
            first = next((t for t in range(n) if D[t] >= delta + eps), None)
            if first is not None and any(D[t] - D[first] >= delta + eps for t in range(first + 1, n)):
                # ambiguity band: the first index may be one later
                firsts = [t for t in range(n) if D[t] >= delta - eps]
                if all(any(D[t] - D[s] >= delta + eps for t in range(s + 1, n)) for s in firsts[:2]):
                    f.append("missing_chain")
    else:
        starts = [i for i, _ in pairs]
        if starts != sorted(set(starts)):
            f.append("every_start_once_in_order")
        for i, j in pairs:
            dev = abs(D[j] - D[i] - delta)
            if dev > tol + eps:
                f.append("within_tolerance (%d,%d)" % (i, j))
            if any(abs(D[t] - D[i] - delta) < dev - eps for t in range(i + 1, n)):
                f.append("closest_candidate (%d,%d)" % (i, j))
        for i in range(n - 1):
            if i not in starts and any(abs(D[t] - D[i] - delta) <= tol - eps for t in range(i + 1, n)):
                f.append("complete start %d missing" % i)
                break
    return f


def chk_angle(inp):
    from evo.core import filters
    angs = inp["angs"]
    poses = _poses(np.zeros((len(angs), 3)), angs)
    delta, tol, deg, ap = inp["delta"], inp["tol"], inp["degrees"], inp["all_pairs"]
    hi = 180.0 if deg else math.pi
    try:
        pairs = [(int(i), int(j)) for i, j in filters.filter_pairs_by_angle(poses, delta, tol, deg, ap)]
        raised = False
    except filters.FilterException:
        raised = True
    if raised != (delta < 0 or delta > hi):
        return ["raises_iff_delta_outside_range"]
    if raised:
        return []
    n = len(poses)
    d = math.radians(delta) if deg else delta
    t_ = math.radians(tol) if deg else tol
    eps = 1e-7    # angles are ill-conditioned near 0 and pi
    f = []
    if not _valid(pairs, n):
        return ["valid_indices"]
    if ap:
        got = set(pairs)
        if len(got) != len(pairs):
            f.append("pairs_reported_once")
        for i in range(n):
            for j in range(i + 1, n):
                a = _ang(poses[i], poses[j])
                if d - t_ + eps <= a <= d + t_ - eps and (i, j) not in got:
                    f.append("all_pairs_complete (%d,%d)" % (i, j))
                if (a < d - t_ - eps or a > d + t_ + eps) and (i, j) in got:
                    f.append("all_pairs_sound (%d,%d)" % (i, j))
        return f[:3]
    A = np.concatenate([[0.0], np.cumsum([_ang(poses[k], poses[k + 1]) for k in range(n - 1)])])
    if pairs and pairs[0][0] != 0:
        f.append("chain_from_first_pose")
    if any(pairs[k][0] != pairs[k - 1][1] for k in range(1, len(pairs))):
        f.append("chain")
    for i, j in pairs:
        if A[j] - A[i] < d - eps:
            f.append("end_reaches_delta")
        if any(A[t] - A[i] >= d + eps for t in range(i + 1, j)):
            f.append("end_is_first_pose_reaching_delta")
    last = pairs[-1][1] if pairs else 0
    if any(A[t] - A[last] >= d + eps for t in range(last + 1, n)):
        f.append("rest_does_not_reach_delta")
    return f


def chk_dispatch(inp):
    from evo.core import metrics, filters
    from evo.core.units import Unit
    xs = np.array(inp["xs"], dtype=float)
    poses = _poses(xs, inp["angs"])
    unit = Unit[inp["unit"]]
    delta, rel_tol, ap = inp["delta"], inp["rel_tol"], inp["all_pairs"]
    try:
        pairs = metrics.id_pairs_from_delta(poses, delta, unit, rel_tol, ap)
        raised = False
    except filters.FilterException:
        raised = True
    if unit.name == "frames":
        exp = filters.filter_pairs_by_index(poses, int(delta), ap)
    elif unit.name == "meters":
        exp = filters.filter_pairs_by_path(poses, delta, delta * rel_tol, ap)
    elif unit.name in ("degrees", "radians"):
        try:
            exp = filters.filter_pairs_by_angle(poses, delta, delta * rel_tol, unit.name == "degrees", ap)
        except filters.FilterException:
            exp = []
    else:
        exp = []
    f = []
    if raised != (len(exp) == 0):
        f.append("FilterException_iff_no_pair_or_unsupported_unit")
    if not raised and [tuple(map(int, p)) for p in pairs] != [tuple(map(int, p)) for p in exp]:
        f.append("dispatch_by_unit")
    return f


CHECKERS = {"index": chk_index, "path": chk_path, "angle": chk_angle, "dispatch": chk_dispatch}


def _cases(tier, seed):
    rng = np.random.default_rng(seed + 1010)
    # exhaustive exact grids
    for n in range(2, 9):
        for delta in range(1, 9):
            for ap in (False, True):
                yield ("index", {"n": n, "delta": delta, "all_pairs": ap})
    grids = list(itertools.product([0, 1, 2], repeat=4)) if tier == "quick" else list(itertools.product([0, 1, 2, 3], repeat=5))
    for steps in grids:
        xs = np.zeros((len(steps) + 1, 3))
        xs[1:, 0] = np.cumsum(steps)
        for delta in (1.0, 2.0, 3.0):
            for tol in (0.0, 0.5, 1.0):
                for ap in (False, True):
                    if not ap and tol:
                        continue
                    yield ("path", {"xs": xs, "delta": delta, "tol": tol, "all_pairs": ap, "exact": True})
    agrid = list(itertools.product([0, 1, 2, 3], repeat=4)) if tier == "quick" else list(itertools.product(range(5), repeat=5))
    for steps in agrid:
        angs = np.concatenate([[0.0], np.cumsum(steps)]) * (math.pi / 8)
        # exact multiples of pi/8 are ties: deltas are placed off the grid by a quarter step
        for delta in (math.pi / 8 * 0.75, math.pi / 8 * 1.75, math.pi / 8 * 2.75, 4.0, -0.1):
            for ap in (False, True):
                yield ("angle", {"angs": angs, "delta": delta, "tol": math.pi / 32 if ap else 0.0, "degrees": False,
                                 "all_pairs": ap})
        yield ("angle", {"angs": angs, "delta": 22.5 * 1.75, "tol": 5.0, "degrees": True, "all_pairs": bool(steps[0] % 2)})
    # random
    N = 150 if tier == "quick" else 3000
    maxn = 300 if tier == "quick" else 3000
    for it in range(N):
        n = int(rng.integers(2, 30)) if it % 4 else int(rng.integers(2, maxn))
        xs = np.cumsum(rng.normal(size=(n, 3)) * (rng.random(n)[:, None] > 0.2), axis=0)
        angs = np.cumsum(rng.normal(size=n) * 0.3)
        ap = bool(it % 2)
        yield ("path", {"xs": xs, "delta": float(rng.uniform(0.1, 6)), "tol": float(rng.choice([0.0, 0.05, 0.5])),
                        "all_pairs": ap})
        if n <= 200:
            yield ("angle", {"angs": angs, "delta": float(rng.uniform(0.05, 3.0)), "tol": float(rng.choice([0.0, 0.02, 0.2])),
                             "degrees": False, "all_pairs": ap})
        unit = ["frames", "meters", "degrees", "radians", "seconds", "none", "percent"][it % 7]
        delta = {"frames": float(rng.integers(1, 12)), "meters": float(rng.uniform(0.1, 50)),
                 "degrees": float(rng.uniform(1, 170)), "radians": float(rng.uniform(0.02, 3.0))}.get(unit, 1.0)
        if n <= 200:
            yield ("dispatch", {"xs": xs, "angs": angs, "unit": unit, "delta": delta,
                                "rel_tol": float(rng.choice([0.0, 0.1, 0.5])), "all_pairs": ap})


def bounded(tier, seed):
    return B.run(CHECKERS, _cases(tier, seed),
                 rule="exhaustive exact grids (2..8 poses; integer steps; rotations in multiples of pi/8 with deltas off the "
                      "grid) x unit x mode x delta x tolerance (incl. values no pair satisfies and values hit exactly for "
                      "path lengths), plus random pose lists; every clause is evaluated as a checker of the returned pairs "
                      "with a 1e-9 (path) / 1e-7 (angle) guard band",
                 bounds={"grid_poses": "2..8", "random_max_poses": 300 if tier == "quick" else 3000, "seed": seed})


def concretize(vc, tier, seed):
    r = bounded("quick", seed + 1)
    if r["violations"]:
        v = r["violations"][0]
        return {"checker": v["checker"], "input": v["input"], "failed": v["failed"]}
    return None
