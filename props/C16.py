"""C16 -- computations do not modify their inputs; derived objects are independent of their origin."""
import ast
import copy
import os

import numpy as np

from pyvc import bounded as B
from props import pipeline as P

ID = "C16"
LEVEL = "proof"
LEVEL_TEXT = ("frame and ownership clauses of the functions under contract are verified for trajectories / results of any "
              "size: time association and matching (inputs unchanged, results fresh objects sharing no pose matrix), "
              "APE/RPE process_data (trajectories untouched), get_result (values untouched), the three split methods "
              "(every part owns its pose matrices; ownership ghost on pose lists), trajectory merge and result merge "
              "(inputs unchanged, result fresh), align / align_origin (reference unchanged), project (timestamps "
              "untouched).  In addition every in-place write in evo/core and the writer / pandas / plot modules is enumerated "
              "from the AST on each run and must be shown, by an ownership (alias) analysis, to hit storage the function "
              "allocated itself or the object it is documented to operate on.  Histories derive -> mutate -> re-inspect "
              "and the pandas / file / plot functions: bounded stand-in with deep snapshots.")
LEVEL_NOTE = ("floats as reals; trusted: copy.deepcopy returns an equal value sharing no mutable storage; numpy functions "
              "without out= return new arrays; numpy basic-slice views are modelled as copies (view aliasing of timestamps "
              "is exercised by the bounded histories only); the ownership analysis is flow-insensitive and syntactic")
SIDECARS = ["contracts.lie_algebra", "contracts.geometry", "contracts.filters", "contracts.umeyama", "contracts.sync",
            "contracts.trajectory", "contracts.metrics", "contracts.result"]
T = "evo.core.trajectory."
FUNCTIONS = ["evo.core.sync.matching_time_indices", "evo.core.sync.associate_trajectories",
             "evo.core.metrics.APE.process_data", "evo.core.metrics.RPE.process_data", "evo.core.metrics.PE.get_result",
             T + "PosePath3D.split_distance_gaps", T + "PoseTrajectory3D.split_distance_gaps",
             T + "PoseTrajectory3D.split_time_gaps", T + "PoseTrajectory3D.split_speed_outliers", T + "merge",
             T + "PosePath3D.align", T + "PosePath3D.align_origin", T + "PosePath3D.project",
             "evo.core.result.merge_results"]
LEMMAS = []
TRUSTED = ["copy.deepcopy: equal value, no shared mutable storage", "numpy functions without out=: fresh result arrays"]
ASSUMPTIONS = ["history quantifier: separation argument -- outputs own their storage (ownership clauses) and every operation "
               "writes only storage owned by the object operated on (frame clauses, AST ownership analysis)",
               "pandas / file writers / plot functions: frame established by the AST ownership analysis for evo's own code; "
               "the libraries they call (numpy.savetxt, pandas, matplotlib) are exercised by the bounded stand-in only"]
EXPLANATION = "frame = snapshot equality clauses; ownership = allocation tokens on symbolic pose lists; AST write-site scan"


# =====================================================================================================================
# ownership analysis of every in-place write site (extra obligations, re-derived from /repo's AST on every run)
# =====================================================================================================================
SCAN = ["evo/core/sync.py", "evo/core/trajectory.py", "evo/core/metrics.py", "evo/core/result.py", "evo/core/filters.py",
        "evo/core/geometry.py", "evo/core/lie_algebra.py", "evo/tools/file_interface.py", "evo/tools/pandas_bridge.py",
        "evo/tools/plot.py"]
MUTATORS = {"append", "extend", "insert", "pop", "remove", "sort", "reverse", "update", "clear", "setdefault", "fill",
            "resize", "put", "itemset", "popitem", "partition", "setflags", "byteswap"}
# methods that are documented to operate on self (the "object explicitly being operated on"); every other method may
# only add lazily computed caches to self
SELF_OPS = {"__init__", "transform", "scale", "project", "reduce_to_ids", "downsample", "motion_filter", "reduce_to_time_range",
            "align", "align_origin", "process_data", "change_unit", "reset_parameters", "add_np_array", "add_info", "add_stats",
            "add_trajectory", "add_figure", "tabbed_qt5_window", "tabbed_tk_window", "show", "close"}
CACHE_ATTRS = {"_positions_xyz", "_orientations_quat_wxyz", "_poses_se3"}
# parameters that are output sinks by documentation (the axes / figure / bag / file handle a function draws or writes into)
SINK_PARAMS = {"ax", "axarr", "fig", "fig_or_ax", "axes", "canvas", "bag_handle", "writer", "file_handle"}
# calls that return (a view of / an element of) storage of their first argument or receiver; every other call is taken
# to return storage that no argument of the enclosing function owns (assumption listed in the evidence)
ALIAS_CALLS = {"asarray", "asanyarray", "ascontiguousarray", "asfarray", "reshape", "ravel", "view", "squeeze", "transpose",
               "swapaxes", "atleast_1d", "atleast_2d", "atleast_3d", "broadcast_to", "get", "setdefault", "values", "items",
               "keys", "iter", "next", "getattr", "diagonal", "expand_dims", "moveaxis", "rollaxis", "reversed", "enumerate",
               "zip", "pop", "popitem", "__getitem__", "take_along_axis", "nditer", "flat", "real", "imag"}


def _root(e):
    """root Name of an access path and whether the path passes through a subscript/attribute"""
    deref = 0
    while isinstance(e, (ast.Subscript, ast.Attribute, ast.Starred)):
        e = e.value
        deref += 1
    return (e.id if isinstance(e, ast.Name) else None), deref


def _is_fresh_expr(e, fresh_names):
    """the expression evaluates to storage allocated by this evaluation (never an alias of something older)"""
    if isinstance(e, (ast.List, ast.Dict, ast.Set, ast.ListComp, ast.DictComp, ast.SetComp, ast.Constant, ast.JoinedStr,
                      ast.BinOp, ast.UnaryOp, ast.Compare, ast.BoolOp, ast.Tuple)):
        return True
    if isinstance(e, ast.IfExp):
        return _is_fresh_expr(e.body, fresh_names) and _is_fresh_expr(e.orelse, fresh_names)
    if isinstance(e, ast.Call):
        f = e.func
        name = f.attr if isinstance(f, ast.Attribute) else (f.id if isinstance(f, ast.Name) else "")
        if name == "array" and any(kw.arg == "copy" for kw in e.keywords):
            return False
        return name not in ALIAS_CALLS
    if isinstance(e, ast.Name):
        return e.id in fresh_names
    return False


def _analyse_function(fn, is_method):
    """write sites of one function -> (site description, verdict, reason); verdict: owned | argument | unknown"""
    params = [a.arg for a in fn.args.posonlyargs + fn.args.args + fn.args.kwonlyargs]
    if fn.args.vararg:
        params.append(fn.args.vararg.arg)
    if fn.args.kwarg:
        params.append(fn.args.kwarg.arg)
    self_name = params[0] if is_method and params and params[0] in ("self", "cls") else None
    # binding sites of every local name (flow-insensitive): name -> list of RHS kinds
    binds = {}

    def bind(name, kind):
        binds.setdefault(name, []).append(kind)

    nested = [n for n in ast.walk(fn) if isinstance(n, (ast.FunctionDef, ast.Lambda)) and n is not fn]
    skip = set()
    for n in nested:
        for m in ast.walk(n):
            if m is not n:
                skip.add(id(m))

    def rhs_kind(e, fresh):
        if _is_fresh_expr(e, fresh):
            return "fresh"
        if isinstance(e, ast.Call):
            f = e.func
            src = None
            if isinstance(f, ast.Attribute) and not (isinstance(f.value, ast.Name) and f.value.id in ("np", "numpy", "copy")):
                src = f.value
            elif e.args:
                src = e.args[0]
            e = src if src is not None else e
        r, d = _root(e)
        if r is None:
            return "unknown"
        return ("alias", r)

    body_nodes = [n for n in ast.walk(fn) if id(n) not in skip and n is not fn]
    # iterate to a fixpoint over fresh names
    fresh = set()
    for _ in range(4):
        binds.clear()
        for n in body_nodes:
            if isinstance(n, ast.Assign):
                for tgt in n.targets:
                    if isinstance(tgt, ast.Name):
                        bind(tgt.id, rhs_kind(n.value, fresh))
                    elif isinstance(tgt, (ast.Tuple, ast.List)):
                        for y in tgt.elts:
                            if isinstance(y, ast.Name):
                                k = rhs_kind(n.value, fresh)
                                bind(y.id, "fresh" if k == "fresh" and isinstance(n.value, ast.Call) else k)
            elif isinstance(n, ast.AnnAssign) and isinstance(n.target, ast.Name) and n.value is not None:
                bind(n.target.id, rhs_kind(n.value, fresh))
            elif isinstance(n, ast.AugAssign) and isinstance(n.target, ast.Name):
                bind(n.target.id, "aug")
            elif isinstance(n, (ast.For, ast.comprehension)):
                it = n.iter
                for y in ast.walk(n.target):
                    if isinstance(y, ast.Name):
                        if isinstance(it, ast.Call) and isinstance(it.func, ast.Name) and it.func.id in ("range", "enumerate", "zip"):
                            roots = [_root(a)[0] for a in it.args]
                            if it.func.id == "range":
                                bind(y.id, "fresh")
                            else:
                                for r in roots:
                                    bind(y.id, ("alias", r) if r else "unknown")
                        else:
                            r, d = _root(it)
                            bind(y.id, "fresh" if _is_fresh_expr(it, fresh) and not isinstance(it, ast.Name) else
                                 (("alias", r) if r else "unknown"))
            elif isinstance(n, ast.With):
                for item in n.items:
                    if isinstance(item.optional_vars, ast.Name):
                        bind(item.optional_vars.id, "fresh")
            elif isinstance(n, ast.ExceptHandler) and n.name:
                bind(n.name, "fresh")
        new = {nm for nm, ks in binds.items() if nm not in params and all(k in ("fresh", "aug") for k in ks)}
        if new == fresh:
            break
        fresh = new

    # a parameter rebound unconditionally (statement of the function's own block) to fresh storage is a local from
    # the next line on: `stamps_2 = copy.deepcopy(stamps_2)`
    rebound = {}
    for st in fn.body:
        if isinstance(st, ast.Assign) and len(st.targets) == 1 and isinstance(st.targets[0], ast.Name) \
                and st.targets[0].id in params and _is_fresh_expr(st.value, set()) and not isinstance(st.value, ast.Name):
            rebound.setdefault(st.targets[0].id, st.end_lineno)
    cur_line = [0]

    def owner(name, seen=()):
        """'fresh' | 'self' | 'sink' | ('arg', p) | 'unknown'"""
        if name in seen:
            return "fresh"
        if name in rebound and cur_line[0] > rebound[name]:
            others = [k for k in binds.get(name, []) if k not in ("fresh", "aug")]
            if not others:
                return "fresh"
        if name == self_name:
            return "self"
        if name in params:
            return "sink" if name in SINK_PARAMS else ("arg", name)
        if name in fresh:
            return "fresh"
        ks = binds.get(name)
        if not ks:
            return "global"
        out = set()
        for k in ks:
            if k in ("fresh", "aug"):
                out.add("fresh")
            elif k == "unknown":
                out.add("unknown")
            else:
                out.add(owner(k[1], seen + (name, )))
        out.discard("fresh")
        if not out:
            return "fresh"
        if len(out) == 1:
            return out.pop()
        for o in out:
            if isinstance(o, tuple):
                return o
        return "unknown"

    sites = []

    def site(node, target, how, rebinding_attr=None):
        cur_line[0] = node.lineno
        r, d = _root(target)
        desc = "%s %s" % (how, ast.unparse(target))
        if r is None:
            sites.append((node.lineno, desc, "unknown", "write through a computed expression"))
            return
        o = owner(r)
        if o == "fresh":
            sites.append((node.lineno, desc, "owned", "target allocated inside the function"))
        elif o == "sink":
            sites.append((node.lineno, desc, "owned", "documented output sink parameter"))
        elif o == "global":
            sites.append((node.lineno, desc, "owned", "module-level object, not an argument"))
        elif o == "self":
            if fn.name in SELF_OPS:
                sites.append((node.lineno, desc, "owned", "method documented to operate on self"))
            elif rebinding_attr in CACHE_ATTRS and d == 1:
                sites.append((node.lineno, desc, "owned", "lazily computed cache of self (value of the view unchanged: C08)"))
            else:
                sites.append((node.lineno, desc, "argument", "computing method writes into self"))
        elif isinstance(o, tuple):
            sites.append((node.lineno, desc, "argument", "writes into storage reachable from parameter %r" % o[1]))
        else:
            sites.append((node.lineno, desc, "unknown", "origin of %r not determined" % r))

    for n in body_nodes:
        if isinstance(n, (ast.Assign, ast.AnnAssign)):
            tgts = n.targets if isinstance(n, ast.Assign) else [n.target]
            for x in tgts:
                for y in (x.elts if isinstance(x, (ast.Tuple, ast.List)) else [x]):
                    if isinstance(y, ast.Subscript):
                        site(n, y, "store")
                    elif isinstance(y, ast.Attribute):
                        site(n, y, "store", rebinding_attr=y.attr)
        elif isinstance(n, ast.AugAssign):
            if isinstance(n.target, ast.Name):
                # x += y on a bare name mutates the object x is bound to when that is an array / list
                cur_line[0] = n.lineno
                o = owner(n.target.id)
                if o not in ("fresh", "global"):
                    site(n, n.target, "augmented assignment")
            else:
                site(n, n.target, "augmented assignment", rebinding_attr=getattr(n.target, "attr", None))
        elif isinstance(n, ast.Delete):
            for y in n.targets:
                if isinstance(y, (ast.Subscript, ast.Attribute)):
                    site(n, y, "del", rebinding_attr=getattr(y, "attr", None))
        elif isinstance(n, ast.Call):
            if isinstance(n.func, ast.Attribute) and n.func.attr in MUTATORS:
                if not (isinstance(n.func.value, ast.Name) and n.func.value.id in ("np", "numpy", "os", "plt", "logger")):
                    site(n, n.func.value, "call .%s() on" % n.func.attr)
            for kw in n.keywords:
                if kw.arg == "out":
                    site(n, kw.value, "out=")
    return sites


def scan_repo(repo=None):
    repo = repo or os.environ.get("EVO_REPO", "/repo")
    out = []
    for rel in SCAN:
        tree = ast.parse(open(os.path.join(repo, rel)).read())

        def visit(node, qual, in_class):
            for ch in node.body:
                if isinstance(ch, ast.ClassDef):
                    visit(ch, qual + [ch.name], True)
                elif isinstance(ch, ast.FunctionDef):
                    q = ".".join(qual + [ch.name])
                    per = {}
                    for (ln, desc, verdict, why) in _analyse_function(ch, in_class):
                        k = per.get(desc, 0)
                        per[desc] = k + 1
                        out.append({"file": rel, "function": q, "line": ln, "site": desc + ("#%d" % k if k else ""),
                                    "verdict": verdict, "why": why})
        visit(tree, [], False)
    return out


def extra_obligations(L, S):
    """one obligation per in-place write site: 'the written storage is owned by the function or by the object it is
    documented to operate on'"""
    import z3
    from pyvc.engine import VC
    vcs = []
    for s in scan_repo():
        name = "frame:%s:%s:%s" % (s["file"].replace("evo/", "").replace(".py", ""), s["function"], s["site"])
        vc = VC(name, "frame", [], z3.BoolVal(True), props=["C16"], role="prop",
                where="%s:%d" % (s["file"], s["line"]), note=s["why"], func="")
        if s["verdict"] == "owned":
            vc.status, vc.backend, vc.time, vc.detail = "discharged", "ownership-analysis", 0.0, s["why"]
        elif s["verdict"] == "argument":
            vc.goal = z3.BoolVal(False)
            vc.status, vc.backend, vc.time, vc.detail = "refuted", "ownership-analysis", 0.0, s["why"]
        else:
            vc.goal = z3.Bool("owned")
            vc.status, vc.backend, vc.time, vc.detail = "undecided", "ownership-analysis", 0.0, s["why"]
        vcs.append(vc)
    if not vcs:
        raise RuntimeError("no in-place write site found: scan broken")
    return vcs


# =====================================================================================================================
# bounded stand-in: deep snapshots around every computing function, derive -> mutate -> re-inspect histories
# =====================================================================================================================
def snap(x, depth=0):
    """bit-exact, structure-preserving snapshot of a value"""
    if isinstance(x, np.ndarray):
        return ("nd", str(x.dtype), x.shape, x.tobytes())
    if isinstance(x, (list, tuple)):
        return (type(x).__name__, tuple(snap(y, depth + 1) for y in x))
    if isinstance(x, dict):
        return ("dict", tuple((repr(k), snap(v, depth + 1)) for k, v in x.items()))
    if hasattr(x, "poses_se3") and hasattr(x, "positions_xyz"):
        # observable views of a trajectory (reading them only materialises caches)
        d = {"poses": snap(list(x.poses_se3)), "xyz": snap(x.positions_xyz), "quat": snap(x.orientations_quat_wxyz),
             "meta": snap(x.meta), "cls": type(x).__name__}
        if hasattr(x, "timestamps"):
            d["stamps"] = snap(x.timestamps)
        return ("traj", tuple(sorted(d.items())))
    if hasattr(x, "np_arrays") and hasattr(x, "stats"):
        return ("result", snap(x.info), snap(x.stats), snap(x.np_arrays), snap(x.trajectories))
    if hasattr(x, "__dict__") and type(x).__module__.startswith("evo."):
        return ("obj", type(x).__name__, snap({k: v for k, v in x.__dict__.items()}, depth + 1))
    try:
        import pandas as pd
        if isinstance(x, (pd.DataFrame, pd.Series)):
            return ("pd", x.to_json(double_precision=15), tuple(map(str, x.index)))
    except ImportError:
        pass
    return ("val", repr(x))


def _mk(rng, n, stamps=True, from_poses=True, gap=False):
    ref, est = P.rand_pair(rng, n, noise=0.05, stamps=stamps, from_poses=from_poses)
    if gap and stamps and n > 4:
        ref.timestamps[n // 2:] += 5.0
        est.timestamps[n // 2:] += 5.0
    return ref, est


def _pure_calls():
    """name -> function(ref, est, rng, workdir) -> (arguments to watch, thunk)"""
    from evo.core import metrics, sync, filters, geometry, trajectory, result, lie_algebra as lie
    from evo.tools import file_interface, pandas_bridge
    C = {}

    def metric(cls, rel, **kw):
        def f(ref, est, rng, d):
            m = cls(rel, **kw) if kw or cls is metrics.RPE else cls(rel)
            return [ref, est], lambda: (m.process_data((ref, est)), m.get_all_statistics(), m.get_result(), m.error.copy())
        return f
    for rel in metrics.PoseRelation:
        C["ape_" + rel.name] = metric(metrics.APE, rel)
        C["rpe_" + rel.name] = metric(metrics.RPE, rel, delta=1, delta_unit=metrics.Unit.frames, all_pairs=False)
    C["rpe_all_pairs_m"] = metric(metrics.RPE, metrics.PoseRelation.translation_part, delta=0.5, delta_unit=metrics.Unit.meters,
                                  all_pairs=True, rel_delta_tol=0.5)

    def stats(ref, est, rng, d):
        m = metrics.APE(metrics.PoseRelation.translation_part)
        m.process_data((ref, est))
        err = m.error
        return [err, ref, est], lambda: ([m.get_statistic(s) for s in metrics.StatisticsType], m.get_all_statistics(), m.get_result())
    C["statistics"] = stats
    C["umeyama"] = lambda ref, est, rng, d: (lambda x, y: ([x, y], lambda: geometry.umeyama_alignment(x, y, True)))(
        est.positions_xyz.T.copy(), ref.positions_xyz.T.copy())
    C["arc_len_accumulated"] = lambda ref, est, rng, d: ([ref.positions_xyz], lambda: (
        geometry.arc_len(ref.positions_xyz), geometry.accumulated_distances(ref.positions_xyz)))
    C["matching_time_indices"] = lambda ref, est, rng, d: ([ref.timestamps, est.timestamps], lambda: sync.matching_time_indices(
        ref.timestamps, est.timestamps, 0.01, 0.003))
    C["associate"] = lambda ref, est, rng, d: ([ref, est], lambda: sync.associate_trajectories(ref, est, 0.02, 0.004))
    for u in ("frames", "meters", "radians", "degrees"):
        def idp(ref, est, rng, d, u=u):
            poses = ref.poses_se3
            delta = {"frames": 2, "meters": 0.3, "radians": 0.2, "degrees": 10.0}[u]
            def run():
                try:
                    return [filters.filter_pairs_by_index(poses, 2, ap) for ap in (False, True)] + [
                        metrics.id_pairs_from_delta(poses, delta, metrics.Unit[u], 0.3, ap) for ap in (False, True)]
                except filters.FilterException:
                    return None
            return [poses], run
        C["id_pairs_" + u] = idp
    C["filter_by_motion"] = lambda ref, est, rng, d: ([ref.poses_se3], lambda: filters.filter_by_motion(ref.poses_se3, 0.2, 0.1))
    C["traj_merge"] = lambda ref, est, rng, d: ([ref, est], lambda: trajectory.merge([ref, est]))
    C["align_target"] = lambda ref, est, rng, d: ([ref], lambda: est.align(ref, correct_scale=True))
    C["align_origin_target"] = lambda ref, est, rng, d: ([ref], lambda: est.align_origin(ref))
    C["infos"] = lambda ref, est, rng, d: ([ref], lambda: (ref.get_infos(), ref.get_statistics(), ref.check(), ref.distances,
                                                        ref.path_length, ref.speeds, str(ref), ref == est,
                                                        ref.get_orientations_euler()))
    C["calc_speed"] = lambda ref, est, rng, d: ([ref.positions_xyz], lambda: (
        trajectory.calc_speed(ref.positions_xyz[0], ref.positions_xyz[1], 0.0, 1.0),
        trajectory.calc_angular_speed(ref.poses_se3[0], ref.poses_se3[1], 0.0, 1.0)))
    C["lie"] = lambda ref, est, rng, d: ([ref.poses_se3, est.poses_se3], lambda: [
        (lie.se3_inverse(p), lie.relative_se3(p, q), lie.so3_log(p[:3, :3]), lie.so3_log_angle(q[:3, :3]), lie.is_se3(p),
         lie.sim3_inverse(p), lie.relative_so3(p[:3, :3], q[:3, :3]), lie.sim3(p[:3, :3], p[:3, 3], 2.0), lie.se3(p[:3, :3], p[:3, 3]))
        for p, q in zip(ref.poses_se3[:4], est.poses_se3[:4])])
    C["splits"] = lambda ref, est, rng, d: ([ref], lambda: (ref.split_time_gaps(1.0), ref.split_distance_gaps(0.5),
                                                         ref.split_speed_outliers(4.0)))

    def merge_res(ref, est, rng, d):
        rs = []
        for rel in (metrics.PoseRelation.translation_part, metrics.PoseRelation.translation_part):
            m = metrics.APE(rel)
            m.process_data((ref, est))
            r = m.get_result("ref", "est")
            r.add_trajectory("ref", ref)
            rs.append(r)
        return [rs], lambda: result.merge_results(rs)
    C["merge_results"] = merge_res

    def pandas_fns(ref, est, rng, d):
        m = metrics.APE(metrics.PoseRelation.translation_part)
        m.process_data((ref, est))
        r = m.get_result("ref", "est")
        return [ref, r], lambda: (pandas_bridge.trajectory_to_df(ref), pandas_bridge.trajectory_stats_to_df(ref, "n"),
                                  pandas_bridge.trajectories_stats_to_df({"a": ref}), pandas_bridge.result_to_df(r),
                                  pandas_bridge.df_to_trajectory(pandas_bridge.trajectory_to_df(ref)),
                                  pandas_bridge.save_df_as_table(pandas_bridge.result_to_df(r), os.path.join(d, "t.csv")))
    C["pandas"] = pandas_fns

    def writers(ref, est, rng, d):
        m = metrics.RPE(metrics.PoseRelation.rotation_angle_deg, 1, metrics.Unit.frames)
        m.process_data((ref, est))
        r = m.get_result("ref", "est")
        r.add_trajectory("ref", ref)
        r.add_trajectory("est", est)
        def run():
            file_interface.write_tum_trajectory_file(os.path.join(d, "w.tum"), ref)
            file_interface.write_kitti_poses_file(os.path.join(d, "w.kitti"), est)
            file_interface.save_res_file(os.path.join(d, "w.zip"), r)
            return file_interface.load_res_file(os.path.join(d, "w.zip"), load_trajectories=True)
        return [ref, est, r], run
    C["writers"] = writers

    def plots(ref, est, rng, d):
        import matplotlib
        matplotlib.use("Agg")
        import matplotlib.pyplot as plt
        from evo.tools import plot
        err = np.abs(rng.normal(size=ref.num_poses))
        def run():
            for mode in plot.PlotMode:
                fig = plt.figure()
                ax = plot.prepare_axis(fig, mode)
                plot.traj(ax, mode, ref, plot_start_end_markers=True, label="r")
                plot.traj_colormap(ax, est, err, mode, float(err.min()), float(err.max()), fig=fig, plot_start_end_markers=True)
                plot.draw_coordinate_axes(ax, est, mode, 0.1)
                plot.draw_correspondence_edges(ax, est, ref, mode)
                plot.trajectories(ax, {"a": ref, "b": est}, mode)
                plt.close(fig)
            fig, axarr = plt.subplots(3)
            plot.traj_xyz(axarr, ref, start_timestamp=1.0)
            plot.traj_rpy(axarr, est)
            fig2 = plt.figure()
            plot.speeds(fig2.gca(), ref)
            plot.speeds(fig2.gca(), ref, start_timestamp=float(ref.timestamps[0]) + 0.5)
            plot.traj_rpy(axarr, ref, start_timestamp=float(ref.timestamps[0]) + 0.5)
            plot.error_array(fig2.gca(), err, x_array=ref.timestamps, statistics={"mean": 1.0, "std": 0.1}, cumulative=True)
            plt.close("all")
        return [ref, est, err], run
    C["plots"] = plots
    return C


_CALLS = [None]


def chk_pure(inp):
    """no argument of a computing / writing function changes bit-for-bit"""
    if _CALLS[0] is None:
        _CALLS[0] = _pure_calls()
    rng = np.random.default_rng(inp["seed"])
    ref, est = _mk(rng, inp["n"], from_poses=inp["from_poses"], gap=inp.get("gap", False))
    if inp.get("read_first"):
        _ = ref.positions_xyz, ref.orientations_quat_wxyz, ref.poses_se3, est.positions_xyz, est.poses_se3
    d = P.workdir("C16")
    watched, thunk = _CALLS[0][inp["call"]](ref, est, rng, d)
    before = [snap(copy.deepcopy(w)) for w in watched]
    try:
        out = thunk()
    except Exception as e:      # the frame condition also holds at exceptional exits
        out = None
        from evo import EvoException
        if not isinstance(e, (EvoException, ValueError)):
            return ["%s raised %r" % (inp["call"], e)]
    after = [snap(w) for w in watched]
    return ["argument_%d_of_%s_changed" % (i, inp["call"]) for i, (a, b) in enumerate(zip(before, after)) if a != b]


DERIVE = ["deepcopy", "associate", "split_time", "split_distance", "split_speed", "split_time_nogap", "merge", "df_roundtrip",
          "reduced_copy", "result_traj", "merge_results"]
MUTATE = ["project_xy", "project_xz", "project_yz", "transform", "transform_prop", "scale", "reduce", "downsample",
          "align", "align_origin", "crop", "motion_filter"]


def _derive(kind, ref, est):
    from evo.core import sync, trajectory
    from evo.tools import pandas_bridge
    if kind == "deepcopy":
        return [copy.deepcopy(ref)]
    if kind == "associate":
        return list(sync.associate_trajectories(ref, est, 0.05))
    if kind == "split_time":
        return list(ref.split_time_gaps(1.0))
    if kind == "split_time_nogap":
        return list(ref.split_time_gaps(1e9))
    if kind == "split_distance":
        return list(ref.split_distance_gaps(float(np.median(np.linalg.norm(np.diff(ref.positions_xyz, axis=0), axis=1)))))
    if kind == "split_speed":
        return list(ref.split_speed_outliers(float(np.median(ref.speeds))))
    if kind == "merge":
        return [trajectory.merge([ref, est])]
    if kind == "df_roundtrip":
        return [pandas_bridge.df_to_trajectory(pandas_bridge.trajectory_to_df(ref))]
    if kind == "reduced_copy":
        c = copy.deepcopy(ref)
        c.reduce_to_ids(list(range(0, ref.num_poses, 2)))
        return [c]
    raise KeyError(kind)


def _mutate(kind, t, other, rng):
    from evo.core.trajectory import Plane
    if kind.startswith("project"):
        t.project(Plane[kind[-2:].upper()])
    elif kind == "transform":
        t.transform(B.rand_se3(rng, "uniform"))
    elif kind == "transform_prop":
        t.transform(B.rand_se3(rng, "uniform"), right_mul=True, propagate=True)
    elif kind == "scale":
        t.scale(1.7)
    elif kind == "reduce":
        t.reduce_to_ids(list(range(0, t.num_poses, 2)))
    elif kind == "downsample":
        t.downsample(max(2, t.num_poses // 2))
    elif kind == "align":
        if t.num_poses == other.num_poses and t.num_poses >= 3:
            t.align(other, correct_scale=True)
    elif kind == "align_origin":
        t.align_origin(other)
    elif kind == "crop":
        if hasattr(t, "timestamps") and t.num_poses >= 3:
            t.reduce_to_time_range(float(t.timestamps[1]), float(t.timestamps[-1]))
    elif kind == "motion_filter":
        if t.num_poses >= 2:
            t.motion_filter(0.05, 0.05)


def chk_history(inp):
    """derive B from A, apply in-place / rebinding operations to B (then to A), re-inspect the other side"""
    from evo import EvoException
    rng = np.random.default_rng(inp["seed"])
    ref, est = _mk(rng, inp["n"], from_poses=inp["from_poses"], gap=True)
    if inp.get("read_first"):
        _ = ref.positions_xyz, ref.orientations_quat_wxyz, ref.poses_se3, est.positions_xyz, est.poses_se3
    f = []
    s_ref, s_est = snap(copy.deepcopy(ref)), snap(copy.deepcopy(est))
    if inp["derive"] in ("result_traj", "merge_results"):
        from evo.core import metrics, result
        rs = []
        for _ in range(2):
            m = metrics.APE(metrics.PoseRelation.translation_part)
            m.process_data((ref, est))
            rs.append(m.get_result("r", "e"))
        if inp["derive"] == "merge_results":
            s_rs = [snap(copy.deepcopy(r)) for r in rs]
            merged = result.merge_results(rs)
            for k in merged.np_arrays:
                merged.np_arrays[k] *= 3.0
            merged.stats["rmse"] = -1.0
            merged.info["title"] = "changed"
            return ["merged_result_independent_of_input_%d" % i for i, (r, s) in enumerate(zip(rs, s_rs)) if snap(r) != s]
        return []
    try:
        derived = _derive(inp["derive"], ref, est)
    except EvoException:
        return []
    if snap(ref) != s_ref or snap(est) != s_est:
        f.append("deriving_%s_changed_an_input" % inp["derive"])
    # forward: mutate each derived object, inputs must not move
    s_der = None
    for k, dobj in enumerate(derived):
        for op in inp["ops"]:
            try:
                _mutate(op, dobj, est if dobj.num_poses == est.num_poses else dobj, rng)
            except EvoException:
                continue
            if snap(ref) != s_ref:
                f.append("%s_on_derived_%s[%d]_changed_the_original" % (op, inp["derive"], k))
                return f
            if snap(est) != s_est:
                f.append("%s_on_derived_%s[%d]_changed_the_other_input" % (op, inp["derive"], k))
                return f
            others = [snap(copy.deepcopy(o)) for j, o in enumerate(derived) if j != k]
            del others
    # backward: mutate the original, derived objects must not move
    s_der = [snap(copy.deepcopy(o)) for o in derived]
    for op in inp["ops"]:
        try:
            _mutate(op, ref, ref, rng)
        except EvoException:
            continue
        for k, (o, s) in enumerate(zip(derived, s_der)):
            if snap(o) != s:
                f.append("%s_on_the_original_changed_derived_%s[%d]" % (op, inp["derive"], k))
                return f
    # sideways: parts of one split are independent of each other
    if len(derived) >= 2:
        fresh = _derive(inp["derive"], est, ref) if False else derived
        s0 = [snap(copy.deepcopy(o)) for o in fresh]
        for op in inp["ops"][:2]:
            try:
                _mutate(op, fresh[0], fresh[0], rng)
            except EvoException:
                continue
            for k in range(1, len(fresh)):
                if snap(fresh[k]) != s0[k]:
                    f.append("%s_on_part_0_changed_part_%d" % (op, k))
                    return f
    return f


CHECKERS = {"pure": chk_pure, "history": chk_history}


def _cases(tier, seed):
    rng = np.random.default_rng(seed + 1616)
    if _CALLS[0] is None:
        _CALLS[0] = _pure_calls()
    names = sorted(_CALLS[0])
    reps = 2 if tier == "quick" else 40
    for r in range(reps):
        for nm in names:
            if nm == "plots" and r % (1 if tier == "quick" else 8):
                continue
            yield ("pure", {"call": nm, "seed": int(rng.integers(0, 10**9)), "n": int(rng.integers(6, 14 if nm == "plots" else 40)),
                            "from_poses": bool((r + len(nm)) % 2), "read_first": bool(r % 2), "gap": bool(r % 3 == 0)})
    K = 6 if tier == "quick" else 150
    for r in range(K):
        for dv in DERIVE:
            ops = [MUTATE[int(i)] for i in rng.choice(len(MUTATE), size=3, replace=False)]
            if r < 3:
                ops = [MUTATE[r]] + ops[:2]          # every projection plane first on each derivation
            yield ("history", {"derive": dv, "ops": ops, "seed": int(rng.integers(0, 10**9)), "n": int(rng.integers(8, 30)),
                               "from_poses": bool(r % 2), "read_first": bool((r // 2) % 2)})


def bounded(tier, seed):
    return B.run(CHECKERS, _cases(tier, seed),
                 rule="every computing / writing function of evo.core, file_interface, pandas_bridge and plot called on random "
                      "trajectories (6..40 poses, both storage modes, caches present or not) with deep bit-exact snapshots of "
                      "all arguments before and after; histories: 11 ways of deriving objects x 3 of 12 mutating operations "
                      "on the derived objects, then on the original, then on sibling parts, re-inspecting the other side "
                      "after every step",
                 bounds={"seed": seed})


def concretize(vc, tier, seed):
    r = bounded("quick", seed + 1)
    if r["violations"]:
        v = r["violations"][0]
        return {"checker": v["checker"], "input": v["input"], "failed": v["failed"]}
    return None
