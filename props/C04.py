"""C04 -- trajectory alignment applies exactly the returned transform, never worsens fit."""
import copy
import math

import numpy as np

from pyvc import bounded as B
from props import pipeline as P

ID = "C04"
LEVEL = "proof"
LEVEL_TEXT = ("PosePath3D.align (all 8 flag / n cases), align_origin, scale and transform are verified for trajectories of any "
              "length: the returned parameters are Umeyama's for the first n position pairs of estimate and reference (n "
              "wiring on both sides), scale estimation iff requested, every pose moved by exactly the returned similarity "
              "(p -> s R p + t, R_p -> R R_p; scale-only: p -> s p and nothing else), origin mode: T = ref_0 est_0^-1 applied "
              "to every pose (first pose lands on ref_0: lemma), reference untouched.  'RMSE never worse / optimal in its "
              "class / re-alignment is the identity' follow from Umeyama's theorem (cited) and are bounded; the alignment "
              "matrix recorded by ape()/rpe() is verified to be the composition of exactly the applied transformations "
              "(scale-only: s I; similarity: [s r | t]; origin alignment multiplied from the left) for 8 option combinations.")
LEVEL_NOTE = ("floats as reals; umeyama_alignment cut by its contract (C03); verified for matrix-built trajectories; "
              "Umeyama's theorem cited; ape()/rpe(): wiring proof with recording stand-ins, end-to-end recording also bounded")
SIDECARS = ["contracts.lie_algebra", "contracts.lemmas_lie", "contracts.geometry", "contracts.filters", "contracts.umeyama",
            "contracts.trajectory", "contracts.lemmas_traj",
            "contracts.metrics", "contracts.overwrite", "contracts.ape_rpe_cli"]
T = "evo.core.trajectory."
FUNCTIONS = [T + "PosePath3D.scale", T + "PosePath3D.transform", T + "PosePath3D.align_origin", T + "PosePath3D.align",
             "evo.main_ape.ape", "evo.main_rpe.rpe"]
LEMMAS = ["origin_alignment_maps_first_pose_and_keeps_relative_poses", "se3_inverse_is_group_inverse"]
TRUSTED = ["Umeyama 1991 (cited): the alignment is the least-squares optimum of its class",
           "evo.core.transformations.quaternion_from_matrix (vendored): unit quaternion of the rotation block"]
ASSUMPTIONS = ["RMSE-after <= RMSE-before, <= any other transformation of the class, idempotence: consequences of the cited "
               "theorem, exercised by the bounded run", "alignment matrix in ape()/rpe() results: bounded stand-in"]
EXPLANATION = "callee contracts (umeyama, scale, transform) composed; polynomial clauses by definition substitution / Groebner"


def _pair(inp):
    rng = np.random.default_rng(inp["seed"])
    (ref, est) = P.rand_pair(rng, inp["n"], noise=inp.get("noise", 0.05), scale=inp.get("scale", 1.0),
                             stamps=inp.get("stamps", True), from_poses=inp.get("from_poses", False))
    return ref, est, rng


def _rmse(a, b, n=None):
    d = a.positions_xyz[:n] - b.positions_xyz[:n]
    return math.sqrt(float(np.mean(np.sum(d * d, axis=1))))


def chk_align(inp):
    ref, est, rng = _pair(inp)
    ref0, est0 = copy.deepcopy(ref), copy.deepcopy(est)
    cs, only, n = inp["correct_scale"], inp["only_scale"], inp["n_to_align"]
    from evo.core import geometry as _g
    try:
        r, t, s = est.align(ref, cs, only, n)
    except _g.GeometryException as e:
        # the generated pairs determine a rotation (>= 3 random poses): Umeyama on exactly these pairs must work
        nn_ = None if n == -1 else n
        try:
            _g.umeyama_alignment(est0.positions_xyz[:nn_].T, ref0.positions_xyz[:nn_].T, cs or only)
        except _g.GeometryException:
            return []           # genuinely degenerate data: the refusal is C03's business
        return ["determined_from_the_first_n_pose_pairs: align refused pairs that determine the alignment (%s)" % e]
    f = []
    if ref != ref0 or not np.array_equal(ref.positions_xyz, ref0.positions_xyz):
        f.append("reference_unchanged")
    nn = None if n == -1 else n
    if not (cs or only) and not (isinstance(s, float) and s == 1.0):
        f.append("scale_is_1_without_scale_correction")
    p0 = est0.positions_xyz
    R0 = np.array(est0.poses_se3)[:, :3, :3]
    scale = max(1.0, float(np.abs(p0).max()), float(np.abs(ref0.positions_xyz).max()))
    if only:
        exp_p, exp_R = s * p0, R0
    elif cs:
        exp_p, exp_R = s * (r @ p0.T).T + t, np.einsum("ij,njk->nik", r, R0)
    else:
        exp_p, exp_R = (r @ p0.T).T + t, np.einsum("ij,njk->nik", r, R0)
    if not np.allclose(est.positions_xyz, exp_p, atol=1e-9 * scale) or \
            not np.allclose(np.array(est.poses_se3)[:, :3, :3], exp_R, atol=1e-9):
        f.append("every_pose_moved_by_exactly_the_returned_similarity")
    if not np.allclose(np.array(est.poses_se3)[:, :3, 3], est.positions_xyz, atol=1e-9 * scale):
        f.append("views_consistent_after_align")
    # first-n wiring: the parameters are Umeyama's for the first n pairs
    from evo.core import geometry
    r2, t2, s2 = geometry.umeyama_alignment(p0[:nn].T, ref0.positions_xyz[:nn].T, cs or only)
    if not (np.allclose(r, r2, atol=1e-9) and np.allclose(t, t2, atol=1e-9 * scale) and abs(s - s2) <= 1e-9 * max(1, abs(s2))):
        f.append("determined_from_the_first_n_pose_pairs")
    if not only:
        before, after = _rmse(est0, ref0, nn), _rmse(est, ref0, nn)
        if after > before * (1 + 1e-9) + 1e-12:
            f.append("rmse_never_larger_than_before %r > %r" % (after, before))
        for _ in range(16):
            e2 = copy.deepcopy(est)
            e2.transform(B.rand_se3(rng, "tiny", tmag=(-4, -2)))
            if cs and _ % 2:
                e2.scale(1 + float(rng.normal()) * 1e-3)
            if _rmse(e2, ref0, nn) < after * (1 - 1e-9) - 1e-12:
                f.append("rmse_not_larger_than_under_another_transformation_of_the_class")
                break
        e3 = copy.deepcopy(est)
        r3, t3, s3 = e3.align(ref0, cs, only, n)
        if not (np.allclose(r3, np.eye(3), atol=1e-6) and np.allclose(t3, 0, atol=1e-6 * scale) and abs(s3 - 1) < 1e-6):
            f.append("aligning_again_is_the_identity")
    return f


def chk_origin(inp):
    ref, est, rng = _pair(inp)
    ref0, est0 = copy.deepcopy(ref), copy.deepcopy(est)
    T = est.align_origin(ref)
    f = []
    scale = max(1.0, float(np.abs(est0.positions_xyz).max()), float(np.abs(ref0.positions_xyz).max()))
    if not np.allclose(est.poses_se3[0], ref0.poses_se3[0], atol=1e-9 * scale):
        f.append("first_pose_mapped_onto_the_reference's_first_pose")
    for k in range(1, est0.num_poses):
        if not np.allclose(P.rel(est.poses_se3[k - 1], est.poses_se3[k]), P.rel(est0.poses_se3[k - 1], est0.poses_se3[k]),
                           atol=1e-8 * scale):
            f.append("relative_poses_preserved")
            break
    if not all(np.allclose(est.poses_se3[k], T @ est0.poses_se3[k], atol=1e-9 * scale) for k in range(est0.num_poses)):
        f.append("every_pose_moved_by_exactly_the_returned_transformation")
    if ref != ref0:
        f.append("reference_unchanged")
    return f


def chk_recorded(inp):
    """ape()/rpe(): the recorded alignment matrix maps the unaligned estimate onto the stored estimate"""
    from evo import main_ape, main_rpe
    from evo.core import metrics
    from evo.core.units import Unit
    ref, est, rng = _pair(inp)
    est0 = copy.deepcopy(est)
    kw = dict(align=inp["align"], correct_scale=inp["correct_scale"], align_origin=inp["align_origin"],
              n_to_align=inp["n_to_align"])
    if inp["which"] == "ape":
        res = main_ape.ape(copy.deepcopy(ref), est, metrics.PoseRelation.translation_part, **kw)
        ids = list(range(est0.num_poses))
    else:
        res = main_rpe.rpe(copy.deepcopy(ref), est, metrics.PoseRelation.translation_part, 1, Unit.frames, **kw)
        ids = list(range(est0.num_poses))
    A = res.np_arrays.get("alignment_transformation_sim3")
    if A is None:
        return [] if not (inp["align"] or inp["correct_scale"] or inp["align_origin"]) else ["alignment_matrix_recorded"]
    stored = res.trajectories["estimate"]
    got = (A[:3, :3] @ est0.positions_xyz[ids].T).T + A[:3, 3]
    scale = max(1.0, float(np.abs(got).max()))
    if not np.allclose(got, stored.positions_xyz, atol=1e-8 * scale):
        return ["recorded_alignment_matrix_maps_the_unaligned_estimate_onto_the_stored_estimate"]
    return []


CHECKERS = {"align": chk_align, "origin": chk_origin, "recorded": chk_recorded}


def _cases(tier, seed):
    rng = np.random.default_rng(seed + 404)
    K = 120 if tier == "quick" else 700
    for it in range(K):
        n = int(rng.integers(3, 15)) if it % 3 else int(rng.integers(3, 300 if tier == "quick" else 2000))
        sd = int(rng.integers(0, 10**9))
        base = {"seed": sd, "n": n, "noise": [0.0, 0.05, 1.0][it % 3], "scale": float(10.0**rng.uniform(-2, 2)),
                "from_poses": bool(it % 2), "stamps": bool(it % 3)}
        yield ("align", dict(base, correct_scale=bool(it & 1), only_scale=bool(it & 2),
                             n_to_align=[-1, max(3, n // 2), n, n + 5][(it >> 2) % 4]))
        yield ("origin", base)
        yield ("recorded", dict(base, which="ape" if it % 2 else "rpe", align=bool(it & 1), correct_scale=bool(it & 2),
                                align_origin=bool(it & 4), n_to_align=[-1, max(3, n // 2)][(it >> 3) & 1]))


def bounded(tier, seed):
    return B.run(CHECKERS, _cases(tier, seed),
                 rule="synchronised pairs 3..%d poses, noise 0..100%% of the step size, scale ratios 1e-2..1e2, {rigid, similarity, "
                      "scale-only} x n in {-1, n/2, N, N+5} x both storage modes; RMSE before/after/16 perturbations, "
                      "re-alignment; origin mode; recorded matrix of ape()/rpe() for all flag combinations"
                      % (300 if tier == "quick" else 2000), bounds={"seed": seed})


def concretize(vc, tier, seed):
    r = bounded("quick", seed + 1)
    if r["violations"]:
        v = r["violations"][0]
        return {"checker": v["checker"], "input": v["input"], "failed": v["failed"]}
    return None
