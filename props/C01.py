"""C01 -- APE values equal the mathematical definition, pose by pose."""
import copy
import math
import os

import numpy as np

from pyvc import bounded as B
from props import pipeline as P

ID = "C01"
LEVEL = "proof"
LEVEL_TEXT = ("APE.process_data is verified for all pose sequences of any length and every pose relation: one value per pose "
              "in input order, equal to the definition applied to that reference/estimate pair (position distance; "
              "angle / Frobenius distance of E_k = est_k^-1 ref_k), unequal lengths refused with nothing computed, inputs "
              "untouched; se3_inverse / relative_se3 / so3_log_angle against their contracts; zero for coinciding "
              "trajectories, invariance under a common rigid motion and swap symmetry are lemmas over the definitions "
              "(z3 + Groebner).  main_ape.ape is verified as an event-order contract for 8 option combinations (alignment with "
              "the requested mode and n, then origin alignment, then projection of both, then the metric on the processed pair; "
              "stored trajectories are the processed ones).  main_ape.run (loading, association, down-sampling): bounded stand-in.")
LEVEL_NOTE = ("floats as reals; trusted: scipy rotation angle, numpy norm/dot; matrix relations proved for matrix-built "
              "trajectories; ape(): wiring proof with recording stand-ins for the operations (their effects are C04/C08/C14); "
              "run(): bounded (in-process runs compared with the documented pipeline order)")
SIDECARS = ["contracts.lie_algebra", "contracts.lemmas_lie", "contracts.geometry", "contracts.filters", "contracts.metrics",
            "contracts.lemmas_metrics",
            "contracts.overwrite", "contracts.ape_rpe_cli"]
FUNCTIONS = ["evo.core.lie_algebra.se3_inverse", "evo.core.lie_algebra.relative_se3", "evo.core.lie_algebra.so3_log_angle",
             "evo.core.metrics.APE.process_data",
             "evo.main_ape.ape"]
LEMMAS = ["se3_inverse_is_group_inverse", "relative_se3_laws", "ape_zero_when_trajectories_coincide",
          "relative_pose_invariant_under_common_left_motion", "ape_unchanged_under_common_rigid_motion",
          "ape_unchanged_when_reference_and_estimate_are_swapped"]
TRUSTED = ["scipy rotation angle |as_rotvec(R)| = arccos((tr R - 1)/2)", "numpy.linalg.norm (2-norm / Frobenius)",
           "numpy.dot", "numpy.rad2deg"]
ASSUMPTIONS = ["poses are exact SE(3) matrices (precondition; every relative rotation then passes so3_log's is_so3 test)",
               "main_ape.ape() / run(): bounded stand-in only (alignment, projection and file readers are under contract in "
               "C04, C14, C07)"]
EXPLANATION = "per-pose postcondition over symbolic pose lists; invariances as Groebner-certified polynomial identities"

RELS = ["full_transformation", "translation_part", "rotation_part", "rotation_angle_rad", "rotation_angle_deg",
        "point_distance"]


def _pair(inp):
    rng = np.random.default_rng(inp["seed"])
    return P.rand_pair(rng, inp["n"], noise=inp.get("noise", 0.05), scale=inp.get("scale", 1.0),
                       stamps=inp.get("stamps", True), from_poses=inp.get("from_poses", False),
                       offset=inp.get("offset"), rot_kind=inp.get("rot_kind")), rng


def chk_values(inp):
    from evo.core import metrics
    (ref, est), rng = _pair(inp)
    rel = inp["relation"]
    f = []
    ref0, est0 = copy.deepcopy(ref), copy.deepcopy(est)
    m = metrics.APE(metrics.PoseRelation[rel])
    m.process_data((ref, est))
    scale = float(np.abs(ref.positions_xyz).max()) if rel in ("full_transformation", "translation_part", "point_distance") else 1.0
    e = P.values_match(rel, list(m.error), P.ape_oracle(rel, ref0.poses_se3, est0.poses_se3), scale)
    if e:
        f.append("value_is_the_definition[%s] %s" % (rel, e))
    if ref != ref0 or est != est0 or not np.array_equal(ref.positions_xyz, ref0.positions_xyz):
        f.append("trajectories_untouched")
    # zero / common motion / swap
    mz = metrics.APE(metrics.PoseRelation[rel])
    mz.process_data((ref, copy.deepcopy(ref)))
    if np.abs(mz.error).max() > (1e-7 if "angle" in rel else 1e-9 * max(1.0, scale)):
        f.append("zero_when_coinciding max %.3g" % np.abs(mz.error).max())
    A = B.rand_se3(rng, "uniform", tmag=(-2, 2))
    r2, e2 = copy.deepcopy(ref0), copy.deepcopy(est0)
    r2.transform(A)
    e2.transform(A)
    m2 = metrics.APE(metrics.PoseRelation[rel])
    m2.process_data((r2, e2))
    e = P.values_match(rel, list(m2.error), list(m.error), scale * 100)
    if e:
        f.append("unchanged_under_common_rigid_motion " + e)
    m3 = metrics.APE(metrics.PoseRelation[rel])
    m3.process_data((est0, ref0))
    e = P.values_match(rel, list(m3.error), list(m.error), scale)
    if e:
        f.append("unchanged_when_swapped " + e)
    return f


def chk_refuse(inp):
    from evo.core import metrics
    (ref, est), rng = _pair(inp)
    est.reduce_to_ids(list(range(inp["n"] - inp["drop"])))
    m = metrics.APE(metrics.PoseRelation[inp["relation"]])
    try:
        m.process_data((ref, est))
    except metrics.MetricsException:
        return [] if len(m.error) == 0 else ["nothing_computed_when_refused"]
    return ["different_lengths_refused"]


def chk_ape_pipeline(inp):
    """main_ape.ape() against the documented order alignment -> origin alignment -> projection -> metric -> unit"""
    from evo import main_ape
    from evo.core import metrics
    from evo.core.trajectory import Plane
    (ref, est), rng = _pair(inp)
    rel = inp["relation"]
    plane = Plane(inp["plane"]) if inp.get("plane") else None
    cu = metrics.Unit(inp["unit"]) if inp.get("unit") else None
    kw = dict(align=inp["align"], correct_scale=inp["correct_scale"], n_to_align=inp["n_to_align"],
              align_origin=inp["align_origin"])
    ref_s, est_s = P.spec_pipeline(ref, est, plane=plane, **kw)
    res = main_ape.ape(copy.deepcopy(ref), copy.deepcopy(est), metrics.PoseRelation[rel], change_unit=cu,
                       project_to_plane=plane, **kw)
    exp = P.ape_oracle(rel, ref_s.poses_se3, est_s.poses_se3)
    if cu is not None:
        fac = {"mm": 1e3, "cm": 1e2, "m": 1.0, "km": 1e-3}.get(inp["unit"])
        exp = [x * fac for x in exp]
    f = []
    e = P.values_match(rel, list(res.np_arrays["error_array"]), exp, float(np.abs(ref.positions_xyz).max()) * 1e3)
    if e:
        f.append("stored_values_are_the_values_of_the_processed_pairs " + e)
    return f


def chk_cli(inp):
    """evo_ape tum ... --save_results: the stored values are the definition on the associated, processed pairs"""
    from evo import main_ape, main_ape_parser
    from evo.core import sync, metrics
    from evo.tools import file_interface
    (ref, est), rng = _pair(inp)
    d = P.workdir("C01")
    rp, ep, zp = os.path.join(d, "ref.tum"), os.path.join(d, "est.tum"), os.path.join(d, "res.zip")
    # the estimate is sampled at shifted stamps and misses some poses
    keep = np.sort(rng.choice(inp["n"], size=max(2, inp["n"] - 3), replace=False))
    est.reduce_to_ids(list(keep))
    est.timestamps = est.timestamps + inp["jitter"]
    P.write_tum(rp, ref)
    P.write_tum(ep, est)
    if os.path.exists(zp):
        os.remove(zp)
    argv = ["tum", rp, ep, "-r", inp["rel_flag"], "--save_results", zp, "--no_warnings", "--t_max_diff", "0.02",
            "--t_offset", repr(-inp["jitter"])] + inp["flags"]
    args = main_ape_parser.parser().parse_args(argv)
    import logging
    logging.disable(logging.CRITICAL)
    try:
        main_ape.run(args)
    finally:
        logging.disable(logging.NOTSET)
    res = file_interface.load_res_file(zp)
    ref_l, est_l = file_interface.read_tum_trajectory_file(rp), file_interface.read_tum_trajectory_file(ep)
    if "--downsample" in inp["flags"]:
        N = int(inp["flags"][inp["flags"].index("--downsample") + 1])
        ref_l.downsample(N)
        est_l.downsample(N)
    r_a, e_a = sync.associate_trajectories(ref_l, est_l, 0.02, -inp["jitter"])
    r_s, e_s = P.spec_pipeline(r_a, e_a, align="-a" in inp["flags"], correct_scale="-s" in inp["flags"],
                               align_origin="--align_origin" in inp["flags"])
    rel = {"full": "full_transformation", "trans_part": "translation_part", "rot_part": "rotation_part",
           "angle_deg": "rotation_angle_deg", "angle_rad": "rotation_angle_rad", "point_distance": "point_distance"}[inp["rel_flag"]]
    exp = P.ape_oracle(rel, r_s.poses_se3, e_s.poses_se3)
    e = P.values_match(rel, list(res.np_arrays["error_array"]), exp, float(np.abs(ref.positions_xyz).max()) * 1e3)
    return ["evo_ape_stores_the_values_of_the_remaining_pairs " + e] if e else []


CHECKERS = {"values": chk_values, "refuse": chk_refuse, "ape_pipeline": chk_ape_pipeline, "cli": chk_cli}


def _cases(tier, seed):
    rng = np.random.default_rng(seed + 101)
    K = 60 if tier == "quick" else 400
    for it in range(K):
        n = int(rng.integers(1, 12)) if it % 3 else int(rng.integers(1, 300 if tier == "quick" else 3000))
        sd = int(rng.integers(0, 10**9))
        for rel in RELS:
            base = {"seed": sd, "n": n, "relation": rel, "from_poses": bool(it % 2), "stamps": bool(it % 3),
                    "noise": [0.0, 0.05, 1.0][it % 3], "scale": [1.0, 0.5, 3.0][(it // 3) % 3],
                    "rot_kind": [None, "tiny", "nearpi"][(it // 2) % 3],
                    "offset": [None, [4.5e5, 5.4e6, 300.0]][it % 2]}
            yield ("values", base)
        if n >= 2:
            yield ("refuse", {"seed": sd, "n": n, "relation": RELS[it % 6], "drop": 1 + it % max(1, n - 1)})
        if n >= 3:
            flags = {"align": bool(it & 1), "correct_scale": bool(it & 2), "align_origin": bool(it & 4),
                     "n_to_align": [-1, max(3, n // 2)][(it >> 3) & 1]}
            rel = RELS[it % 6]
            unit = None
            if rel in ("translation_part", "point_distance") and it % 2:
                unit = ["mm", "cm", "km", "m"][it % 4]
            yield ("ape_pipeline", dict(seed=sd, n=max(n, 4), relation=rel, plane=[None, "xy", "xz", "yz"][it % 4],
                                        unit=unit, noise=0.05, scale=[1.0, 2.0][it % 2], **flags))
    for it in range(8 if tier == "quick" else 150):
        flags = list([[], ["-a"], ["-s"], ["-a", "-s"], ["--align_origin"]][it % 5])
        if it % 4 == 0:
            flags += ["--downsample", "15"]
        yield ("cli", {"seed": 7000 + it, "n": 25, "noise": 0.02, "jitter": [0.0, 0.003, -0.004][it % 3],
                       "rel_flag": ["trans_part", "full", "rot_part", "angle_deg", "angle_rad", "point_distance"][it % 6],
                       "flags": flags, "from_poses": False})


def bounded(tier, seed):
    return B.run(CHECKERS, _cases(tier, seed),
                 rule="synchronised trajectory pairs (both storage modes, with/without stamps, noise 0..100%, scale 0.5..3, "
                      "UTM-like offsets, relative angles tiny and near pi) x 6 relations: values vs. the definition, zero / "
                      "common-motion / swap; unequal lengths; ape() with all flag combinations x planes x units against the "
                      "documented order; evo_ape run() in-process on generated TUM files",
                 bounds={"max_poses": 300 if tier == "quick" else 3000, "seed": seed})


def concretize(vc, tier, seed):
    r = bounded("quick", seed + 1)
    if r["violations"]:
        v = r["violations"][0]
        return {"checker": v["checker"], "input": v["input"], "failed": v["failed"]}
    return None
